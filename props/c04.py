"""C04 — P1: a readout is reported valid only if its CRC16 and identification check out."""
from props import dlde_model as M
from pyvc.run import PropResult

def build(repo, tier, seed):
    eng = M.mk_engine(repo)
    obls = M.readout_obligations(eng)
    return PropResult(obls, eng, functions=sorted({o.func for o in obls if o.func}), derived=sorted(eng.derived),
        assumptions=["prelude contracts (assumed, conformance-tested): bytes.lstrip/find/decode('ascii'), str.strip on ASCII text as recursive spec functions; int(text,16) as an abstract partial function with int(4 hex digits,16) == hexval4",
                     "the identification-line regular expression is an abstract predicate in the VCs; its language is compared with the specified language separately (re implements that regular language on ASCII input)"],
        explanation="C04: CRC loop invariant against the bit-serial CRC-16/ARC definition, __init__ establishes the readout invariant (first '!', data position, calculated CRC), "
                    "is_valid postconditions (i)-(iv) from the property statement, payload/as_bytes contracts, exceptional postconditions")

def fallback(repo, tier, seed):
    from pyvc import run
    b = run.rt_call("C04", "bounded_search", {"seed": seed, "n": 150 if tier == "quick" else 2000})
    return [b if "name" in b else {"name": "bounded_search", "error": b.get("error", b)}]
