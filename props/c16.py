"""C16 — Readers resynchronise after noise with bounded loss."""
from props import hdlc_model as M, dlde_model as DM, ideal_hdlc as ID, clean_hdlc as CL, resync_hdlc as RS, clean_p1 as CP
from pyvc import run

KEEP = ("right after a flag", "no pending escape", "unstuff(raw)", "octets == raw", "2047", "frame_inv", "hunt mode", "collected octets", "pre:", "inv-entry", "dec#", "consumes at least", "left unconsumed")
def build(repo, tier, seed):
    tasks = M.hdlc_tasks(repo, None, True) + [("p1reader", DM.group_p1reader, (repo,))] + [(f"segment lemma {cfg}", M.group_segment_lemma, (repo, cfg)) for cfg in M.CONFIGS if cfg[0]] + \
            [(f"ideal receiver {cfg}", ID.group_ideal, (repo, cfg)) for cfg in M.CONFIGS] + [(f"clean stream {cfg}", CL.group_clean_stream, (repo, cfg)) for cfg in M.CONFIGS] + \
            [(f"resync lemma {cfg}", RS.group_resync, (repo, cfg)) for cfg in M.CONFIGS] + [("clean p1 stream", CP.group_clean_p1, (repo,)), ("resync p1", CP.group_resync_p1, (repo,))]
    r = M.groups_result(tasks, select=None)
    r.functions = sorted(set(M.READER_FUNCS) | set(DM.P1_FUNCS))
    r.level = "proof"
    r.explanation = ("C16, HDLC part (deductive, four configurations): read()'s contract against the ideal receiver (after ANY input the reader's state is the ideal receiver's at the stream position: C06's groups, "
                     "included here) and its clean-stream contract (from 'the reader holds what the ideal un-stuffer holds' on, every well-formed frame is returned once, in order: C02's groups, included here) are connected by "
                     "the resync lemma over the ideal receiver (props/resync_hdlc.py, pure spec-level obligations): whatever the receiver holds at the first flag F0 of the clean part, an invariant RESYNC (hunting, or in a frame "
                     "whose octets so far equal the ideal frame's octet by octet; without stuffing also: inside a frame of its own with at least p-F0 octets) holds at F0+1, is preserved by every octet, and - with stuffing - at "
                     "the first closing flag leaves a new empty frame, which is the clean-stream contract's STATE: every frame after the first is delivered; without stuffing the own frame cannot survive 2048 octets, "
                     "tracking at a closing flag completes the frame with the octets that were sent and leaves STATE, hunting at a delimiter flag starts tracking: every flag-free frame whose opening flag stands 2048 octets "
                     "or more after the noise is delivered. The inductions over the positions are the usual rule applied to base / step obligations. P1 part (props/clean_p1.py, on the real body of ModeDReader.read()): a third contract 'resync': from ANY reader state (arbitrary bytes before the clean part; the base "
                     "invariant now also says that collected octets end with a line end) whose read position has not passed A1, the end of the first clean readout, read(chunk) ends either still not past A1 or in the "
                     "clean-stream contract's STATE at or beyond A1 - the position never jumps over A1 (hunt-mode trimming stops at its '/', the length guard can only clear up to a position inside the first readout) and "
                     "A1 is reached hunting with nothing collected; readouts returned before A1 are unconstrained ('except possibly the first'), from A1 on exactly one per end line, byte-identical (C05's contract, groups "
                     "included here). Assumptions as in C02 / C05 / C06 plus: '/' occurs in the clean part only where a readout starts.")
    r.assumptions = ["stream descriptions: CLEAN(p) of props/clean_hdlc.py and props/clean_p1.py for the clean part (checked on generated streams by the bounded runs), nothing about the bytes before it",
                     "without octet stuffing the guarantee is for flag-free frames (every flag of the clean part is a delimiter)", "P1: '/' occurs in the clean part only at the start of an identification line",
                     "inductions over stream positions (base / step obligations) and the composition over calls are the usual rules, applied by hand",
                     "'an aborted, discarded or invalid frame never corrupts the frame that follows it' is the same resync lemma read at the flag that ends the bad frame (the frame directly after that flag may be lost "
                     "when the flag is shared, as the statement's 'except possibly the first' allows)"]
    r.not_decided = []
    b = run.rt_call("C16", "resync_search", {"seed": seed, "n": 400 if tier == "quick" else 6000})
    r.bounded.append(b if "name" in b else {"name": "resync_search", "error": b.get("error", b)})
    b = run.rt_call("C16", "p1_resync_check", {"seed": seed, "n": 150 if tier == "quick" else 3000})
    r.bounded.append(b if "name" in b else {"name": "p1_resync_check", "error": b.get("error", b)})
    return r
