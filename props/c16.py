"""C16 — Readers resynchronise after noise with bounded loss."""
from props import hdlc_model as M, dlde_model as DM
from pyvc import run

KEEP = ("right after a flag", "no pending escape", "unstuff(raw)", "octets == raw", "2047", "frame_inv", "hunt mode", "collected octets", "pre:", "inv-entry", "dec#", "consumes at least", "left unconsumed")
def build(repo, tier, seed):
    tasks = M.hdlc_tasks(repo, None, True) + [("p1reader", DM.group_p1reader, (repo,))] + [(f"segment lemma {cfg}", M.group_segment_lemma, (repo, cfg)) for cfg in M.CONFIGS if cfg[0]]
    r = M.groups_result(tasks, select=None)
    r.functions = sorted(set(M.READER_FUNCS) | set(DM.P1_FUNCS))
    r.level = "other"
    r.explanation = ("C16: state claims proved deductively for every reachable state (they are clauses of the reader invariants, which hold after arbitrary input): "
                     "HDLC: after a flag / frame start / discard no escape is pending, octets == unstuff(raw) restarts from the flag, frames cannot exceed 2047 octets (so a non-stuffing reader "
                     "leaves a bogus frame after at most 2047 octets); P1: in hunt mode no collected octets are kept, so nothing stale is prefixed to the next readout. "
                     "The composition 'every subsequent clean message except possibly the first is delivered' is a whole-history lemma over these contracts and is run as a BOUNDED stand-in "
                     "(noise prefixes x clean suffixes x chunkings on the real readers), never counted as proved.")
    r.not_decided = ["lemma resync (delivery of the clean suffix) is bounded, not proved"]
    b = run.rt_call("C16", "resync_search", {"seed": seed, "n": 400 if tier == "quick" else 6000})
    r.bounded.append(b if "name" in b else {"name": "resync_search", "error": b.get("error", b)})
    return r
