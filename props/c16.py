"""C16 — Readers resynchronise after noise with bounded loss."""
from props import hdlc_model as M, dlde_model as DM, ideal_hdlc as ID, clean_hdlc as CL, resync_hdlc as RS
from pyvc import run

KEEP = ("right after a flag", "no pending escape", "unstuff(raw)", "octets == raw", "2047", "frame_inv", "hunt mode", "collected octets", "pre:", "inv-entry", "dec#", "consumes at least", "left unconsumed")
def build(repo, tier, seed):
    tasks = M.hdlc_tasks(repo, None, True) + [("p1reader", DM.group_p1reader, (repo,))] + [(f"segment lemma {cfg}", M.group_segment_lemma, (repo, cfg)) for cfg in M.CONFIGS if cfg[0]] + \
            [(f"ideal receiver {cfg}", ID.group_ideal, (repo, cfg)) for cfg in M.CONFIGS] + [(f"clean stream {cfg}", CL.group_clean_stream, (repo, cfg)) for cfg in M.CONFIGS] + \
            [(f"resync lemma {cfg}", RS.group_resync, (repo, cfg)) for cfg in M.CONFIGS]
    r = M.groups_result(tasks, select=None)
    r.functions = sorted(set(M.READER_FUNCS) | set(DM.P1_FUNCS))
    r.level = "other"
    r.explanation = ("C16, HDLC part (deductive, four configurations): read()'s contract against the ideal receiver (after ANY input the reader's state is the ideal receiver's at the stream position: C06's groups, "
                     "included here) and its clean-stream contract (from 'the reader holds what the ideal un-stuffer holds' on, every well-formed frame is returned once, in order: C02's groups, included here) are connected by "
                     "the resync lemma over the ideal receiver (props/resync_hdlc.py, pure spec-level obligations): whatever the receiver holds at the first flag F0 of the clean part, an invariant RESYNC (hunting, or in a frame "
                     "whose octets so far equal the ideal frame's octet by octet; without stuffing also: inside a frame of its own with at least p-F0 octets) holds at F0+1, is preserved by every octet, and - with stuffing - at "
                     "the first closing flag leaves a new empty frame, which is the clean-stream contract's STATE: every frame after the first is delivered; without stuffing the own frame cannot survive 2048 octets, "
                     "tracking at a closing flag completes the frame with the octets that were sent and leaves STATE, hunting at a delimiter flag starts tracking: every flag-free frame whose opening flag stands 2048 octets "
                     "or more after the noise is delivered. The inductions over the positions are the usual rule applied to base / step obligations. P1 part: "
                     "state claims proved deductively for every reachable state (they are clauses of the reader invariants, which hold after arbitrary input): "
                     "HDLC: after a flag / frame start / discard no escape is pending, octets == unstuff(raw) restarts from the flag, frames cannot exceed 2047 octets (so a non-stuffing reader "
                     "leaves a bogus frame after at most 2047 octets); P1: in hunt mode no collected octets are kept, so nothing stale is prefixed to the next readout. "
                     "The composition 'every subsequent clean message except possibly the first is delivered' is a whole-history lemma over these contracts and is run as a BOUNDED stand-in "
                     "(noise prefixes x clean suffixes x chunkings on the real readers), never counted as proved.")
    r.not_decided = ["lemma resync (delivery of the clean suffix) is bounded, not proved"]
    b = run.rt_call("C16", "resync_search", {"seed": seed, "n": 400 if tier == "quick" else 6000})
    r.bounded.append(b if "name" in b else {"name": "resync_search", "error": b.get("error", b)})
    return r
