import itertools, random
from han import hdlc
from props.hdlc_rt import replay_read_next, replay_read, ALPHA
from props.c16_rt import mk_frame, stuff
def run_chunks(cfg, chunks):
    r = hdlc.HdlcFrameReader(*cfg); out = []
    for ch in chunks:
        for f in r.read(ch): out.append((f.as_bytes, f.is_valid, f.payload))
    return out
def chunk_independence(p):
    rnd = random.Random(p.get("seed", 0)); L = p.get("maxlen", 7); bad = []; ev = 0; distinct = 0
    # a complete small frame so that the header check sequence is available
    alpha = [0x7E, 0x7D, 0xA0, 0x07, 0x03, 0x5E]
    hdr = bytes([0xA0, 0x07, 0x03, 0x03, 0x13]); from props import spec_py as sp; f = sp.fcs16(hdr); good = hdr + bytes([f & 0xFF, f >> 8])
    prefixes = [b"", b"\x7e" + good[:5], b"\x7e" + good]
    for cfg in ((False, False), (False, True), (True, False), (True, True)):
        for pre in prefixes:
            for n in range(0, L - 2):
                for tail in itertools.product(alpha[:4] + [good[5]], repeat=n) if n <= 4 else [tuple(rnd.choice(alpha) for _ in range(n)) for _ in range(300)]:
                    s = pre + bytes(tail); whole = run_chunks(cfg, [s]); distinct += 1
                    for cut in range(1, len(s)):
                        ev += 1
                        if run_chunks(cfg, [s[:cut], s[cut:]]) != whole: bad.append({"cfg": list(cfg), "stream": s.hex(), "cut": cut}); break
                    ev += 1
                    if not bad and run_chunks(cfg, [s[i:i + 1] for i in range(len(s))]) != whole: bad.append({"cfg": list(cfg), "stream": s.hex(), "cut": "byte-at-a-time"})
                    if bad: break
                if bad: break
            if bad: break
        if bad: break
    for _ in range(p.get("rand", 600)):
        if bad: break
        cfg = (rnd.random() < 0.5, rnd.random() < 0.5)
        parts = []
        for _ in range(rnd.randrange(1, 6)):
            c = rnd.random()
            if c < 0.5: fr = mk_frame(rnd); parts.append(b"\x7e" + (stuff(fr) if cfg[0] else fr) + b"\x7e")
            else: parts.append(bytes(rnd.choice(ALPHA) for _ in range(rnd.randrange(1, 8))))
        s = b"".join(parts); whole = run_chunks(cfg, [s]); ev += 1; distinct += 1
        cuts = sorted(rnd.sample(range(len(s) + 1), min(len(s) + 1, rnd.randrange(1, 6))))
        if run_chunks(cfg, [s[a:b] for a, b in zip([0] + cuts, cuts + [len(s)])]) != whole: bad.append({"cfg": list(cfg), "stream": s.hex(), "cuts": cuts})
    return {"name": "chunk independence (differential, real reader)", "bound": f"all streams = 3 prefixes x up to {L-3} octets over a 5-letter alphabet (exhaustive to 4, sampled above) x every single cut and byte-at-a-time x 4 configurations; {p.get('rand', 600)} random frame/noise streams with random multi-cuts",
            "evaluations": ev, "distinct_nontrivial": distinct, "violations": bad[:2]}
