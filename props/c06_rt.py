import itertools, random
from han import hdlc
from props.hdlc_rt import replay_read_next, replay_read, ALPHA
from props.c16_rt import mk_frame, stuff
def run_chunks(cfg, chunks):
    r = hdlc.HdlcFrameReader(*cfg); out = []
    for ch in chunks:
        for f in r.read(ch): out.append((f.as_bytes, f.is_valid, f.payload))
    return out
def chunk_independence(p):
    rnd = random.Random(p.get("seed", 0)); L = p.get("maxlen", 7); bad = []; ev = 0; distinct = 0
    # a complete small frame so that the header check sequence is available
    alpha = [0x7E, 0x7D, 0xA0, 0x07, 0x03, 0x5E]
    hdr = bytes([0xA0, 0x07, 0x03, 0x03, 0x13]); from props import spec_py as sp; f = sp.fcs16(hdr); good = hdr + bytes([f & 0xFF, f >> 8])
    prefixes = [b"", b"\x7e" + good[:5], b"\x7e" + good]
    for cfg in ((False, False), (False, True), (True, False), (True, True)):
        for pre in prefixes:
            for n in range(0, L - 2):
                for tail in itertools.product(alpha[:4] + [good[5]], repeat=n) if n <= 4 else [tuple(rnd.choice(alpha) for _ in range(n)) for _ in range(300)]:
                    s = pre + bytes(tail); whole = run_chunks(cfg, [s]); distinct += 1
                    for cut in range(1, len(s)):
                        ev += 1
                        if run_chunks(cfg, [s[:cut], s[cut:]]) != whole: bad.append({"cfg": list(cfg), "stream": s.hex(), "cut": cut}); break
                    ev += 1
                    if not bad and run_chunks(cfg, [s[i:i + 1] for i in range(len(s))]) != whole: bad.append({"cfg": list(cfg), "stream": s.hex(), "cut": "byte-at-a-time"})
                    if bad: break
                if bad: break
            if bad: break
        if bad: break
    for _ in range(p.get("rand", 600)):
        if bad: break
        cfg = (rnd.random() < 0.5, rnd.random() < 0.5)
        parts = []
        for _ in range(rnd.randrange(1, 6)):
            c = rnd.random()
            if c < 0.5: fr = mk_frame(rnd); parts.append(b"\x7e" + (stuff(fr) if cfg[0] else fr) + b"\x7e")
            else: parts.append(bytes(rnd.choice(ALPHA) for _ in range(rnd.randrange(1, 8))))
        s = b"".join(parts); whole = run_chunks(cfg, [s]); ev += 1; distinct += 1
        cuts = sorted(rnd.sample(range(len(s) + 1), min(len(s) + 1, rnd.randrange(1, 6))))
        if run_chunks(cfg, [s[a:b] for a, b in zip([0] + cuts, cuts + [len(s)])]) != whole: bad.append({"cfg": list(cfg), "stream": s.hex(), "cuts": cuts})
    return {"name": "chunk independence (differential, real reader)", "bound": f"all streams = 3 prefixes x up to {L-3} octets over a 5-letter alphabet (exhaustive to 4, sampled above) x every single cut and byte-at-a-time x 4 configurations; {p.get('rand', 600)} random frame/noise streams with random multi-cuts",
            "evaluations": ev, "distinct_nontrivial": distinct, "violations": bad[:2]}

def ideal_receiver(stream, cfg):
    """the ideal receiver of props/ideal_hdlc.py evaluated on a concrete stream: state before each position and the completions.
    -> (states, completions) where states[p] = None (hunting) or (octets, pending escape, raw length) and completions = [(position of the flag, octets)]"""
    from props import spec_py as sp
    stuffing, abort = cfg; st = None; states = []; comps = []
    for p, c in enumerate(stream):
        states.append(st)
        if st is None:
            st = (b"", False, 0) if c == 0x7E else None; continue
        octs, esc, rn = st; n = len(octs)
        if c == 0x7E:
            cp = sp.ctrl_pos(octs); hcs = cp is not None and n > cp + 2; aborted = abort and rn > 1 and stream[p - 1] == 0x7D
            if n == 0: st = (b"", False, 0)
            elif not hcs or aborted: st = None
            elif stuffing or (n >= 2 and sp.len_field(octs) == n): comps.append((p, octs)); st = (b"", False, 0)
            else: st = None if n + 1 > 2047 else (octs + b"\x7e", False, rn + 1)
        elif stuffing:
            grows = not (not esc and c == 0x7D); octs2 = octs + bytes([c ^ 0x20 if esc else c]) if grows else octs
            st = None if len(octs2) > 2047 else (octs2, not grows, rn + 1)
        else:
            st = None if n + 1 > 2047 else (octs + bytes([c]), False, rn + 1)
    states.append(st)
    return states, comps

def ideal_receiver_check(p):
    """the contract of read() against the ideal receiver, evaluated on the real reader: after every call the reader's state is the ideal receiver's state at the
    stream position and the frames returned so far are its completions (bounded: generated streams incl. noise, truncated, corrupted and over-long frames)"""
    rnd = random.Random(p.get("seed", 0)); n = p.get("n", 400); ev = 0; distinct = set(); bad = []
    good = [mk_frame(rnd, False, k) for k in (0, 1, 3, 12)]
    for it in range(n):
        cfg = (bool(it & 1), bool(it & 2)); parts = []
        for _ in range(rnd.randrange(1, 9)):
            c = rnd.random()
            if c < 0.35: fr = rnd.choice(good); parts.append(b"\x7e" + (stuff(fr) if cfg[0] else fr) + b"\x7e")
            elif c < 0.5: fr = bytearray(rnd.choice(good)); fr[rnd.randrange(len(fr))] ^= 1 << rnd.randrange(8); parts.append(b"\x7e" + bytes(fr))
            elif c < 0.6: fr = rnd.choice(good); parts.append(b"\x7e" + fr[:rnd.randrange(len(fr))] + b"\x7e")
            elif c < 0.63: parts.append(b"\x7e\xa0\x0a\x03\x03\x13" + bytes(rnd.choice([0x55, 0x7D, 0x5E]) for _ in range(2100)))
            else: parts.append(bytes(rnd.choice(ALPHA) for _ in range(rnd.randrange(1, 6))))
        s = b"".join(parts); states, comps = ideal_receiver(s, cfg)
        cuts = sorted(rnd.sample(range(len(s) + 1), min(len(s) + 1, rnd.randrange(0, 7)))) if it % 4 else list(range(1, min(len(s), 400)))
        r = hdlc.HdlcFrameReader(*cfg); got = []; why = None
        for a, b in zip([0] + cuts, cuts + [len(s)]):
            got += r.read(s[a:b]); ev += 1; ideal = states[b]; done = [o for (q, o) in comps if q < b]
            if (r._frame is None) != (ideal is None): why = f"position {b}: hunting={r._frame is None}, ideal receiver hunting={ideal is None}"
            elif ideal is not None and (r._frame.as_bytes != ideal[0] or bool(r._unescape_next) != ideal[1] or len(r._raw_frame_data) != ideal[2]):
                why = f"position {b}: frame {r._frame.as_bytes.hex()[:40]} esc={r._unescape_next} raw={len(r._raw_frame_data)}, ideal {ideal[0].hex()[:40]} esc={ideal[1]} raw={ideal[2]}"
            elif [f.as_bytes for f in got] != done: why = f"position {b}: {len(got)} frames returned, the ideal receiver completed {len(done)}"
            if why: break
        distinct.add((cfg, len(s), len(cuts)))
        if why: bad.append({"cfg": list(cfg), "why": why, "cuts": cuts[:20], "stream": s.hex() if len(s) < 160 else s.hex()[:160] + "..."}); break
    return {"name": "ideal_receiver_check (contract of read() against the ideal receiver, on the real reader)", "bound": f"{n} generated streams (good, corrupted, truncated, over-long frames and noise) x random chunkings (every fourth byte-at-a-time), 4 configurations",
            "evaluations": ev, "distinct_nontrivial": len(distinct), "violations": bad[:2]}

def replay_ideal(p):
    r = ideal_receiver_check({"seed": 9, "n": 600})
    if r["violations"]: return {"violated": True, "detail": r["violations"][0], "found_by": "bounded search over generated streams"}
    r2 = chunk_independence({"seed": 4, "maxlen": 6, "rand": 300})
    if r2.get("violations"): return {"violated": True, "detail": r2["violations"][0], "found_by": "bounded differential"}
    return {"violated": False, "inconclusive": True, "detail": "no generated stream breaks the contract on the real reader"}
