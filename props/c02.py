"""C02 — HDLC: every well-formed frame on a clean stream is delivered once, in order."""
from props import hdlc_model as M, clean_hdlc as CL
from pyvc import run

def build(repo, tier, seed):
    tasks = M.hdlc_tasks(repo, ("lemmas", "get_address", "init", "append", "valid", "accessors"), True) + [(f"segment lemma {cfg}", M.group_segment_lemma, (repo, cfg)) for cfg in M.CONFIGS if cfg[0]] + \
            [(f"clean stream {cfg}", CL.group_clean_stream, (repo, cfg)) for cfg in M.CONFIGS]
    r = M.groups_result(tasks, select=None)
    r.functions = sorted(set(M.READER_FUNCS) | {o.func for o in r.obligations if o.func})
    r.level = "proof"
    r.explanation = ("C02: (1) proved from the real source: the exact transition of the reader on every input octet (clauses T1-T13: flag on empty frame restarts, flag before the header check sequence discards, abort sequence "
                     "discards only when the raw octet before the flag is the escape octet, with stuffing any other flag completes the frame, without stuffing only a flag at the announced length, other flags and octets are "
                     "frame data, over-long frames are discarded; T11-T13 state the same on the frame array and the pending-escape flag), the frame contracts of C01 (validity, exact payload and header fields for any address "
                     "length). (2) The clean-stream lemma is a second contract of the real read(), proved through _read_next's contract for all four configurations (props/clean_hdlc.py): on a stream that from its first flag on "
                     "consists of flags and well-formed frames (stuffed on the wire / unstuffed with flag-free headers), with STATE(g) = 'the reader holds exactly what an ideal un-stuffer holds at stream position g', "
                     "read(chunk) takes STATE(g) to STATE(g+len(chunk)) and returns exactly one frame per closing flag in the chunk, in order, each the frame that was sent (octets, length) and valid; a new reader "
                     "skips flag-free noise and reaches STATE at the first flag. Pre- and postcondition are the same predicate of the position, so the calls compose for every splitting of the stream (sequential "
                     "composition of the contract; this last step is the usual rule, not a separate obligation). Unbounded in the number and length of frames (<= 2047 octets each) and chunks.")
    r.assumptions = ["clean stream = the hypotheses CLEAN(p) of props/clean_hdlc.py at every position p after the first flag (recurrences defining the ideal un-stuffer; at closing flags: complete header, valid_frame, <= 2047 octets, "
                     "nothing pending, with abort detection no escape octet before the flag; without stuffing: no flag inside the header, a flag ends the frame exactly at the announced length). The bounded run `ideal_check` "
                     "confirms on every generated clean stream that these hypotheses hold for it and that the real reader meets the contract (cover canaries show every kind of step is reachable under them).",
                     "which array represents the octets of an empty frame is a free choice of representation (only the first len entries of a frame array mean anything): the lemma picks the array of the frame about to arrive "
                     "(ghost function new_frame_array, uninterpreted in every other proof)",
                     "the composition over calls (same predicate before and after each call) is the sequential-composition rule, applied by hand"]
    r.not_decided = []
    b = run.rt_call("C02", "clean_stream", {"seed": seed, "n": 500 if tier == "quick" else 12000})
    r.bounded.append(b if "name" in b else {"name": "clean_stream", "error": b.get("error", b)})
    b = run.rt_call("C02", "ideal_check", {"seed": seed, "n": 300 if tier == "quick" else 6000})
    r.bounded.append(b if "name" in b else {"name": "ideal_check", "error": b.get("error", b)})
    return r
