"""C02 — HDLC: every well-formed frame on a clean stream is delivered once, in order."""
from props import hdlc_model as M
from pyvc import run

KEEP = ("T1 ", "T2 ", "T3 ", "T4 ", "T5 ", "T6 ", "T7 ", "T8 ", "T9 ", "T10 ", "frame_inv", "unstuff(raw)", "octets == raw", "no pending escape", "2047", "consumes at least", "every octet of the chunk", "returned", "pre:", "inv-entry", "inv-keep")
def build(repo, tier, seed):
    tasks = M.hdlc_tasks(repo, ("lemmas", "get_address", "init", "append", "valid", "accessors"), True) + [(f"segment lemma {cfg}", M.group_segment_lemma, (repo, cfg)) for cfg in M.CONFIGS if cfg[0]]
    r = M.groups_result(tasks, select=None)
    r.functions = sorted(set(M.READER_FUNCS) | {o.func for o in r.obligations if o.func})
    r.level = "other"
    r.explanation = ("C02: proved from the real source: the exact transition of the reader on every input octet (clauses T1-T10: flag on empty frame restarts, flag before the header check sequence discards, abort sequence "
                     "discards only when the raw octet before the flag is the escape octet, with stuffing any other flag completes the frame, without stuffing only a flag at the announced length, other flags and octets are "
                     "frame data, over-long frames are discarded), the frame contracts of C01 (validity, exact payload and header fields for any address length), frames up to 2047 octets are never discarded as over-long. "
                     "The clean-stream lemma (every well-formed frame delivered exactly once, in order, for every chunking) is an induction over the wire using these clauses; it is run as a BOUNDED stand-in on the real reader "
                     "(generated frame sequences incl. 1..4-octet addresses, flag/escape payloads, header-only and 2047-octet frames, fill, leading noise, chunkings, four configurations). Hence level 'other'.")
    r.not_decided = ["lemma clean_stream is bounded, not proved"]
    b = run.rt_call("C02", "clean_stream", {"seed": seed, "n": 500 if tier == "quick" else 12000})
    r.bounded.append(b if "name" in b else {"name": "clean_stream", "error": b.get("error", b)})
    return r
