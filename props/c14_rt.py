from props.hdlc_rt import replay_read_next, replay_read
from props.c01_rt import replay_frame, replay_frame_append, replay_get_address
from props.dlde_rt import replay_readout, replay_p1_read, replay_ident
try:
    from props.proto_rt import *
except ImportError:
    pass
