from props.hdlc_rt import replay_read_next, replay_read
from props.c01_rt import replay_frame, replay_frame_append, replay_get_address
from props.dlde_rt import replay_readout, replay_p1_read, replay_ident
try:
    from props.proto_rt import *
except ImportError:
    pass

def bounded_search(p):
    """used only when the deductive side is undecided: line noise through both readers, their messages and both protocol classes - nothing may raise"""
    import random, asyncio, logging
    logging.disable(logging.CRITICAL)
    from han import hdlc, dlde, meter_connection as mc
    rnd = random.Random(p.get("seed", 0)); ev = 0; bad = []
    alpha = [0x2F, 0x21, 0x0A, 0x0D, 0x7E, 0x7D, 0x80, 0xFF, 0x30, 0x41, 0x47, 0x00, 0x5E, 0x28, 0x29]
    frames = [bytes.fromhex("a00801020110378c"), bytes.fromhex("a0070321133d94")]
    for it in range(p.get("n", 600)):
        parts = []
        for _ in range(rnd.randrange(1, 9)):
            c = rnd.random()
            if c < 0.5: parts.append(bytes(rnd.choice(alpha) for _ in range(rnd.randrange(1, 7))))
            elif c < 0.7: parts.append(b"\x7e" + rnd.choice(frames) + rnd.choice([b"\x7e", b"\x7d\x7e", b""]))
            elif c < 0.85: parts.append(b"/ABC5\r\n" + bytes(rnd.choice(alpha) for _ in range(rnd.randrange(0, 9))) + rnd.choice([b"\r\n!\r\n", b"\n!zz\n", b"!\xff\n", b""]))
            else: parts.append(bytes(rnd.randrange(256) for _ in range(rnd.randrange(1, 12))))
        s = b"".join(parts); cuts = sorted(rnd.sample(range(len(s) + 1), min(len(s) + 1, rnd.randrange(0, 6)))); chunks = [s[a:b] for a, b in zip([0] + cuts, cuts + [len(s)])]
        for mk in (lambda: hdlc.HdlcFrameReader(bool(it & 1), bool(it & 2)), lambda: dlde.ModeDReader()):
            r = mk(); ev += 1
            try:
                for ch in chunks:
                    for m in r.read(ch): (m.is_valid, m.payload, m.as_bytes, m.message_type)
            except Exception as ex:
                bad.append({"reader": type(r).__name__, "config": [bool(it & 1), bool(it & 2)], "chunks": [c.hex() for c in chunks][:8], "raised": repr(ex)}); break
        if bad: break
        loop = asyncio.new_event_loop(); asyncio.set_event_loop(loop)
        try:
            for cls in (mc.SmartMeterMessageProtocol, mc.SmartMeterMessagePayloadProtocol):
                proto = cls(asyncio.Queue(), [hdlc.HdlcFrameReader(False, True), dlde.ModeDReader()]); ev += 1
                try:
                    for ch in chunks: proto.data_received(ch)
                except Exception as ex:
                    bad.append({"protocol": cls.__name__, "chunks": [c.hex() for c in chunks][:8], "raised": repr(ex)}); break
        finally:
            loop.close()
        if bad: break
    return {"name": "bounded search: line noise through the readers, their messages and the protocol classes", "bound": f"{p.get('n', 600)} generated noise streams x chunkings x 4 HDLC configurations / P1 / both protocol classes", "evaluations": ev, "distinct_nontrivial": ev, "violations": bad[:1]}
