from props.dlde_rt import *
