import random
from han import hdlc
from props import spec_py as sp
from props.hdlc_rt import replay_read_next, replay_read
from props.c01_rt import replay_frame, replay_frame_append, replay_get_address, check_frame
from props.c16_rt import stuff

def gen_frame(rnd, cfg, big=False):
    stuffing, abort = cfg
    for _ in range(200):
        dst = bytes([rnd.randrange(128) * 2 for _ in range(rnd.randrange(0, 4))] + [rnd.randrange(128) * 2 + 1]); src = bytes([rnd.randrange(128) * 2 for _ in range(rnd.randrange(0, 3))] + [rnd.randrange(128) * 2 + 1])
        ctrl = rnd.randrange(256); seg = rnd.choice([0, 8]); ftype = rnd.choice([0xA, 0x3, 0xF])
        hl = 2 + len(dst) + len(src) + 1 + 2
        n_info = rnd.choice([0, 0, 1, 2, 5, 40, 300]) if not big else 2047 - hl - 2
        info = bytes(rnd.choice([0x7E, 0x7D, 0x5E, 0x5D, 0x00, 0xFF, rnd.randrange(256)]) for _ in range(n_info))
        if not stuffing and abort: info = info.replace(b"\x7d\x7e", b"\x7d\x00")     # domain of C02: no escape octet directly before a flag octet
        ln = hl + (len(info) + 2 if info else 0)
        hdr = bytes([(ftype << 4) | seg | (ln >> 8), ln & 0xFF]) + dst + src + bytes([ctrl])
        h = sp.fcs16(hdr); fr = hdr + bytes([h & 0xFF, h >> 8])
        if info:
            fr += info; f = sp.fcs16(fr); fr += bytes([f & 0xFF, f >> 8])
        if not stuffing:
            hdr_octets = fr[:hl]
            if 0x7E in hdr_octets: continue
            if abort and (fr[-1] == 0x7D or b"\x7d\x7e" in fr): continue
        return fr, dict(dst=dst, src=src, ctrl=ctrl, info=info)
    raise RuntimeError("could not generate a frame in the domain")

def clean_stream(p):
    rnd = random.Random(p.get("seed", 0)); n = p.get("n", 500); bad = []; ev = 0; distinct = set()
    for it in range(n):
        cfg = (bool(it & 1), bool(it & 2))
        frames = [gen_frame(rnd, cfg, big=(it % 97 == 0 and k == 0)) for k in range(rnd.randrange(1, 6))]
        noise = bytes(rnd.choice([0x00, 0x7D, 0xA0, 0x55]) for _ in range(rnd.randrange(0, 6))) if rnd.random() < 0.4 else b""
        if cfg[0] and noise.endswith(b"\x7d"): noise += b"\x00"
        wire = noise + b"\x7e" * rnd.randrange(1, 4)
        for fr, _ in frames: wire += (stuff(fr) if cfg[0] else fr) + b"\x7e" * rnd.randrange(1, 4)
        mode = rnd.choice(["one", "bytes", "rand", "fixed"])
        if mode == "one": chunks = [wire]
        elif mode == "bytes": chunks = [wire[i:i + 1] for i in range(len(wire))]
        elif mode == "fixed":
            k = rnd.choice([2, 3, 7, 64]); chunks = [wire[i:i + k] for i in range(0, len(wire), k)]
        else:
            cuts = sorted(rnd.sample(range(len(wire) + 1), min(len(wire) + 1, rnd.randrange(1, 8)))); chunks = [wire[a:b] for a, b in zip([0] + cuts, cuts + [len(wire)])]
        r = hdlc.HdlcFrameReader(*cfg); got = []
        for ch in chunks: got += r.read(ch)
        ev += 1; distinct.add((cfg, len(frames), mode, len(wire)))
        ok = len(got) == len(frames)
        why = None if ok else f"{len(got)} frames returned for {len(frames)} sent"
        if ok:
            for g, (fr, meta) in zip(got, frames):
                if g.as_bytes != fr or not g.is_valid: why = f"frame {fr.hex()[:40]}.. returned as {g.as_bytes.hex()[:40]}.. valid={g.is_valid}"; break
                if g.payload != (meta["info"] if meta["info"] else None) or g.header.destination_address != meta["dst"] or g.header.source_address != meta["src"] or g.header.control != meta["ctrl"]:
                    why = f"fields of frame {fr.hex()[:40]}.. wrong: payload {g.payload!r} dst {g.header.destination_address!r} src {g.header.source_address!r}"; break
                if check_frame(g, fr): why = "accessor contracts broken: " + "; ".join(check_frame(g, fr)[:2]); break
        if why:
            bad.append({"cfg": list(cfg), "why": why, "chunking": mode, "wire": wire.hex() if len(wire) < 200 else wire.hex()[:200] + "..."}); break
    return {"name": "clean_stream (C02 lemma as bounded stand-in)", "bound": f"{n} generated clean streams: 1..5 well-formed frames (addresses 1..4/1..3 octets, payloads with flag/escape octets, header-only, every 97th a 2047-octet frame), 1..3 flags fill, optional flag-free noise, 4 chunking modes, 4 configurations",
            "evaluations": ev, "distinct_nontrivial": len(distinct), "violations": bad[:2]}

def ideal_functions(wire, cfg, frames):
    """the ghost functions of props/clean_hdlc.py computed by their recurrences on a concrete stream; also checks the hypotheses (well-formedness at
    closing flags, domain restrictions) on it.  -> (F0, QN, QE, WAi (index of the frame containing/following p), NCF, hypothesis violations)"""
    stuffing, abort = cfg; n = len(wire); F0 = wire.index(0x7E)
    QN = [0] * (n + 2); QE = [False] * (n + 2); WAi = [0] * (n + 2); NCF = [0] * (n + 2); bad = []
    fi = 0
    for p in range(F0 + 1, n):
        c = wire[p]; fr = frames[fi] if fi < len(frames) else b""
        if stuffing: cf = c == 0x7E and wire[p - 1] != 0x7E
        else: cf = c == 0x7E and QN[p] >= 2 and (((fr[0] << 8) | fr[1]) & 0x7FF if len(fr) >= 2 else -1) == QN[p]
        if stuffing:
            if c == 0x7E: QN[p + 1], QE[p + 1] = 0, False
            elif QE[p]: QN[p + 1], QE[p + 1] = QN[p] + 1, False
            elif c == 0x7D: QN[p + 1], QE[p + 1] = QN[p], True
            else: QN[p + 1], QE[p + 1] = QN[p] + 1, False
            if c != 0x7E and (QE[p] or c != 0x7D):
                if QN[p] >= len(fr) or fr[QN[p]] != (c ^ 0x20 if QE[p] else c): bad.append(f"content hypothesis fails at {p}")
        else:
            delim = c == 0x7E and (QN[p] == 0 or cf)
            QN[p + 1] = 0 if delim else QN[p] + 1
            if not delim and (QN[p] >= len(fr) or fr[QN[p]] != c): bad.append(f"content hypothesis fails at {p}")
            if c == 0x7E and QN[p] > 0 and not cf:
                cp = sp.ctrl_pos(fr[:QN[p]])
                if cp is None or not QN[p] > cp + 2: bad.append(f"flag inside the header at {p} (outside the domain)")
                if abort and wire[p - 1] == 0x7D: bad.append(f"escape octet before a data flag at {p} (outside the domain)")
        if cf:
            cp = sp.ctrl_pos(fr)
            if QE[p] or QN[p] != len(fr) or not sp.valid_frame(fr) or cp is None or not len(fr) > cp + 2 or len(fr) > 2047 or (abort and wire[p - 1] == 0x7D): bad.append(f"well-formedness hypothesis fails at closing flag {p}")
        if QN[p + 1] > 2047: bad.append(f"length bound fails at {p}")
        NCF[p + 1] = NCF[p] + (1 if cf else 0)
        fi2 = fi + (1 if cf else 0); WAi[p] = fi; WAi[p + 1] = fi2; fi = fi2
    return F0, QN, QE, WAi, NCF, bad

def ideal_check(p):
    """the clean-stream contract of read() (props/clean_hdlc.py) evaluated on the real reader: after every call the reader's state is the ideal un-stuffer's
    state at the stream position (STATE), and the frames returned so far are one per closing flag passed (bounded: generated streams)"""
    rnd = random.Random(p.get("seed", 0)); n = p.get("n", 300); ev = 0; distinct = set(); bad = []
    for it in range(n):
        cfg = (bool(it & 1), bool(it & 2))
        frames = [gen_frame(rnd, cfg, big=(it % 89 == 0 and k == 0))[0] for k in range(rnd.randrange(1, 6))]
        noise = bytes(rnd.choice([0x00, 0x7D, 0xA0, 0x55]) for _ in range(rnd.randrange(0, 6))) if rnd.random() < 0.4 else b""
        wire = noise + b"\x7e" * rnd.randrange(1, 4)
        for fr in frames: wire += (stuff(fr) if cfg[0] else fr) + b"\x7e" * rnd.randrange(1, 4)
        F0, QN, QE, WAi, NCF, hyp = ideal_functions(wire, cfg, frames)
        if hyp: bad.append({"cfg": list(cfg), "why": "the generated clean stream does not satisfy the hypotheses of the lemma: " + hyp[0], "wire": wire.hex()[:200]}); break
        cuts = sorted(rnd.sample(range(len(wire) + 1), min(len(wire) + 1, rnd.randrange(0, 9)))) if it % 3 else list(range(1, len(wire)))
        r = hdlc.HdlcFrameReader(*cfg); g = 0; got = []; why = None
        for a, b in zip([0] + cuts, cuts + [len(wire)]):
            got += r.read(wire[a:b]); g = b; ev += 1
            if g <= F0:
                if r._frame is not None or got: why = f"before the first flag (position {g}): not hunting or frames returned"
            else:
                fr = frames[WAi[g]] if WAi[g] < len(frames) else b""
                if r._frame is None: why = f"position {g}: reader is hunting inside a clean stream"
                elif r._frame.as_bytes != fr[:QN[g]] or len(r._frame) != QN[g] or bool(r._unescape_next) != QE[g]: why = f"position {g}: state {r._frame.as_bytes.hex()} esc={r._unescape_next}, ideal {fr[:QN[g]].hex()} esc={QE[g]}"
                elif len(got) != NCF[g]: why = f"position {g}: {len(got)} frames returned, {NCF[g]} closing flags passed"
            if why: break
        if not why and ([f.as_bytes for f in got] != frames or not all(f.is_valid for f in got)): why = "frames returned differ from the frames sent"
        distinct.add((cfg, len(frames), len(wire), len(cuts)))
        if why:
            bad.append({"cfg": list(cfg), "why": why, "cuts": cuts[:20], "wire": wire.hex() if len(wire) < 200 else wire.hex()[:200] + "..."}); break
    return {"name": "ideal_check (contract of read() on clean streams, evaluated on the real reader)", "bound": f"{n} generated clean streams x random chunkings (every third byte-at-a-time), 4 configurations; hypotheses of the lemma checked on every stream",
            "evaluations": ev, "distinct_nontrivial": len(distinct), "violations": bad[:2]}

def replay_clean_stream(p):
    r = ideal_check({"seed": 5, "n": 400})
    if r["violations"]: return {"violated": True, "detail": r["violations"][0], "found_by": "bounded search over generated clean streams"}
    r2 = clean_stream({"seed": 6, "n": 300})
    if r2["violations"]: return {"violated": True, "detail": r2["violations"][0], "found_by": "bounded search over generated clean streams"}
    return {"violated": False, "inconclusive": True, "detail": "no generated clean stream breaks the contract on the real reader"}
