import random
from han import hdlc
from props import spec_py as sp
from props.hdlc_rt import replay_read_next, replay_read
from props.c01_rt import replay_frame, replay_frame_append, replay_get_address, check_frame
from props.c16_rt import stuff

def gen_frame(rnd, cfg, big=False):
    stuffing, abort = cfg
    for _ in range(200):
        dst = bytes([rnd.randrange(128) * 2 for _ in range(rnd.randrange(0, 4))] + [rnd.randrange(128) * 2 + 1]); src = bytes([rnd.randrange(128) * 2 for _ in range(rnd.randrange(0, 3))] + [rnd.randrange(128) * 2 + 1])
        ctrl = rnd.randrange(256); seg = rnd.choice([0, 8]); ftype = rnd.choice([0xA, 0x3, 0xF])
        hl = 2 + len(dst) + len(src) + 1 + 2
        n_info = rnd.choice([0, 0, 1, 2, 5, 40, 300]) if not big else 2047 - hl - 2
        info = bytes(rnd.choice([0x7E, 0x7D, 0x5E, 0x5D, 0x00, 0xFF, rnd.randrange(256)]) for _ in range(n_info))
        if not stuffing and abort: info = info.replace(b"\x7d\x7e", b"\x7d\x00")     # domain of C02: no escape octet directly before a flag octet
        ln = hl + (len(info) + 2 if info else 0)
        hdr = bytes([(ftype << 4) | seg | (ln >> 8), ln & 0xFF]) + dst + src + bytes([ctrl])
        h = sp.fcs16(hdr); fr = hdr + bytes([h & 0xFF, h >> 8])
        if info:
            fr += info; f = sp.fcs16(fr); fr += bytes([f & 0xFF, f >> 8])
        if not stuffing:
            hdr_octets = fr[:hl]
            if 0x7E in hdr_octets: continue
            if abort and (fr[-1] == 0x7D or b"\x7d\x7e" in fr): continue
        return fr, dict(dst=dst, src=src, ctrl=ctrl, info=info)
    raise RuntimeError("could not generate a frame in the domain")

def clean_stream(p):
    rnd = random.Random(p.get("seed", 0)); n = p.get("n", 500); bad = []; ev = 0; distinct = set()
    for it in range(n):
        cfg = (bool(it & 1), bool(it & 2))
        frames = [gen_frame(rnd, cfg, big=(it % 97 == 0 and k == 0)) for k in range(rnd.randrange(1, 6))]
        noise = bytes(rnd.choice([0x00, 0x7D, 0xA0, 0x55]) for _ in range(rnd.randrange(0, 6))) if rnd.random() < 0.4 else b""
        if cfg[0] and noise.endswith(b"\x7d"): noise += b"\x00"
        wire = noise + b"\x7e" * rnd.randrange(1, 4)
        for fr, _ in frames: wire += (stuff(fr) if cfg[0] else fr) + b"\x7e" * rnd.randrange(1, 4)
        mode = rnd.choice(["one", "bytes", "rand", "fixed"])
        if mode == "one": chunks = [wire]
        elif mode == "bytes": chunks = [wire[i:i + 1] for i in range(len(wire))]
        elif mode == "fixed":
            k = rnd.choice([2, 3, 7, 64]); chunks = [wire[i:i + k] for i in range(0, len(wire), k)]
        else:
            cuts = sorted(rnd.sample(range(len(wire) + 1), min(len(wire) + 1, rnd.randrange(1, 8)))); chunks = [wire[a:b] for a, b in zip([0] + cuts, cuts + [len(wire)])]
        r = hdlc.HdlcFrameReader(*cfg); got = []
        for ch in chunks: got += r.read(ch)
        ev += 1; distinct.add((cfg, len(frames), mode, len(wire)))
        ok = len(got) == len(frames)
        why = None if ok else f"{len(got)} frames returned for {len(frames)} sent"
        if ok:
            for g, (fr, meta) in zip(got, frames):
                if g.as_bytes != fr or not g.is_valid: why = f"frame {fr.hex()[:40]}.. returned as {g.as_bytes.hex()[:40]}.. valid={g.is_valid}"; break
                if g.payload != (meta["info"] if meta["info"] else None) or g.header.destination_address != meta["dst"] or g.header.source_address != meta["src"] or g.header.control != meta["ctrl"]:
                    why = f"fields of frame {fr.hex()[:40]}.. wrong: payload {g.payload!r} dst {g.header.destination_address!r} src {g.header.source_address!r}"; break
                if check_frame(g, fr): why = "accessor contracts broken: " + "; ".join(check_frame(g, fr)[:2]); break
        if why:
            bad.append({"cfg": list(cfg), "why": why, "chunking": mode, "wire": wire.hex() if len(wire) < 200 else wire.hex()[:200] + "..."}); break
    return {"name": "clean_stream (C02 lemma as bounded stand-in)", "bound": f"{n} generated clean streams: 1..5 well-formed frames (addresses 1..4/1..3 octets, payloads with flag/escape octets, header-only, every 97th a 2047-octet frame), 1..3 flags fill, optional flag-free noise, 4 chunking modes, 4 configurations",
            "evaluations": ev, "distinct_nontrivial": len(distinct), "violations": bad[:2]}
