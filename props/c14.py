"""C14 — Readers and messages never raise on line noise (HDLC and P1 readers, their messages; data_received see C13)."""
from props import hdlc_model as M, dlde_model as DM, proto_model as PM

def build(repo, tier, seed):
    tasks = M.hdlc_tasks(repo, ("init", "append", "valid", "accessors"), True) + [("readout", DM.group_readout, (repo,)), ("p1reader", DM.group_p1reader, (repo,)), ("protocol", PM.group_protocol, (repo,))]
    def select(oid):
        if "ghost:" in oid and "HdlcFrameReader" in oid: return False
        if "DataReadout" in oid: return any(n in oid for n in ("is_valid", "payload", "as_bytes", "message_type", "__init__", "_calculate_crc16"))
        return True
    r = M.groups_result(tasks, select=select)
    r.functions = sorted(set(M.READER_FUNCS) | set(DM.P1_FUNCS) | {o.func for o in r.obligations if o.func})
    r.assumptions = ["every implicit failure point of the subset (indexing, None dereference, int(.,16), decode('ascii'), byte range of bytearray.append, assert) is either a safety obligation or a forked exceptional edge that must be infeasible",
                     "logging calls do not raise; MemoryError / RecursionError out of scope", "readers used by data_received satisfy their own contracts (proved here for HdlcFrameReader and ModeDReader)"]
    r.explanation = ("C14: exceptional postcondition 'nothing escapes' on HdlcFrameReader.read/_read_next, ModeDReader.read, HdlcFrame and DataReadout message properties, data_received; "
                     "the reader invariants are re-established by every call (the reader remains usable), for every state satisfying the invariant and every bytes argument")
    return r

def fallback(repo, tier, seed):
    from pyvc import run
    b = run.rt_call("C14", "bounded_search", {"seed": seed, "n": 600 if tier == "quick" else 6000})
    return [b if "name" in b else {"name": "bounded_search", "error": b.get("error", b)}]
