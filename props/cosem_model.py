"""Deductive driver for the COSEM decoders (C07 Aidon, C08 Kaifa, C09 Kamstrup, C10 date-time; typing obligations of C15).

For a documented list layout the input is a fixed-layout octet list whose register values, scalers, characters and date-time fields
are symbolic (full range).  The REAL decode_frame_content / decode_notification_body of /repo are executed symbolically: `X.parse(bytes)`
goes through the grammar layer (pyvc.grammar) on the dumped construct graph of X, lambdas and normalisers run through the Python layer.
Obligations: no exception, exactly the expected keys, every value equal to the specification value of props/cosem_spec.py."""
import ast, re as _re, z3
from pyvc.engine import *
from pyvc import grammar as G
from props import cosem_spec as SP

MODS = ("han.cosem", "han.aidon", "han.kaifa", "han.kamstrup")
GRAMMARS = ["han.cosem.CommonDataTypes"] + [f"{m}.{n}" for m in ("han.aidon", "han.kaifa", "han.kamstrup") for n in ("LlcPdu", "NotificationBody")]
I = z3.IntSort()

class LayoutBytes:
    def __init__(s, octs): s.octs = list(octs)
class DT:
    """record model of datetime.datetime (assumed: the constructor's documented range checks)"""
    def __init__(self, **kw): self.__dict__.update(kw)
class SDec:
    """decimal.Decimal value m * 10**e (exact)"""
    def __init__(s, m, e): s.m = m; s.e = e

class SymV:
    """symbolic field values (deductive side)"""
    def __init__(s, printable_only=False): s.cons = []; s.fields = {}; s.printable_only = printable_only          # printable_only: C12's 'genuine message' (identification strings as meters send them)
    def raw(s, name, n):
        bs = [z3.BitVec(f"{name}_{i}", 8) for i in range(n)]; s.fields[name] = bs; return bs
    def integer(s, name, nbytes, signed):
        bs = s.raw(name, nbytes); bv = bs[0] if nbytes == 1 else z3.Concat(*bs); w = 8 * nbytes
        v = z3.If(z3.Extract(w - 1, w - 1, bv) == 1, z3.BV2Int(bv) - (1 << w), z3.BV2Int(bv)) if signed else z3.BV2Int(bv)
        return bs, v
    def text(s, name, L, ascii_all=False):
        """ascii_all: every ASCII character 0x00..0x7F (visible-string fields: Aidon, Kamstrup).  Otherwise printable 0x20..0x7E: the Kaifa octet-string texts, whose grammar strips trailing NUL
        octets and reads twelve octets that form a date-time as a date-time - behaviour outside the printable range is the subject of the bounded checks of C08 (known finding)"""
        bs = s.raw(name, L); s.cons += [z3.ULE(b, 0x7F) if (ascii_all and not s.printable_only) else z3.And(z3.UGE(b, 0x20), z3.ULE(b, 0x7E)) for b in bs]; return bs
    def not_prefix(s, chars, prefix):
        s.cons.append(z3.Not(z3.And(*[chars[i] == prefix[i] for i in range(len(prefix))])))
    def datetime(s, name):
        bs = s.raw(name, 12); u = lambda b: z3.BV2Int(b)
        year = z3.BV2Int(z3.Concat(bs[0], bs[1])); month, day, dow, hour, minute, second, hund = [u(bs[i]) for i in (2, 3, 4, 5, 6, 7, 8)]
        devbv = z3.Concat(bs[9], bs[10]); dev = z3.If(z3.Extract(15, 15, devbv) == 1, z3.BV2Int(devbv) - 65536, z3.BV2Int(devbv)); status = u(bs[11])
        dim = z3.If(z3.Or(month == 4, month == 6, month == 9, month == 11), 30, z3.If(month == 2, z3.If(z3.And(year % 4 == 0, z3.Or(year % 100 != 0, year % 400 == 0)), 29, 28), 31))
        # domain of C10: specified civil fields, hundredths 0..99 or 0xFF, deviation -720..720 or 0x8000, any status, any day of week
        s.cons += [year >= 1, year <= 9999, month >= 1, month <= 12, day >= 1, day <= dim, hour <= 23, minute <= 59, second <= 59, z3.Or(hund <= 99, hund == 255),
                   z3.Or(z3.And(dev >= -720, dev <= 720), dev == -32768)]
        return {"octets": bs, "year": year, "month": month, "day": day, "hour": hour, "minute": minute, "second": second, "hundredths": hund, "deviation": dev, "status": status}

# ----------------------------------------------------------------------------- engine with the decoder hooks
def mk_engine(repo, grammars):
    eng = Engine({"han.common": f"{repo}/han/common.py", "han.obis_map": f"{repo}/han/obis_map.py", "han.obis": f"{repo}/han/obis.py", "han.cosem": f"{repo}/han/cosem.py",
                  "han.aidon": f"{repo}/han/aidon.py", "han.kaifa": f"{repo}/han/kaifa.py", "han.kamstrup": f"{repo}/han/kamstrup.py"})
    eng.exc_parents["construct.ConstructError"] = "Exception"
    find_lambda = G.lambda_finder(eng, ["han.cosem", "han.aidon", "han.kaifa", "han.kamstrup"])
    enum_map = {v: int(k) for k, v in grammars["han.cosem.CommonDataTypes"]["decmapping"].items()}
    eng.consts["han.cosem.CommonDataTypes"] = ("cenum", enum_map)
    for gname in grammars:
        if gname != "han.cosem.CommonDataTypes": eng.consts[gname] = ("grammar", gname)
    pat = eng.consts.get("han.obis.OBIS_PATTERN_BOTH")
    eng.consts["han.obis._obis_pattern"] = ("pyattr", "han.obis._obis_pattern")
    def re_match(e, st, args, kw, ctx, node):
        if not (len(args) == 1 and isinstance(args[0], str) and isinstance(pat, str)): raise Unsupported("OBIS pattern on a symbolic string")
        m = _re.compile(pat).match(args[0])      # the real `re` on concrete arguments
        return [(st, ("rematch", m) if m else None)]
    eng.py_calls["han.obis._obis_pattern.match"] = re_match
    stats = {"parses": 0, "rules": set()}
    def do_parse(gname):
        def f(e, st, args, ctx, node):
            (inp,) = args
            if not isinstance(inp, LayoutBytes): raise Unsupported("parse() of something that is not the input")
            gp = G.GParser(e, inp.octs, find_lambda); stats["parses"] += 1
            outs = []
            for kind, st1, v, off in gp.parse(grammars[gname], st, 0, G.Container(), ctx):
                if not e.feasible(st1): continue
                if kind == G.OK: outs.append((st1, v))
                elif kind == G.FAIL: outs.append((st1, Raised("construct.ConstructError", v)))
                else: outs.append((st1, v))
            stats["rules"] |= gp.rules_used
            return outs
        return f
    def getattr_hook(st, base, attr, ctx, node):
        if isinstance(base, tuple) and len(base) == 2 and base[0] == "dctx":
            r = dctx_attr(base, attr)
            if r is None: raise Unsupported(f"decimal.Context.{attr}")
            return [(st, r)]
        if isinstance(base, tuple) and base and base[0] == "grammar" and attr == "parse": return [(st, ("abstract", do_parse(base[1])))]
        if isinstance(base, tuple) and base and base[0] == "cenum":
            if attr in base[1]: return [(st, base[1][attr])]
            return [(st, Raised("AttributeError", attr))]
        if isinstance(base, tuple) and base and base[0] == "rematch" and attr == "group":
            return [(st, ("abstract", lambda e, st_, args, ctx_, node_, m=base[1]: [(st_, m.group(*args))]))]
        if isinstance(base, G.Container):
            if attr in base: return [(st, base[attr])]
            return e_attr_error(st, ctx, attr, node)
        if isinstance(base, G.EnumVal): return e_attr_error(st, ctx, attr, node)
        if isinstance(base, G.PStr):
            if attr == "startswith":
                def sw(e, st_, args, ctx_, node_, p=base):
                    pre = args[0]
                    if not isinstance(pre, str): raise Unsupported("startswith argument")
                    if len(pre) > len(p.octs): return [(st_, False)]
                    c = z3.simplify(z3.And(*[G.byte_bv(p.octs[i]) == ord(ch) for i, ch in enumerate(pre)])) if pre else z3.BoolVal(True)
                    return [(st_, True if z3.is_true(c) else False if z3.is_false(c) else SBool(c))]
                return [(st, ("abstract", sw))]
            return e_attr_error(st, ctx, attr, node)
        if isinstance(base, (DT, SDec)) or base is None or isinstance(base, (int, SInt, SBV, SFloat)) and not isinstance(base, bool):
            return e_attr_error(st, ctx, attr, node)
        return None
    def e_attr_error(st, ctx, attr, node):
        if ctx.root.fork_implicit: return [(st, Raised("AttributeError", attr))]
        raise Unsupported(f"attribute {attr} missing line {getattr(node, 'lineno', 0)}")
    eng.getattr_hook = getattr_hook
    def b_hasattr(e, st, args, kw, ctx, node):
        o, name = args
        if isinstance(o, G.Container): return [(st, name in o)]
        if isinstance(o, (G.PStr, G.EnumVal, DT, SDec, int, SInt, SBV, SFloat, list)) or o is None: return [(st, False)]
        return None
    eng.py_calls["builtins.hasattr"] = b_hasattr
    def b_isinstance(e, st, args, kw, ctx, node):
        v, cl = args; targets = cl if (isinstance(cl, tuple) and cl and isinstance(cl[0], tuple)) else (cl,)
        if not all(isinstance(t, tuple) and t[0] == "builtin" and t[1] in ("str", "int", "float", "bytes") for t in targets): return None
        def is_a(t):
            if t == "str": return isinstance(v, (G.PStr, str, SStr))
            if t == "int": return (isinstance(v, (int, SInt, SBV)) and True) or isinstance(v, G.EnumVal)
            if t == "float": return isinstance(v, (float, SFloat))
            return False
        return [(st, any(is_a(t[1]) for t in targets))]
    eng.py_calls["builtins.isinstance"] = b_isinstance
    def b_float(e, st, args, kw, ctx, node):
        if len(args) == 1 and isinstance(args[0], SDec): return [(st, SFloat(F_OF_DEC(to_int(args[0].m), to_int(args[0].e))))]
        return None
    eng.py_calls["builtins.float"] = b_float
    def b_len(e, st, args, kw, ctx, node):
        if len(args) == 1 and isinstance(args[0], G.PStr): return [(st, len(args[0].octs))]
        if len(args) == 1 and isinstance(args[0], LayoutBytes): return [(st, len(args[0].octs))]
        return None
    eng.py_calls["builtins.len"] = b_len
    def b_int(e, st, args, kw, ctx, node):
        if len(args) == 1 and isinstance(args[0], SFloat) and not kw: raise Unsupported("int(float)")
        return None
    eng.py_calls["builtins.int"] = b_int
    # decimal.Context(prec=N): arithmetic through a context rounds its result to N significant digits - exact when the coefficient has at most N digits, otherwise *some*
    # other decimal (which one is not modelled: the specification wants the exact product, so any rounding is a counterexample candidate that the replay then checks)
    def dec_context(e, st, args, kw, ctx, node):
        prec = kw.get("prec", 28)
        if not isinstance(prec, int): raise Unsupported("decimal.Context(prec=<symbolic>)")
        return [(st, ("dctx", prec))]
    eng.py_calls["decimal.Context"] = dec_context
    for nm in ("ROUND_HALF_EVEN", "ROUND_HALF_UP", "ROUND_DOWN", "ROUND_UP", "ROUND_FLOOR", "ROUND_CEILING", "ROUND_HALF_DOWN", "ROUND_05UP"): eng.consts.setdefault("decimal." + nm, nm)
    def rounded(m, e_, prec, st=None, eng_=None):
        mi = to_int(m); fits = z3.And(mi > -(10 ** prec), mi < 10 ** prec)
        if st is not None and eng_ is not None:
            probe = st.fork(); probe.pc.append(z3.Not(fits))
            if not eng_.feasible(probe): return SDec(m, e_)          # the coefficient always fits: the operation is exact
        return SDec(SInt(z3.If(fits, mi, fresh("dec_rounded_m", z3.IntSort()))), SInt(z3.If(fits, to_int(e_), fresh("dec_rounded_e", z3.IntSort()))))
    def dctx_attr(base, attr):
        prec = base[1]
        def as_dec(v):
            if isinstance(v, SDec): return v
            if isinstance(v, (int, SInt, SBV)) and not isinstance(v, bool): return SDec(v, 0)
            raise Unsupported("decimal context operand")
        def multiply(e, st, args, ctx, node):
            a_, b_ = as_dec(args[0]), as_dec(args[1])
            m_ = b_.m if (isinstance(a_.m, int) and a_.m == 1) else a_.m if (isinstance(b_.m, int) and b_.m == 1) else SInt(to_int(a_.m) * to_int(b_.m))
            e_ = b_.e if (isinstance(a_.e, int) and a_.e == 0) else a_.e if (isinstance(b_.e, int) and b_.e == 0) else SInt(to_int(a_.e) + to_int(b_.e))
            return [(st, rounded(m_, e_, prec, st, e))]
        def power(e, st, args, ctx, node):
            a_ = as_dec(args[0])
            if not (isinstance(a_.m, int) and a_.m == 10 and isinstance(a_.e, int) and a_.e == 0): raise Unsupported("Context.power base")
            return [(st, SDec(1, args[1]))]
        def create_decimal(e, st, args, ctx, node): a_ = as_dec(args[0]); return [(st, rounded(a_.m, a_.e, prec, st, e))]
        f = {"multiply": multiply, "power": power, "create_decimal": create_decimal}.get(attr)
        return ("abstract", f) if f else None
    prev_hook = None
    # decimal / datetime
    eng.py_calls["decimal.Decimal"] = lambda e, st, args, kw, ctx, node: [(st, SDec(args[0], 0))] if (len(args) == 1 and isinstance(args[0], (int, SInt, SBV)) and not isinstance(args[0], bool)) else (_ for _ in ()).throw(Unsupported("Decimal() form"))
    def binop_hook(op, a, b, node, st, ctx):
        a_ = a.v if isinstance(a, G.EnumVal) else a; b_ = b.v if isinstance(b, G.EnumVal) else b
        if isinstance(a_, SDec) and isinstance(op, ast.Pow):
            if isinstance(a_.m, int) and a_.m == 10 and isinstance(a_.e, int) and a_.e == 0 and isinstance(b_, (int, SInt, SBV)): return SDec(1, b_)
            raise Unsupported(f"Decimal power form {a_.m!r} {a_.e!r} ** {b_!r}")
        if isinstance(op, ast.Mult) and (isinstance(a_, SDec) or isinstance(b_, SDec)):
            d, o = (a_, b_) if isinstance(a_, SDec) else (b_, a_)
            if o is None: return Raised("TypeError", "None * Decimal")
            if isinstance(o, (int, SInt, SBV)) and isinstance(d.m, int) and d.m == 1: return SDec(o, d.e)
            raise Unsupported("Decimal product form")
        if (a_ is None or b_ is None) and isinstance(op, (ast.Mult, ast.Add, ast.Sub)): return Raised("TypeError", "arithmetic on None")
        if isinstance(a_, G.PStr) or isinstance(b_, G.PStr): return Raised("TypeError", "arithmetic on str")
        if isinstance(a_, (DT, G.Container)) or isinstance(b_, (DT, G.Container)): return Raised("TypeError", "arithmetic on object")
        if (a_ is not a or b_ is not b): return eng.binop(op, a_, b_, node, st, ctx)
        return None
    eng.binop_hook = binop_hook
    def compare_hook(op, a, b):
        a_ = a.v if isinstance(a, G.EnumVal) else a; b_ = b.v if isinstance(b, G.EnumVal) else b
        if isinstance(a_, SDec) or isinstance(b_, SDec):
            d, o = (a_, b_) if isinstance(a_, SDec) else (b_, a_)
            if not isinstance(op, (ast.Eq, ast.NotEq)):
                # ordering of an integer o against o * 10**e (the same integer term): o < o*10**e exactly when (e > 0 and o > 0) or (e < 0 and o < 0); equal exactly when e == 0 or o == 0
                same = (o is d.m) or (is_sym(o) and is_sym(d.m) and to_int(o).eq(to_int(d.m))) or (isinstance(o, int) and not isinstance(o, bool) and isinstance(d.m, int) and o == d.m)
                if not same or not isinstance(op, (ast.Lt, ast.LtE, ast.Gt, ast.GtE)): raise Unsupported("Decimal ordering")
                oi, ei = to_int(o), to_int(d.e)
                lt = z3.Or(z3.And(ei > 0, oi > 0), z3.And(ei < 0, oi < 0)); eq = z3.Or(ei == 0, oi == 0)
                o_left = d is b_
                c = {ast.Lt: lt if o_left else z3.Not(z3.Or(lt, eq)), ast.LtE: z3.Or(lt, eq) if o_left else z3.Not(lt),
                     ast.Gt: z3.Not(z3.Or(lt, eq)) if o_left else lt, ast.GtE: z3.Not(lt) if o_left else z3.Or(lt, eq)}[type(op)]
                c = z3.simplify(c)
                return True if z3.is_true(c) else False if z3.is_false(c) else SBool(c)
            # o == m * 10**e for the same integer term m: exactly when e == 0 or m == 0  (10**e != 1 for e != 0)
            same = (o is d.m) or (is_sym(o) and is_sym(d.m) and to_int(o).eq(to_int(d.m))) or (isinstance(o, int) and isinstance(d.m, int) and o == d.m)
            if not same:
                # different integer terms (e.g. a coefficient rounded by a decimal context): decided for e == 0 and for zero, otherwise left open (a fresh boolean: over-approximation)
                if not (isinstance(o, (int, SInt, SBV)) and not isinstance(o, bool)): raise Unsupported("Decimal comparison with a non-integer")
                oi, mi, ei = to_int(o), to_int(d.m), to_int(d.e)
                c = z3.Or(z3.And(ei == 0, oi == mi), z3.And(oi == 0, mi == 0), z3.And(ei != 0, mi != 0, oi != 0, fresh("dec_eq_open", z3.BoolSort())))
                r = SBool(c)
                if isinstance(op, ast.NotEq): r = SBool(z3.Not(c))
                return r
            c = z3.simplify(z3.Or(to_int(d.e) == 0, to_int(o) == 0))
            r = True if z3.is_true(c) else False if z3.is_false(c) else SBool(c)
            if isinstance(op, ast.NotEq): r = (not r) if isinstance(r, bool) else SBool(z3.Not(r.e))
            return r
        if isinstance(a_, G.PStr) or isinstance(b_, G.PStr):
            p, o = (a_, b_) if isinstance(a_, G.PStr) else (b_, a_)
            if isinstance(op, (ast.Eq, ast.NotEq)):
                if isinstance(o, str):
                    eq = len(o) == len(p.octs) and z3.simplify(z3.And(*[G.byte_bv(x) == ord(ch) for x, ch in zip(p.octs, o)])) if len(o) == len(p.octs) else False
                    eq = eq if isinstance(eq, bool) else (True if z3.is_true(eq) else False if z3.is_false(eq) else SBool(eq))
                else: eq = False
                return eq if isinstance(op, ast.Eq) else ((not eq) if isinstance(eq, bool) else SBool(z3.Not(eq.e)))
        if a_ is not a or b_ is not b: return eng.compare(op, a_, b_)
        return None
    eng.compare_hook = compare_hook
    def dt_timedelta(e, st, args, kw, ctx, node):
        if args or set(kw) != {"minutes"}: raise Unsupported("timedelta form")
        if kw["minutes"] is None: return [(st, Raised("TypeError", "timedelta(None)"))]
        return [(st, ("timedelta_min", to_int(kw["minutes"])))]
    def dt_timezone(e, st, args, kw, ctx, node):
        (td,) = args
        if isinstance(td, Raised): return [(st, td)]
        off = td[1]
        ok = z3.And(off > -1440, off < 1440); outs = []
        for st1, r in e.implicit_failure(st, ctx, "safe:timezone-range", ok, "ValueError", node): outs.append((st1, r if r is not None else ("tz_min", off)))
        return outs
    def dt_datetime(e, st, args, kw, ctx, node):
        if kw or len(args) != 8: raise Unsupported("datetime() form")
        y, mo, d, h, mi, sec, us, tz = args
        if any(x is None for x in (y, mo, d, h, mi, sec, us)): return [(st, Raised("TypeError", "datetime(None)"))]
        Y, MO, D_, Hh, MI, S, US = [to_int(x) for x in (y, mo, d, h, mi, sec, us)]
        dim = z3.If(z3.Or(MO == 4, MO == 6, MO == 9, MO == 11), 30, z3.If(MO == 2, z3.If(z3.And(Y % 4 == 0, z3.Or(Y % 100 != 0, Y % 400 == 0)), 29, 28), 31))
        ok = z3.And(Y >= 1, Y <= 9999, MO >= 1, MO <= 12, D_ >= 1, D_ <= dim, Hh >= 0, Hh <= 23, MI >= 0, MI <= 59, S >= 0, S <= 59, US >= 0, US <= 999999)
        outs = []
        if isinstance(tz, SAny): tzv = (fresh("any_tz_naive", z3.BoolSort()), fresh("any_tz_offset", z3.IntSort()))      # some object read back from kept state: any time zone
        else: tzv = None if tz is None else (tz[1], tz[2]) if tz[0] == "tz_opt" else (z3.BoolVal(False), tz[1])       # (is-naive, offset minutes)
        for st1, r in e.implicit_failure(st, ctx, "safe:datetime-range", ok, "ValueError", node):
            outs.append((st1, r if r is not None else DT(y=Y, mo=MO, d=D_, h=Hh, mi=MI, s=S, us=US, tz=tzv)))
        return outs
    eng.py_calls.update({"datetime.timedelta": dt_timedelta, "datetime.timezone": dt_timezone, "datetime.datetime": dt_datetime})
    eng.decoder_stats = stats
    return eng

FLOAT_AXIOMS = None
def float_axioms():
    """assumed float facts: float(Decimal) of an integer-valued decimal, and the rounding lemmas checked by the exhaustive sweep (props/cosem_rt.float_sweep)"""
    m, e, v = z3.Ints("fm fe fv")
    ax = [z3.ForAll([m], F_OF_DEC(m, 0) == F_OF_INT(m), patterns=[F_OF_DEC(m, 0)]), z3.ForAll([e], F_OF_DEC(0, e) == F_OF_INT(0), patterns=[F_OF_DEC(0, e)])]
    for const, nd, den in ((10 ** -3, 3, 1000), (10 ** -1, 1, 10), (10 ** -2, 2, 100)):
        num, dd = const.as_integer_ratio(); c = F_CONST(z3.RealVal(num) / z3.RealVal(dd))
        ax.append(z3.ForAll([v], z3.Implies(z3.And(v >= 0, v < 2 ** 32), F_ROUND(F_MUL(F_OF_INT(v), c), nd) == F_DIV(F_OF_INT(v), F_OF_INT(den))), patterns=[F_ROUND(F_MUL(F_OF_INT(v), c), nd)]))
    return ax

def spec_matches(code_v, spec):
    """-> z3 Bool: the decoded value equals the specification value"""
    kind = spec[0]
    cv = code_v.v if isinstance(code_v, G.EnumVal) else code_v
    if isinstance(cv, SIte): return z3.And(z3.Implies(cv.c, spec_matches(cv.a, spec)), z3.Implies(z3.Not(cv.c), spec_matches(cv.b, spec)))
    if kind == "text":
        if isinstance(cv, str): cv = G.PStr(list(cv.encode("latin1")))
        if not isinstance(cv, G.PStr) or len(cv.octs) != len(spec[1]): return z3.BoolVal(False)
        return z3.And(*[G.byte_bv(a) == G.byte_bv(b) for a, b in zip(cv.octs, spec[1])]) if spec[1] else z3.BoolVal(True)
    if kind in ("int", "int10"):
        want = spec[1] * (10 if kind == "int10" else 1)
        if isinstance(cv, (int, SInt, SBV)) and not isinstance(cv, bool): return to_int(cv) == want
        return z3.BoolVal(False)
    if kind == "dec":
        want = F_OF_DEC(spec[1], spec[2])
        if isinstance(cv, (int, SInt, SBV)) and not isinstance(cv, bool): return F_OF_INT(to_int(cv)) == want
        if isinstance(cv, SFloat): return cv.e == want
        return z3.BoolVal(False)
    if kind == "div":
        want = F_DIV(F_OF_INT(spec[1]), F_OF_INT(z3.IntVal(spec[2])))
        if isinstance(cv, SFloat): return cv.e == want
        return z3.BoolVal(False)
    if kind == "datetime":
        f = spec[1]
        if not isinstance(cv, DT): return z3.BoolVal(False)
        civil = z3.And(cv.y == f["year"], cv.mo == f["month"], cv.d == f["day"], cv.h == f["hour"], cv.mi == f["minute"], cv.s == f["second"])
        us = cv.us == z3.If(f["hundredths"] == 255, 0, f["hundredths"] * 10000)
        tz = (f["deviation"] == -32768) if cv.tz is None else z3.And(cv.tz[0] == (f["deviation"] == -32768), z3.Implies(z3.Not(cv.tz[0]), cv.tz[1] == -f["deviation"]))
        return z3.And(civil, us, tz)
    raise ValueError(kind)

def decode_obligations(eng, module, func, inp, expected, label, V, allow_missing=(), wit_extra=None):
    """run the real han.<module>.<func>(bytes) on the fixed-layout symbolic input; obligations: nothing raised, keys, values"""
    q = f"{module}.{func}"
    fn, mod, cls = eng.funcs[q]
    ctx = Ctx(eng, mod, cls, q, root_name=f"{q}[{label}]"); ctx.verifying = q; ctx.fork_implicit = True
    st = State(); st.pc += list(V.cons)
    st.locals = {fn.args.args[0].arg: LayoutBytes(inp)}
    sym_names = sorted(V.fields)
    def wit(m):
        octs = [int(b) if isinstance(b, int) else m.eval(b, model_completion=True).as_long() for b in inp]
        return {"module": module, "func": func, "layout": label, "input": octs, "fields": {nm: [m.eval(b, model_completion=True).as_long() for b in bs] for nm, bs in V.fields.items()}}
    n_paths = 0
    for st1, flow, val in eng.exec_block(fn.body, st, ctx):
        if not eng.feasible(st1): continue
        n_paths += 1
        if flow == RAISE:
            ctx.oblige(st1, f"raises:a well-formed list decodes without an exception ({val.exc}: {val.info})", z3.BoolVal(False), fn); continue
        if not isinstance(val, dict):
            ctx.oblige(st1, "post:result is a dictionary", z3.BoolVal(False), fn); continue
        ctx.oblige(st1, "post:dictionary has exactly the expected keys", z3.BoolVal(set(val) == set(expected)), fn, detail=f"got {sorted(val)} expected {sorted(expected)}")
        for k in expected:
            if k in val: ctx.oblige(st1, f"post:{k} == specification value ({expected[k][0]})", spec_matches(val[k], expected[k]), fn)
    if n_paths == 0: ctx.oblige(st, "cover:some path decodes the layout", z3.BoolVal(False), fn)
    for o in ctx.obls: o.meta.update(replay="replay_decode", witness=wit)
    return ctx.obls


def cases_group(repo, which):
    """one process: dump the grammars, build the engine, run every case of the family"""
    cases = getattr(SP, which)()
    gr = G.dump_grammars(repo, GRAMMARS); eng = mk_engine(repo, gr); eng.prelude_axioms += float_axioms()
    obls = []
    for label, build in cases.items():
        V = SymV(); module, func, octs, exp = build(V)
        obls += decode_obligations(eng, module, func, octs, exp, label, V)
    m, e = z3.Ints("cm ce")
    obls.append(Obligation("canary.float_of_decimal_ignores_the_scaler", [e != 0, m != 0], F_OF_DEC(m, e) == F_OF_INT(m), kind="canary", expect_refuted=True))
    info = {"cases": list(cases), "construct_rules_used": sorted(eng.decoder_stats["rules"]), "parses": eng.decoder_stats["parses"]}
    return eng, obls, info


# ----------------------------------------------------------------------------- C12: rejection lemmas (a genuine list is refused by every decoder the AutoDecoder tries before its own)
BINARY_TABLE = [("Aidon_frame", "han.aidon", "decode_frame_content"), ("Kaifa_frame", "han.kaifa", "decode_frame_content"), ("Kamstrup_frame", "han.kamstrup", "decode_frame_content"), ("P1", None, None),
                ("Aidon_notification_body", "han.aidon", "decode_notification_body"), ("Kaifa_notification_body", "han.kaifa", "decode_notification_body"), ("Kamstrup_notification_body", "han.kamstrup", "decode_notification_body")]
REJECT_EXC = ("construct.ConstructError", "ValueError", "UnicodeDecodeError")

def reject_obligations(eng, module, func, inp, label, V, entry):
    """run another meter's real decoder on the fixed-layout symbolic input: every path must end in ConstructError / ValueError (what AutoDecoder catches)"""
    q = f"{module}.{func}"
    fn, mod, cls = eng.funcs[q]
    ctx = Ctx(eng, mod, cls, q, root_name=f"{q}[refuses: {label}]"); ctx.verifying = q; ctx.fork_implicit = True
    st = State(); st.pc += list(V.cons)
    st.locals = {fn.args.args[0].arg: LayoutBytes(inp)}
    def wit(m):
        octs = [int(b) if isinstance(b, int) else m.eval(b, model_completion=True).as_long() for b in inp]
        return {"module": module, "func": func, "layout": label, "input": octs, "reject": True, "fields": {nm: [m.eval(b, model_completion=True).as_long() for b in bs] for nm, bs in V.fields.items()}}
    n = 0
    for st1, flow, val in eng.exec_block(fn.body, st, ctx):
        if not eng.feasible(st1): continue
        n += 1
        if flow == RAISE:
            excs = val.exc if isinstance(val.exc, tuple) else (val.exc,)
            ok = all(any(eng.exc_matches(e, x) for x in ("construct.ConstructError", "ValueError")) for e in excs)
            if not ok: ctx.oblige(st1, f"raises:only ConstructError / ValueError ({val.exc}: {val.info})", z3.BoolVal(False), fn)
            continue
        ctx.oblige(st1, f"post:the '{entry}' decoder refuses a genuine list of another meter (it is tried before the list's own decoder)", z3.BoolVal(False), fn)
    if n == 0: ctx.oblige(st, "cover:the decoder runs on the layout", z3.BoolVal(False), fn)
    if not ctx.obls:      # every path rejected without leaving an obligation: record the fact as one discharged obligation
        ctx.obls.append(Obligation(f"{q}[refuses: {label}]#post:every path ends in ConstructError / ValueError ({n} paths)", list(V.cons)[:0], z3.BoolVal(True), kind="post", func=q))
    for o in ctx.obls: o.meta.update(replay="replay_reject", witness=wit)
    return ctx.obls

def genuine_group(repo):
    """for every documented list: each binary decoder that a fresh AutoDecoder tries before the list's own decoder refuses it"""
    gr = G.dump_grammars(repo, GRAMMARS); eng = mk_engine(repo, gr); eng.prelude_axioms += float_axioms()
    obls = []; pairs = []
    for fam in ("aidon_cases", "kaifa_cases", "kamstrup_cases"):
        for label, build in getattr(SP, fam)().items():
            V0 = SymV(printable_only=True); module, func, octs, exp = build(V0)
            own = next(i for i, (nm, m_, f_) in enumerate(BINARY_TABLE) if m_ == module and f_ == func)
            for i in range(own):
                nm, m_, f_ = BINARY_TABLE[i]
                if m_ is None:
                    # the P1 text decoder: its contract (proved in the p1text group) says it returns only for text without control octets; every list starts with the array / structure tag
                    first = octs[0]
                    ok = isinstance(first, int) and ((first < 0x20 and first not in (0x0A, 0x0D)) or first >= 0x80)
                    obls.append(Obligation(f"han.dlde.decode_p1_readout_content[refuses: {label}]#pre-of-refusal:the list starts with a control or non-ASCII octet ({first!r})", [], z3.BoolVal(bool(ok)), kind="post", func="han.dlde.decode_p1_readout_content"))
                    pairs.append((label, nm)); continue
                V = SymV(printable_only=True); module, func, octs, exp = build(V)
                obls += reject_obligations(eng, m_, f_, octs, label, V, nm); pairs.append((label, nm))
    # genuine P1 text against the three frame decoders that precede the 'P1' entry: a data block consists of printable ASCII characters and CR / LF.  The LLC header octets are not
    # checked by the grammar, but the date-time of the APDU header must start with 0x00 / 0x09 / 0x0C: inputs of 0..10 and of 24 octets, every octet symbolic over the text alphabet.
    for n_oct in (0, 1, 2, 3, 4, 5, 6, 7, 8, 9, 10, 24):
        for i in range(3):
            nm, m_, f_ = BINARY_TABLE[i]
            V = SymV(); octs = V.raw(f"p1_text_{n_oct}", n_oct)
            V.cons += [z3.Or(z3.And(z3.UGE(b, 0x20), z3.ULE(b, 0x7E)), b == 0x0A, b == 0x0D) for b in octs]
            obls += reject_obligations(eng, m_, f_, octs, f"P1 text of {n_oct} octets (printable ASCII, CR, LF)", V, nm); pairs.append((f"P1 text {n_oct}", nm))
    return eng, obls, {"pairs": len(pairs), "construct_rules_used": sorted(eng.decoder_stats["rules"])}
