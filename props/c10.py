"""C10 — COSEM decoders through the grammar layer (see props/cosem_model.py)."""
from props import hdlc_model as M, cosem_model as CM
from pyvc import run

FUNCS = ['han.cosem.DateTime <Computed lambda>', 'han.cosem.OptionalDateTimeByte <lambda>', 'han.cosem.DateTime.deviation <lambda>', 'han.cosem._get_apdu_struct', 'han.aidon.decode_notification_body', 'han.kaifa.decode_frame_content', 'han.kaifa.decode_notification_body', 'han.kamstrup.decode_frame_content', 'han.kamstrup.decode_notification_body']
ASSUME = ['construct 2.10.70 combinator semantics: the parse rule of each class used (listed in the evidence under construct_rules_used) is an assumed contract; the object graphs are dumped from the real modules on every run and every solver model is replayed through the real parse()', 'layouts have a fixed structure (tags, lengths, OBIS codes concrete; registers, scalers, characters, date-time fields symbolic over their full range): the documented lists are enumerated, the value space is not', 'text characters range over printable ASCII 0x20..0x7E', "datetime / timezone / timedelta are record models with the constructor's documented range checks", 're on concrete OBIS strings is executed concretely (the real library)']
EXPL = 'C10: a symbolic 12-octet date-time (year 1..9999, valid civil fields, hundredths 0..99 or 0xFF, deviation -720..720 or 0x8000, any status octet, any day of week) in each of the six syntactic positions (tagged / untagged APDU header, Aidon element, Kaifa positional and OBIS element, Kamstrup element) decodes to exactly those civil fields, microseconds == hundredths x 10000 (0 when unspecified), UTC offset == -deviation or naive; the status octet is consumed exactly once on either branch (the following elements decode).'
LEVEL = 'proof'
SWEEP = False
FAMILY = "datetime_cases"
def build(repo, tier, seed):
    r = M.groups_result([("decoders", CM.cases_group, (repo, FAMILY))], budget_ms=15000)
    r.functions = sorted({o.func for o in r.obligations if o.func} | set(FUNCS))
    r.assumptions = list(ASSUME)
    r.explanation = EXPL
    r.level = LEVEL
    b = run.rt_call("C10", "layouts_random", {"family": "C10", "seed": seed, "n": 40 if tier == "quick" else 1500})
    r.bounded.append(b if "name" in b else {"name": "layouts_random", "error": b.get("error", b)})
    if SWEEP:
        b = run.rt_call("C10", "float_sweep", {"seed": seed, "full": tier == "thorough"}, timeout=3000)
        r.bounded.append(b if "name" in b else {"name": "float_sweep", "error": b.get("error", b)})
    return r
