"""C03 run-time side (under /venv/bin/python, real code from /repo): replay of solver models + bounded differential."""
import random
from han.fastframecheck import FastFrameCheckSequence16 as F
from props import spec_py as sp

def replay_table(p):
    i = p["witness"].get("index")
    T = F.fast_frame_check_crc_table
    if i is None: return {"violated": len(T) != 256, "detail": f"len(table) == {len(T)}"}
    return {"violated": T[i] != sp.fcs16_bit(0, i), "detail": f"table[{i}] == {T[i]:#x}, RFC 1662 bit-serial gives {sp.fcs16_bit(0, i):#x}"}
def replay_next(p):
    w = p["witness"]; got = F._next(w["crc"], w["byte"]); exp = sp.fcs16_bit(w["crc"], w["byte"])
    return {"violated": got != exp, "detail": f"_next({w['crc']:#x}, {w['byte']:#x}) == {got:#x}, RFC 1662 bit-serial gives {exp:#x}"}
def replay_update(p):
    w = p["witness"]; f = F(); f._crc_value = w["crc"]; got = f.update(w["byte"]); exp = sp.fcs16_bit(w["crc"], w["byte"])
    return {"violated": got != exp or f._crc_value != exp, "detail": f"update({w['byte']:#x}) from register {w['crc']:#x}: returned {got:#x}, register {f._crc_value:#x}, expected {exp:#x}"}
def replay_prop(p):
    w = p["witness"]; f = F(); f._crc_value = w["crc"]
    bad = f.is_good != (w["crc"] == 0xF0B8) or f.checksum != (w["crc"] ^ 0xFFFF)
    return {"violated": bad, "detail": f"register {w['crc']:#x}: is_good={f.is_good} checksum={f.checksum:#x}"}
def replay_feed(p):
    f = F(); return {"violated": f._crc_value != 0xFFFF, "detail": f"initial register {f._crc_value:#x}"}
def replay_compute(p):
    w = p["witness"]; data = bytes(w["data"]) + bytes(max(0, w.get("n", 0) - len(w["data"])))
    s, l = w["start"], w["length"]
    try: got = F.compute_checksum(data, s, l); exc = None
    except Exception as ex: got = None; exc = type(ex).__name__
    inside = s + l <= len(data)
    if exc is not None:
        bad = not (exc == "IndexError" and not inside)
    else:
        bad = not (inside or l == 0) or got != sp.fcs16(data, s, s + l)
    return {"violated": bad, "detail": f"compute_checksum({data.hex()}, {s}, {l}) -> {got if got is None else hex(got)} / {exc}; RFC 1662 gives {hex(sp.fcs16(data, s, min(s + l, len(data)))) if s <= len(data) else None}"}

def differential(p):
    """bounded cross-check of the contracts on the real code (labelled bounded; never counted as proved)"""
    rnd = random.Random(p.get("seed", 0)); n = p.get("n", 2000); bad = []; ev = 0; distinct = set()
    for _ in range(n):
        ln = rnd.choice([0, 1, 2, 3, 7, 64, 300]); data = bytes(rnd.randrange(256) for _ in range(ln))
        s = rnd.randrange(0, ln + 1); l = rnd.randrange(0, ln - s + 1)
        ev += 1; distinct.add((data, s, l))
        if F.compute_checksum(data, s, l) != sp.fcs16(data, s, s + l): bad.append({"data": data.hex(), "start": s, "length": l})
        f = F()
        for b in data: f.update(b)
        if f._crc_value != sp.fcs_fold(data) or f.checksum != sp.fcs16(data): bad.append({"feed": data.hex()})
        m = data + bytes([sp.fcs16(data) & 0xFF, sp.fcs16(data) >> 8]); g = F()
        for b in m: g.update(b)
        if not g.is_good: bad.append({"trailer": m.hex()})
    return {"name": "differential run of compute_checksum/update/is_good against the bit-serial definition", "bound": f"{n} random byte strings (length <= 300) and windows", "evaluations": ev,
            "distinct_nontrivial": len([d for d in distinct if len(d[0]) > 0]), "violations": bad[:3]}

def history_search(p):
    """bounded search over call histories of one object (update / is_good / checksum observed at arbitrary points) for a violation of the
    property statement; used to confirm models that depend on a field the contract does not constrain"""
    rnd = random.Random(p.get("seed", 0)); ev = 0
    for trial in range(p.get("n", 3000)):
        ln = rnd.choice([0, 1, 2, 3, 5, 9, 20]); body = bytes(rnd.randrange(256) for _ in range(ln)); fcs = sp.fcs16(body)
        msg = body + (bytes([fcs & 0xFF, fcs >> 8]) if rnd.random() < 0.6 else bytes(rnd.randrange(256) for _ in range(2)))
        if rnd.random() < 0.4:      # a good message followed by more octets, or two good messages back to back
            more = bytes(rnd.randrange(256) for _ in range(rnd.choice([1, 2, 4]))); f2 = sp.fcs16(msg + more)
            msg = msg + more + (bytes([f2 & 0xFF, f2 >> 8]) if rnd.random() < 0.5 else b"")
        f = F(); hist = []
        for k in range(len(msg) + 1):
            if rnd.random() < 0.5 or k == len(msg):
                ev += 1; pre = msg[:k]; reg = sp.fcs_fold(pre)
                good = len(pre) >= 2 and pre[-2] == (sp.fcs16(pre[:-2]) & 0xFF) and pre[-1] == (sp.fcs16(pre[:-2]) >> 8)
                got_good = f.is_good; got_sum = f.checksum; hist.append(f"is_good@{k}")
                if got_good != good or got_good != (reg == 0xF0B8) or got_sum != (reg ^ 0xFFFF):
                    return {"violated": True, "detail": {"message": msg.hex(), "history": hist, "octets_fed": k, "is_good": got_good, "expected_is_good": good, "checksum": got_sum, "expected_checksum": reg ^ 0xFFFF}}
            if k < len(msg):
                r = f.update(msg[k])
                if r != sp.fcs_fold(msg[:k + 1]): return {"violated": True, "detail": {"message": msg.hex(), "history": hist, "update_returned": r, "expected": sp.fcs_fold(msg[:k + 1])}}
    return {"violated": False, "evaluations": ev, "detail": "no history of update()/is_good/checksum calls breaks the statement"}
