"""C09 — COSEM decoders through the grammar layer (see props/cosem_model.py)."""
from props import hdlc_model as M, cosem_model as CM
from pyvc import run

FUNCS = ['han.kamstrup.decode_frame_content', 'han.kamstrup.decode_notification_body', 'han.kamstrup.normalize_parsed_frame', 'han.kamstrup.normalize_parsed_notification', 'han.kamstrup._normalize_parsed_items', 'han.cosem.<lambdas>']
ASSUME = ['construct 2.10.70 combinator semantics: the parse rule of each class used (listed in the evidence under construct_rules_used) is an assumed contract; the object graphs are dumped from the real modules on every run and every solver model is replayed through the real parse()', 'layouts have a fixed structure (tags, lengths, OBIS codes concrete; registers, scalers, characters, date-time fields symbolic over their full range): the documented lists are enumerated, the value space is not', 'text characters range over printable ASCII 0x20..0x7E', "datetime / timezone / timedelta are record models with the constructor's documented range checks", 're on concrete OBIS strings is executed concretely (the real library)', 'float lemma round(v*10**-k, k) == v/10**k for all 32-bit v (k = 2, 3): assumed in the VCs, checked by the sweep']
EXPL = "C09: the real Kamstrup decoders executed symbolically for the 10-second and hourly lists (one/three phase), with null-data padding after several elements, for direct meters (symbolic type number not starting with 685) and CT meters (685...): currents == register/100 resp. register/1000, energies == register x 10, other registers unchanged, text verbatim, APDU clock for frames. Float lemma by sweep as for C08 - hence 'other'."
LEVEL = 'other'
SWEEP = True
FAMILY = "kamstrup_cases"
def build(repo, tier, seed):
    r = M.groups_result([("decoders", CM.cases_group, (repo, FAMILY))], budget_ms=15000)
    r.functions = sorted({o.func for o in r.obligations if o.func} | set(FUNCS))
    r.assumptions = list(ASSUME)
    r.explanation = EXPL
    r.level = LEVEL
    b = run.rt_call("C09", "layouts_random", {"family": "C09", "seed": seed, "n": 40 if tier == "quick" else 1500})
    r.bounded.append(b if "name" in b else {"name": "layouts_random", "error": b.get("error", b)})
    if SWEEP:
        b = run.rt_call("C09", "float_sweep", {"seed": seed, "full": tier == "thorough"}, timeout=3000)
        r.bounded.append(b if "name" in b else {"name": "float_sweep", "error": b.get("error", b)})
    return r
