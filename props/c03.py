"""C03 — FCS-16 implementation equals the RFC 1662 definition for every input.
Functions under contract: han.fastframecheck._compute_fcs_16_crc_table (concretely evaluated from source),
FastFrameCheckSequence16.{__init__, _next, update, is_good, checksum, compute_checksum}."""
import ast, z3
from pyvc.engine import *
from pyvc import speclib as S
from pyvc.run import PropResult

Q = "han.fastframecheck.FastFrameCheckSequence16."

def fit(v, w):
    """value -> (bit-vector of width w, z3 Bool 'value is in 0..2^w-1')"""
    if isinstance(v, SBV) and v.w <= w: return to_bv(v, w), z3.BoolVal(True)
    if isinstance(v, SBV): return z3.Extract(w - 1, 0, v.e), z3.Extract(v.w - 1, w, v.e) == 0
    if isinstance(v, int) and not isinstance(v, bool): return z3.BitVecVal(v % (1 << w), w), z3.BoolVal(0 <= v < (1 << w))
    x = to_int(v); return z3.Int2BV(x, w), z3.And(x >= 0, x < (1 << w))

def mk_engine(repo):
    eng = Engine({"han.fastframecheck": f"{repo}/han/fastframecheck.py"})
    eng.reveal_defs.append(S.FCS16_BIT_REVEAL); eng.refute_defs.append(S.FOLD_REFUTE)
    return eng

def next_contract():
    def init_next(e):
        st = State(); yield st, [SBV(z3.BitVec("crc", 16)), SBV(z3.BitVec("byte", 8))]
    def post_next(st, args, res, old, e):
        r, ok = fit(res, 16)
        yield "0 <= result <= 0xFFFF", ok
        yield "result == fcs16_bit(crc, byte)", r == S.fcs16_bit(args[0].e, args[1].e)
    def apply_next(e, st, args, ctx, node):
        crc, byte = args
        c16, okc = fit(crc, 16); b8, okb = fit(byte, 8)
        ctx.oblige(st, "pre:_next(0<=crc<=0xFFFF, 0<=byte<=255)", z3.And(okc, okb), node)
        r = fresh("next", S.BV16); st.pc.append(r == S.fcs16_bit(c16, b8))
        return [(st, SBV(r))]
    return Contract(init_next, post_next, apply_next, reveal_post=True)

def build(repo, tier, seed):
    eng = mk_engine(repo)
    obls = []; notes = []
    T = eng.consts.get("han.fastframecheck.FastFrameCheckSequence16.fast_frame_check_crc_table")
    # ---- table: evaluated concretely by the engine from the source on disk
    if not isinstance(T, list) or not all(isinstance(x, int) for x in T):
        raise Unsupported("fast_frame_check_crc_table could not be evaluated from the source")
    obls.append(Obligation("han.fastframecheck._compute_fcs_16_crc_table#post:len(table)==256", [], z3.BoolVal(len(T) == 256), kind="post", func="han.fastframecheck._compute_fcs_16_crc_table",
                           meta={"replay": "replay_table", "witness": lambda m: {"index": None}}))
    for idx in range(min(len(T), 256)):
        ok = 0 <= T[idx] <= 0xFFFF
        g = (z3.BitVecVal(T[idx] & 0xFFFF, 16) == S.fcs16_bit(z3.BitVecVal(0, 16), z3.BitVecVal(idx, 8))) if ok else z3.BoolVal(False)
        obls.append(Obligation(f"han.fastframecheck._compute_fcs_16_crc_table#post:table[{idx}]==fcs16_bit(0,{idx})", [], g, reveal=True, kind="post",
                               func="han.fastframecheck._compute_fcs_16_crc_table", meta={"replay": "replay_table", "witness": (lambda i: (lambda m: {"index": i}))(idx)}))
    # ---- _next
    c_next = next_contract(); eng.contracts[Q + "_next"] = c_next
    o = eng.verify(Q + "_next", c_next)
    for x in o:
        x.reveal = True; x.meta.update(replay="replay_next", witness=lambda m: {"crc": m.eval(z3.BitVec("crc", 16), model_completion=True).as_long(), "byte": m.eval(z3.BitVec("byte", 8), model_completion=True).as_long()})
    obls += o
    # ---- __init__
    def init_init(e):
        st = State(); ref = st.new_obj(Q[:-1], {}); yield st, [ref]
    def post_init(st, args, res, old, e):
        r, ok = fit(st.getf(args[0], "_crc_value"), 16)
        yield "_crc_value == 0xFFFF", z3.And(ok, r == 0xFFFF)
    o = eng.verify(Q + "__init__", Contract(init_init, post_init))
    for x in o: x.meta.update(replay="replay_feed", witness=lambda m: {"data": []})
    obls += o
    # ---- update
    def init_self(tag=""):
        st = State(); ref = st.new_obj(Q[:-1], {"_crc_value": SBV(z3.BitVec("crc0" + tag, 16))}); return st, ref
    def init_update(e):
        st, ref = init_self(); yield st, [ref, SBV(z3.BitVec("byte", 8))]
    def post_update(st, args, res, old, e):
        new, ok = fit(st.getf(args[0], "_crc_value"), 16)
        yield "0 <= _crc_value' <= 0xFFFF", ok
        yield "_crc_value' == fcs16_bit(old, byte)", new == S.fcs16_bit(old, args[1].e)
        r, okr = fit(res, 16)
        yield "result == _crc_value'", z3.And(okr, r == new)
    c_update = Contract(init_update, post_update, snapshot=lambda st, args, e: st.getf(args[0], "_crc_value").e)
    o = eng.verify(Q + "update", c_update)
    for x in o: x.meta.update(replay="replay_update", witness=lambda m: {"crc": m.eval(z3.BitVec("crc0", 16), model_completion=True).as_long(), "byte": m.eval(z3.BitVec("byte", 8), model_completion=True).as_long()})
    obls += o
    # ---- is_good / checksum
    def init_prop(e):
        st, ref = init_self(); yield st, [ref]
    wit_prop = lambda m: {"crc": m.eval(z3.BitVec("crc0", 16), model_completion=True).as_long()}
    c_good = Contract(init_prop, lambda st, a, res, old, e: [("result == (register == 0xF0B8)", to_bool(res) == (st.getf(a[0], "_crc_value").e == 0xF0B8))])
    o = eng.verify(Q + "is_good", c_good)
    for x in o: x.meta.update(replay="replay_prop", witness=wit_prop)
    obls += o
    def post_sum(st, a, res, old, e):
        r, ok = fit(res, 16)
        yield "result == register ^ 0xFFFF (complement)", z3.And(ok, r == (st.getf(a[0], "_crc_value").e ^ 0xFFFF))
    o = eng.verify(Q + "checksum", Contract(init_prop, post_sum))
    for x in o: x.meta.update(replay="replay_prop", witness=wit_prop)
    obls += o
    # ---- compute_checksum(data, start, length)
    data = z3.Const("data", BYTE_ARR); n = z3.Int("n"); start, length = z3.Ints("start length")
    eng.len_vars.append(n)
    def init_cc(e):
        st = State(); st.pc += [n >= 0, start >= 0, length >= 0]
        yield st, [SBytes(data, n), SInt(start), SInt(length)]
    # the loop's variables are found by role (for-target; the one loop-carried accumulator), not by name
    fn_cc = eng.funcs[Q + "compute_checksum"][0]
    loops = [x for x in ast.walk(fn_cc) if isinstance(x, (ast.For, ast.While))]
    if len(loops) != 1: raise Unsupported("compute_checksum: expected exactly one loop")
    roles = loop_roles(fn_cc, loops[0]); IDX = roles["index"]; accs = [c for c in roles["carried"] if c != IDX]
    if IDX is None or len(accs) != 1: raise Unsupported(f"compute_checksum: loop roles not recognised ({roles})")
    ACC = accs[0]
    def inv_cc(st, e):
        d = st.locals["data"]; f, ok = fit(st.locals[ACC], 16)
        i_ = to_int(st.locals[IDX]); s_ = to_int(st.locals["start"])
        return z3.And(ok, f == S.FOLD(d.arr, s_, i_), z3.Or(i_ == s_, i_ <= d.n))
    # cut: after the statement that assigns the accumulator inside the loop, acc' == fcs16_bit(acc, data[i])  (proved revealed, used opaque)
    body = loops[0].body
    fcs_stmts = [b for b in body if eng.stmt_selector(b) in (f"assign:{ACC}", f"augassign:{ACC}")]
    if not fcs_stmts: raise Unsupported("compute_checksum: no assignment to the accumulator in the loop")
    last = fcs_stmts[-1]
    def cut_last(st, e):
        f, ok = fit(st.locals[ACC], 16)
        return z3.And(ok, f == S.fcs16_bit(st.ghost["fcs_in"], st.locals["data"].at(to_int(st.locals[IDX]))))
    eng.cuts[(Q + "compute_checksum", last.lineno)] = cut_last
    # ghost assignment at loop head: wrap inv so that the havocked state records the accumulator's value on entry to the iteration
    def inv_cc_ghost(st, e):
        g = inv_cc(st, e)
        if isinstance(st.locals.get(ACC), SBV): st.ghost["fcs_in"] = to_bv(st.locals[ACC], 16)
        return g
    eng.loop_specs[(Q + "compute_checksum", 0)] = (inv_cc_ghost, None, {ACC: 16})
    def post_cc(st, args, res, old, e):
        r, ok = fit(res, 16)
        yield "window inside the data on normal return", z3.Or(start + length <= n, length == 0)
        yield "result == fcs16(data[start:start+length])  (RFC 1662, complemented)", z3.And(ok, r == (S.FOLD(data, start, start + length) ^ 0xFFFF))
    def raises_cc(st, args, exc, old, e):
        yield f"only IndexError, and only when the window leaves the data ({exc.exc})", z3.And(z3.BoolVal(exc.exc == "IndexError"), start + length > n)
    c_cc = Contract(init_cc, post_cc, raises=raises_cc, fork_implicit=True)
    o = eng.verify(Q + "compute_checksum", c_cc)
    def wit_cc(m):
        nn = m.eval(n, model_completion=True).as_long()
        return {"data": [m.eval(data[q], model_completion=True).as_long() for q in range(min(nn, 64))], "start": m.eval(start, model_completion=True).as_long(),
                "length": m.eval(length, model_completion=True).as_long(), "n": nn}
    for x in o: x.meta.update(replay="replay_compute", witness=wit_cc)
    obls += o
    # ---- lemmas: feeding, residue, is_good characterisation
    lem, ax = S.hdlc_lemmas(Obligation)
    obls += [l for l in lem if l.oid.startswith(("lemma.fcs_residue", "canary."))]
    eng.prelude_axioms.append(ax["residue"])
    kf = z3.Int("kf"); crc = z3.BitVec("crcf", 16)
    obls.append(Obligation("lemma.feed_step: register == fcs_fold(m,0,k) is preserved by update(m[k])", [kf >= 0, crc == S.FOLD(data, 0, kf)],
                           S.fcs16_bit(crc, data[kf]) == S.FOLD(data, 0, kf + 1), kind="lemma"))
    reg = S.FOLD(data, 0, n); f2 = S.fcs16(data, 0, n - 2)
    tail_ok = z3.And(n >= 2, data[n - 2] == z3.Extract(7, 0, f2), data[n - 1] == z3.Extract(15, 8, f2))
    obls.append(Obligation("lemma.is_good_characterisation[n>=2]: register==0xF0B8 <=> message ends with fcs16 of the rest, low octet first", [n >= 2], (reg == 0xF0B8) == tail_ok, kind="lemma"))
    obls.append(Obligation("lemma.is_good_characterisation[n==0]", [n == 0], reg != 0xF0B8, kind="lemma"))
    obls.append(Obligation("lemma.is_good_characterisation[n==1]", [n == 1], reg != 0xF0B8, kind="lemma", reveal=True))
    obls.append(Obligation("canary.compute_checksum_off_by_one", [n >= 1, start == 0, length == n], S.FOLD(data, 0, n) == S.FOLD(data, 0, n - 1), kind="canary", expect_refuted=True, reveal=True))
    return PropResult(obls, eng, functions=[Q + x for x in ("__init__", "_next", "update", "is_good", "checksum", "compute_checksum")] + ["han.fastframecheck._compute_fcs_16_crc_table"],
                      derived=sorted(eng.derived),
                      assumptions=["table: the module-level call _compute_fcs_16_crc_table() is evaluated concretely by the engine's own interpreter from the source text (not imported)"],
                      explanation="C03: table entries (256 concrete obligations against the bit-serial step), _next == bit-serial step over all 2^24 (register, octet) pairs as one bit-vector query, "
                                  "update/is_good/checksum contracts, compute_checksum loop invariant fcs == fcs_fold(data,start,i) with IndexError exactly when the window leaves the data, "
                                  "residue lemma and is_good characterisation by two unfoldings; unbounded in the message length (induction = loop invariant / recursive fold)")

def fallback(repo, tier, seed):
    from pyvc import run
    b = run.rt_call("C03", "differential", {"seed": seed, "n": 2000 if tier == "quick" else 40000})
    return [b if "name" in b else {"name": "differential", "error": b.get("error", b)}]
