"""C20 — OBIS codes parse into their value groups and format back losslessly."""
import ast, z3
from pyvc.engine import *
from pyvc.run import PropResult
from pyvc import regex as RX, run

O = "han.obis."
S_ = z3.StringSort(); I = z3.IntSort(); B = z3.BoolSort()
# abstract result of matching the OBIS pattern on a string (assumed contract of `re`, conformance-tested in c20_rt)
M_OK = z3.Function("obis_match", S_, B)
GRP_NONE = {g: z3.Function(f"grp_{g}_is_none", S_, B) for g in ("REDUCED", "STANDARD", "AR", "BR", "CR", "DR", "ER", "FR", "AS", "BS", "CS", "DS", "ES", "FS")}
GRP = {g: z3.Function(f"grp_{g}", S_, S_) for g in GRP_NONE}

class SOStr:
    """Optional[str] (a regex group): isnone + string"""
    def __init__(s, isnone, e): s.isnone = isnone; s.e = e
def is_digits(e): return z3.InRe(e, z3.Plus(z3.Range("0", "9")))

def groups_state(tag=""):
    """six groups: A, B, E, F optional ints; C, D ints; all in 0..255 when present"""
    vals = []; cons = []
    for k, nm in enumerate("ABCDEF"):
        v = z3.Int(nm + tag); cons += [v >= 0, v <= 255]
        if nm in "CD": vals.append(SInt(v))
        else: vals.append(SOpt(z3.Bool(nm + "none" + tag), v))
    return tuple(vals), cons
def present(g): return z3.And(z3.Not(g.isnone), g.val != 0) if isinstance(g, SOpt) else z3.BoolVal(True)
def its(x): return z3.IntToStr(x)
def reduced_str_spec(g):
    """[A-][B:]C.D[.E][*F]; an optional group is written iff it is present (not None) and non-zero"""
    A_, B_, C_, D_, E_, F_ = g; lit = z3.StringVal
    return z3.Concat(z3.If(present(A_), z3.Concat(its(A_.val), lit("-")), lit("")), z3.If(present(B_), z3.Concat(its(B_.val), lit(":")), lit("")),
                     its(C_.e), lit("."), its(D_.e), z3.If(present(E_), z3.Concat(lit("."), its(E_.val)), lit("")), z3.If(present(F_), z3.Concat(lit("*"), its(F_.val)), lit("")))
def groups_eq(g, h):
    parts = []
    for x, y in zip(g, h):
        if isinstance(x, SOpt): parts.append(z3.And(x.isnone == y.isnone, z3.Implies(z3.Not(x.isnone), x.val == y.val)))
        else: parts.append(x.e == y.e)
    return z3.And(*parts)

def build(repo, tier, seed):
    eng = Engine({"han.obis": f"{repo}/han/obis.py"})
    obls = []
    def wit(tag=""):
        def w(m):
            ev = lambda t: m.eval(t, model_completion=True)
            return {"groups" + tag: [None if (nm not in "CD" and z3.is_true(ev(z3.Bool(nm + "none" + tag)))) else ev(z3.Int(nm + tag)).as_long() for nm in "ABCDEF"]}
        return w
    def mk_obis(e, st, g):
        """an Obis object as its own __init__ builds it (so every field the class derives from the tuple exists and has the derived value); the plain record when
        __init__ is outside the supported subset"""
        ref = st.new_obj(O + "Obis", {}); saved = dict(st.locals)
        try:
            outs = e.call(O + "Obis.__init__", st, [ref, g], Ctx(e, "han.obis", O + "Obis", O + "Obis.__init__"), None)
            if len(outs) == 1 and outs[0][0] is st and not isinstance(outs[0][1], Raised) and "_groups" in st.heap[ref.oid][1]:
                st.locals = saved; return ref
        except (Unsupported, AttributeError, TypeError):
            pass
        st.locals = saved; st.heap[ref.oid] = (O + "Obis", {"_groups": g}); return ref
    def init_self(e):
        st = State(); g, cons = groups_state(); st.pc += cons; yield st, [mk_obis(e, st, g)]
    g0, _ = groups_state()
    # ---- to_reduced_str
    o = eng.verify(O + "Obis.to_reduced_str", Contract(init_self, lambda st, args, res, old, e: [("result == [A-][B:]C.D[.E][*F] with optional groups written iff present and non-zero", to_str(res) == reduced_str_spec(g0))]))
    for x in o: x.meta.update(replay="replay_reduced", witness=wit(), strings=True)
    obls += o
    # ---- to_group_cdr_str, __hash__, as_tupple, accessors, __init__
    def fmt_opt(v): return z3.If(v.isnone, z3.StringVal("None"), its(v.val)) if isinstance(v, SOpt) else its(v.e)
    o = eng.verify(O + "Obis.to_group_cdr_str", Contract(init_self, lambda st, args, res, old, e: [("result == 'C.D.E' made of groups C, D and E", to_str(res) == z3.Concat(its(g0[2].e), z3.StringVal("."), its(g0[3].e), z3.StringVal("."), fmt_opt(g0[4])))]))
    for x in o: x.meta.update(replay="replay_reduced", witness=wit(), strings=True)
    obls += o
    obls += eng.verify(O + "Obis.__hash__", Contract(init_self, lambda st, args, res, old, e: [("hash is computed from exactly the group tuple (equal groups => equal hash)", z3.BoolVal(isinstance(res, tuple) and res[0] == "hashof" and res[1] is st.getf(args[0], "_groups")))]))
    obls += eng.verify(O + "Obis.as_tupple", Contract(init_self, lambda st, args, res, old, e: [("returns the group tuple", z3.BoolVal(res is st.getf(args[0], "_groups")))]))
    for k, nm in enumerate("abcdef"):
        obls += eng.verify(O + "Obis." + nm, Contract(init_self, (lambda k: lambda st, args, res, old, e: [(f"group {'ABCDEF'[k]}", z3.BoolVal(res is st.getf(args[0], "_groups")[k]))])(k)))
    def init_init(e):
        st = State(); g, cons = groups_state(); st.pc += cons; yield st, [st.new_obj(O + "Obis", {}), g]
    obls += eng.verify(O + "Obis.__init__", Contract(init_init, lambda st, args, res, old, e: [("stores the tuple", z3.BoolVal(st.getf(args[0], "_groups") is args[1]))]))
    # ---- to_obis_tupple over an abstract regex match
    src = z3.String("obis_code")
    def grp(name):
        return SOStr(GRP_NONE[name](src), GRP[name](src))
    def a_match(e, st, args, kw, ctx, node):
        a = st.fork(); a.pc.append(M_OK(src)); b = st.fork(); b.pc.append(z3.Not(M_OK(src)))
        return [(a, ("amatch",)), (b, None)]
    def getattr_hook(st, base, attr, ctx, node):
        if isinstance(base, tuple) and base and base[0] == "pyattr" and base[1].endswith("_obis_pattern") and attr == "match": return [(st, ("abstract", lambda e, st_, args, ctx_, node_: a_match(e, st_, args, {}, ctx_, node_)))]
        if isinstance(base, tuple) and base == ("amatch",) and attr == "group":
            def group(e, st_, args, ctx_, node_):
                if not all(isinstance(a, str) and a in GRP for a in args): raise Unsupported("match.group argument")
                return [(st_, grp(args[0]) if len(args) == 1 else tuple(grp(a) for a in args))]
            return [(st, ("abstract", group))]
        return None
    eng.getattr_hook = getattr_hook
    eng.consts["han.obis._obis_pattern"] = ("pyattr", "han.obis._obis_pattern")
    eng.py_calls["han.obis._obis_pattern.match"] = a_match
    import pyvc.engine as E
    _tb = E.to_bool
    def to_bool2(v):
        if isinstance(v, SOStr): return z3.And(z3.Not(v.isnone), z3.Length(v.e) > 0)
        return _tb(v)
    E.to_bool = to_bool2
    def b_int(e, st, args, kw, ctx, node):
        if len(args) == 1 and isinstance(args[0], SOStr) and not kw:
            v = args[0]; outs = []
            for st1, r in e.implicit_failure(st, ctx, "safe:int(group)", z3.And(z3.Not(v.isnone), is_digits(v.e)), "ValueError", node):
                outs.append((st1, r if r is not None else SInt(z3.StrToInt(v.e))))
            return outs
        return None
    eng.py_calls["builtins.int"] = b_int
    def init_t(e):
        st = State()
        # assumed contract of the pattern: at most one alternative matched; matched groups are digit strings of length 0..3; C and D (and A..E in the dotted form) are matched whenever their alternative is
        red, std = GRP_NONE["REDUCED"](src), GRP_NONE["STANDARD"](src)
        st.pc.append(z3.Implies(M_OK(src), z3.Or(z3.Not(red), z3.Not(std))))
        for g_ in ("AR", "BR", "CR", "DR", "ER", "FR", "AS", "BS", "CS", "DS", "ES", "FS"):
            st.pc.append(z3.Implies(z3.Not(GRP_NONE[g_](src)), z3.InRe(GRP[g_](src), z3.Loop(z3.Range("0", "9"), 0, 3))))
        yield st, [SStr(src)]
    def opt_of(name):
        v = grp(name); return z3.Or(v.isnone, z3.Length(v.e) == 0), z3.StrToInt(v.e)
    def post_t(st, args, res, old, e):
        red_t = z3.And(z3.Not(GRP_NONE["REDUCED"](src)), z3.Length(GRP["REDUCED"](src)) > 0)
        names = ("AR", "BR", "CR", "DR", "ER", "FR") ; optional = (True, True, False, False, True, True)
        namess = ("AS", "BS", "CS", "DS", "ES", "FS"); optionals = (False, False, False, False, False, True)
        def tuple_is(nms, opts):
            parts = []
            for k, (nm, op) in enumerate(zip(nms, opts)):
                none_c, val = opt_of(nm); r = res[k]
                if op: parts.append(z3.And(is_none_z3(r) == none_c, z3.Implies(z3.Not(none_c), int_nochk(r) == val)))
                else: parts.append(z3.And(z3.BoolVal(r is not None), int_nochk(r) == val) if r is not None else z3.BoolVal(False))
            return z3.And(*parts)
        yield "result is a 6-tuple", z3.BoolVal(isinstance(res, tuple) and len(res) == 6)
        if isinstance(res, tuple) and len(res) == 6:
            yield "groups are the ints of the matched sub-strings (reduced form: AR..FR, empty or missing optional group -> None; dotted form: AS..FS)", z3.If(red_t, tuple_is(names, optional), tuple_is(namess, optionals))
    def raises_t(st, args, exc, old, e):
        red_t = z3.And(z3.Not(GRP_NONE["REDUCED"](src)), z3.Length(GRP["REDUCED"](src)) > 0); std_t = z3.And(z3.Not(GRP_NONE["STANDARD"](src)), z3.Length(GRP["STANDARD"](src)) > 0)
        def bad(nm): return z3.Or(GRP_NONE[nm](src), z3.Length(GRP[nm](src)) == 0)
        yield f"only ValueError ({exc.exc})", z3.BoolVal(exc.exc == "ValueError")
        yield "ValueError only without a match, or when a mandatory group of the matched form is empty", z3.Or(z3.Not(M_OK(src)), z3.And(z3.Not(red_t), z3.Not(std_t)),
               z3.And(red_t, z3.Or(bad("CR"), bad("DR"))), z3.And(z3.Not(red_t), std_t, z3.Or(*[bad(x) for x in ("AS", "BS", "CS", "DS", "ES")])))
    o = eng.verify(O + "to_obis_tupple", Contract(init_t, post_t, raises=raises_t, fork_implicit=True))
    for x in o: x.meta.update(replay="replay_parse", strings=True)
    obls += o
    E.to_bool = _tb
    # ---- from_string / __eq__ through the contract of to_obis_tupple
    P_OK = z3.Function("obis_parse_ok", S_, B); PG_NONE = [z3.Function(f"obis_parse_{nm}_none", S_, B) for nm in "ABCDEF"]; PG = [z3.Function(f"obis_parse_{nm}", S_, I) for nm in "ABCDEF"]
    def parsed(s_):
        return tuple(SInt(PG[k](s_)) if "ABCDEF"[k] in "CD" else SOpt(PG_NONE[k](s_), PG[k](s_)) for k in range(6))
    def apply_t(e, st, args, ctx, node):
        s_ = to_str(args[0]); a = st.fork(); a.pc.append(P_OK(s_)); b = st.fork(); b.pc.append(z3.Not(P_OK(s_)))
        return [(a, parsed(s_)), (b, Raised("ValueError", "not a valid obis code"))]
    eng.contracts[O + "to_obis_tupple"] = Contract(apply=apply_t)
    other_s = z3.String("other")
    def init_eq(e):
        for shape in ("Obis", "str"):
            st = State(); g, cons = groups_state(); st.pc += cons; self_ = mk_obis(e, st, g)
            if shape == "Obis":
                h, cons2 = groups_state("2"); st.pc += cons2; yield st, [self_, mk_obis(e, st, h)], shape
            else: yield st, [self_, SStr(other_s)], shape
    def post_eq(st, args, res, old, e):
        if isinstance(args[1], Ref):
            h, _ = groups_state("2"); yield "equal exactly when all six groups are equal", to_bool(res) == groups_eq(g0, h)
        else:
            yield "comparison with a string parses the string first; False when it does not parse", to_bool(res) == z3.And(P_OK(other_s), groups_eq(g0, parsed(other_s)))
    o = eng.verify(O + "Obis.__eq__", Contract(init_eq, post_eq))
    for x in o: x.meta.update(replay="replay_eq", witness=lambda m: {**wit()(m), **wit("2")(m)})
    obls += o
    def init_fs(e):
        st = State(); yield st, [("class", O + "Obis"), SStr(other_s)]
    def post_fs(st, args, res, old, e):
        yield "from_string builds an Obis from to_obis_tupple(text)", z3.And(z3.BoolVal(isinstance(res, Ref)), P_OK(other_s), groups_eq(st.getf(res, "_groups"), parsed(other_s))) if isinstance(res, Ref) else z3.BoolVal(False)
    obls += eng.verify(O + "Obis.from_string", Contract(init_fs, post_fs, raises=lambda st, args, exc, old, e: [(f"ValueError exactly when the text does not parse ({exc.exc})", z3.And(z3.BoolVal(exc.exc == "ValueError"), z3.Not(P_OK(other_s))))]))
    # ---- the pattern: language of OBIS_PATTERN_BOTH (as used by match(): prefix) == the two specified forms
    pat = eng.consts.get("han.obis.OBIS_PATTERN_BOTH")
    if not isinstance(pat, str): raise Unsupported("OBIS_PATTERN_BOTH is not a constant string")
    try: code_re = RX.translate(pat)
    except RX.RegexUnsupported as ex: raise Unsupported(f"OBIS pattern outside the regex subset: {ex}")
    d03 = z3.Loop(z3.Range("0", "9"), 0, 3); lit = lambda t: z3.Re(z3.StringVal(t))
    std = z3.Concat(d03, lit("."), d03, lit("."), d03, lit("."), d03, lit("."), d03, lit("."), z3.Option(d03))
    red = z3.Concat(z3.Option(z3.Concat(d03, lit("-"))), z3.Option(z3.Concat(d03, lit(":"))), d03, lit("."), z3.Option(d03), z3.Option(z3.Concat(lit("."), d03)), z3.Option(z3.Concat(lit("*"), d03)))
    spec_re = z3.Concat(z3.Union(std, red), z3.Full(z3.ReSort(S_)))
    x = z3.String("text")
    obls.append(Obligation("han.obis.OBIS_PATTERN_BOTH#post:language matched by the pattern == dotted six-part form | reduced form [A-][B:]C.D[.E][*F] (groups of 0..3 digits), as a prefix", [z3.Length(x) <= 30],
                           z3.InRe(x, code_re) == z3.InRe(x, spec_re), kind="post", func=O + "to_obis_tupple", use_axioms=False, meta={"replay": "replay_pattern", "no_relaxed": True,
                           "witness": lambda m: {"text": m.eval(x, model_completion=True).as_string()}}))
    nd = z3.String("nodigitdot")
    obls.append(Obligation("lemma.no digit-dot anywhere => the pattern cannot match (so to_obis_tupple raises ValueError)", [z3.Not(z3.InRe(nd, z3.Concat(z3.Full(z3.ReSort(S_)), lit("."), z3.Full(z3.ReSort(S_)))))],
                           z3.Not(z3.InRe(nd, code_re)), kind="lemma", use_axioms=False))
    obls.append(Obligation("canary.reduced_str_ignores_zero_groups", [], reduced_str_spec(g0) == z3.Concat(its(g0[2].e), z3.StringVal("."), its(g0[3].e)), kind="canary", expect_refuted=True))
    r = PropResult(obls, eng, functions=sorted({o.func for o in obls if o.func}), derived=sorted(eng.derived), level="other",
        assumptions=["re capture groups of the OBIS pattern are abstract functions of the text (assumed contract: at most one alternative, groups are 0..3 digits); their agreement with the specified parse is checked by a bounded conformance run",
                     "hash() is a function of the tuple value", "z3 sequence theory with str.from_int / str.to_int for f-strings of ints and int(text)"],
        explanation="C20: proved from the real source: to_reduced_str == reduced_str(groups) for all groups 0..255 (string theory), to_group_cdr_str, __hash__, __eq__ (Obis and str operands), from_string, "
                    "to_obis_tupple as a function of the regex groups with its exact ValueError condition, language of the combined pattern == the two specified forms, 'no digit-dot => ValueError'. "
                    "What the capture groups are for a given text (hence 'parses into exactly those value groups' and the round trip) depends on re's priority semantics: assumed, and checked by a BOUNDED "
                    "exhaustive-by-presence-pattern enumeration on the real code; hence level 'other'.")
    b = run.rt_call("C20", "parse_roundtrip", {"seed": seed, "rand": 2000 if tier == "quick" else 40000})
    r.bounded.append(b if "name" in b else {"name": "parse_roundtrip", "error": b.get("error", b)})
    return r

def fallback(repo, tier, seed):
    from pyvc import run
    b = run.rt_call("C20", "bounded_search", {"seed": seed})
    return [b if "name" in b else {"name": "bounded_search", "error": b.get("error", b)}]
