"""Executable twins of the spec library (pure Python, no z3): used for replay on the real code and by the bounded
stand-ins, under /venv/bin/python.  Written from the property statements / standards, not from the code."""

def fcs16_bit(reg, octet):               # RFC 1662 C.2, one octet, bit by bit
    reg ^= octet
    for _ in range(8):
        reg = (reg >> 1) ^ 0x8408 if reg & 1 else reg >> 1
    return reg
def fcs_fold(a, lo=0, hi=None):
    hi = len(a) if hi is None else hi
    r = 0xFFFF
    for k in range(lo, hi): r = fcs16_bit(r, a[k])
    return r
def fcs16(a, lo=0, hi=None): return fcs_fold(a, lo, hi) ^ 0xFFFF
def first_odd(a, i, n):
    while i < n and a[i] % 2 == 0: i += 1
    return min(i, n) if i < n else n
def ctrl_pos(a, n=None):
    n = len(a) if n is None else n
    if n <= 3: return None
    e1 = first_odd(a, 2, n)
    if e1 + 1 >= n: return None
    e2 = first_odd(a, e1 + 1, n)
    return None if e2 >= n else e2 + 1
def len_field(a): return ((a[0] << 8) | a[1]) & 0x7FF
def valid_frame(a):
    n = len(a)
    if n < 2 or len_field(a) != n: return False
    f = fcs16(a, 0, n - 2)
    return a[n - 2] == (f & 0xFF) and a[n - 1] == (f >> 8)
def unstuff(raw):
    """-> (octets, pending_escape)"""
    out = bytearray(); esc = False
    for b in raw:
        if esc: out.append(b ^ 0x20); esc = False
        elif b == 0x7D: esc = True
        else: out.append(b)
    return bytes(out), esc
def crc16_arc(s):
    crc = 0
    for b in s:
        crc ^= b
        for _ in range(8): crc = (crc >> 1) ^ 0xA001 if crc & 1 else crc >> 1
    return crc
def backoff(n, cap): return 0 if n <= 0 else min(2 ** (n - 1), cap)
