"""C15 run-time side: bounded mutation fuzz of AutoDecoder on the real code (every remembered decoder), with a time limit per call."""
import random, signal, time, collections
from han import autodecoder, dlde, common
from props import cosem_spec as SP
from props.cosem_rt import ConcV, all_cases
from props.c12_rt import replay_auto

class Timeout(Exception): pass
def _alarm(sig, frm): raise Timeout()

P1_BLOCKS = [b"1-0:1.8.0(00006678.394*kWh)\r\n0-0:1.0.0(210217184019W)\r\n1-0:32.7.0(240.3*V)\r\n", b"1.8.0(1)x\r\n", b"1.8.0(5)\r\n", b"(\r\n", b"1-0:1.8.0(1\r\n", b"1-0:1.8.0(1)(2)\r\n", b"0-0:1.0.0(21)\r\n",
             b"1-0:1.8.0(inf*kWh)\r\n", b"1-0:1.8.0(1e999*kWh)\r\n", b"1-0:1.8.0(nan*kWh)\r\n", b"1-0:1.8.0(1*2*3)\r\n", b"abc(1)def(2)\r\n", b"1-0:1.8.0()\r\n", b"1-0:1.8.0(*kWh)\r\n", b")(\r\n", b"1.8.0(1))\r\n", b"x(1)(\r\n",
             # magnitudes at the edge of the float range: finite as written, not after scaling to W / Wh (and the other way round)
             b"1-0:1.8.0(1.5e+307*kWh)\r\n", b"1-0:1.8.0(-9e307*kW)\r\n", b"1-0:1.8.0(1.7976931348623157e308*kvarh)\r\n", b"1-0:32.7.0(1e308*V)\r\n", b"1-0:1.8.0(1e-320*kWh)\r\n", b"1-0:1.8.0(-inf*kvar)\r\n"]
def pool(rnd):
    msgs = []
    for label, build in all_cases().items():
        V = ConcV(rnd); module, func, octs, exp = build(V); msgs.append(bytes(octs))
    return msgs + P1_BLOCKS
def tokens(m):
    """COSEM list octets cut at the type tags (array / structure headers, strings with their length, fixed-width numbers, null-data); unknown octets are single tokens"""
    out = []; i = 0; n = len(m)
    while i < n:
        t = m[i]
        if t in (0x01, 0x02): w = 2
        elif t in (0x09, 0x0A): w = 2 + (m[i + 1] if i + 1 < n else 0)
        elif t in (0x05, 0x06): w = 5
        elif t in (0x10, 0x12): w = 3
        elif t in (0x0F, 0x11, 0x16, 0x03): w = 2
        else: w = 1
        out.append(bytes(m[i:i + w])); i += w
    return out
def mutate_typed(rnd, m):
    """re-encode one element with another type / delete / duplicate an element (the octets stay a syntactically plausible list)"""
    skip = 8 if m[:3] == b"\xe6\xe7\x00" else 0
    toks = tokens(m[skip:])
    if not toks: return bytes(m)
    k = rnd.randrange(len(toks)); c = rnd.random()
    new = [bytes([0x06]) + bytes(rnd.randrange(256) for _ in range(4)), bytes([0x12, rnd.randrange(256), rnd.randrange(256)]), bytes([0x10, 0xFF, 0xFE]), bytes([0x0F, rnd.randrange(256)]), bytes([0x16, 0x1B]), b"\x00",
           b"\x09\x0c" + bytes([0x07, 0xE4, 1, 1, 3, 0, 0, 0, 0xFF, 0x80, 0, 0]), b"\x09\x06" + bytes([1, 1, 96, 1, 1, 255]), b"\x0a\x03abc", b"\x09\x02hi", b"\x02\x02", b"\x01\x01"]
    if c < 0.6: toks[k] = rnd.choice(new)
    elif c < 0.75: del toks[k]
    elif c < 0.9: toks.insert(k, toks[k])
    else: toks[k] = rnd.choice(new) + rnd.choice(new)
    return bytes(m[:skip]) + b"".join(toks)
def mutate(rnd, m):
    if len(m) > 4 and m[0] in (0x01, 0x02, 0xE6) and rnd.random() < 0.35: return mutate_typed(rnd, m)
    m = bytearray(m); c = rnd.random()
    if not m: return bytes(m)
    if c < 0.25: return bytes(m[:rnd.randrange(len(m) + 1)])
    for _ in range(rnd.randrange(1, 6)):
        i = rnd.randrange(len(m)); k = rnd.random()
        if k < 0.4: m[i] = rnd.choice([0, 1, 2, 6, 9, 10, 12, 15, 16, 18, 22, 0xFF, 0x28, 0x29, 0x2A])
        elif k < 0.7: m[i] = rnd.randrange(256)
        elif k < 0.85: del m[i]
        else: m.insert(i, rnd.choice([0, 9, 6, 0xFF, 0x28]))
        if not m: break
    return bytes(m)

def call(prev, payload, limit=2):
    d = autodecoder.AutoDecoder(); d._AutoDecoder__previous_success = prev
    signal.signal(signal.SIGALRM, _alarm); signal.alarm(limit)
    try:
        t = time.time(); r = d.decode_message_payload(payload); dt = time.time() - t
        if r is not None and not isinstance(r, dict): return f"returned {type(r).__name__}"
        m = common.DlmsMessage(payload); d2 = autodecoder.AutoDecoder(); d2._AutoDecoder__previous_success = prev
        r2 = d2.decode_message(m)
        if r2 is not None and not isinstance(r2, dict): return f"decode_message returned {type(r2).__name__}"
        return None
    except Timeout: return f"did not finish within {limit} s"
    except Exception as ex: return f"raised {type(ex).__name__}: {str(ex)[:80]}"
    finally: signal.alarm(0)

SWEEP_REPL = [b"\x06\x00\x01\x86\xa0", b"\x12\x01\x02", b"\x00", b"\x09\x0c" + bytes([0x07, 0xE4, 1, 1, 3, 0, 0, 0, 0xFF, 0x80, 0, 0]), b"\x09\x06" + bytes([1, 1, 96, 1, 1, 255]), b"\x0a\x03abc"]
def _sweep_one(m):
    """every element of one genuine message re-encoded as each of six other element kinds, under every remembered decoder"""
    skip = 8 if m[:3] == b"\xe6\xe7\x00" else 0; toks = tokens(m[skip:]); N = len(autodecoder.AutoDecoder.payload_decoder_functions); out = []; ev = 0
    for k in range(len(toks)):
        for r in SWEEP_REPL:
            if toks[k] == r: continue
            payload = bytes(m[:skip]) + b"".join(toks[:k] + [r] + toks[k + 1:])
            for prev in [None] + list(range(N)):
                ev += 1; w = call(prev, payload)
                if w: out.append({"payload": payload.hex(), "remembered_decoder": prev, "what": w})
            if len(out) >= 3: return ev, out
    return ev, out
def typed_sweep(base):
    import multiprocessing as mp
    cos = [m for m in base if len(m) > 4 and m[0] in (0x01, 0x02, 0xE6)]
    with mp.get_context("fork").Pool(min(14, max(1, len(cos)))) as pool_: res = pool_.map(_sweep_one, cos, chunksize=1)
    return sum(e for e, _ in res), [b for _, o in res for b in o], len(cos)

def fuzz(p):
    rnd = random.Random(p.get("seed", 0)); n = p.get("n", 3000); bad = []; ev = 0; kinds = collections.Counter()
    base = pool(rnd); N = len(autodecoder.AutoDecoder.payload_decoder_functions)
    cands = list(base)
    for _ in range(n): cands.append(mutate(rnd, rnd.choice(base)))
    for _ in range(n // 10): cands.append(bytes(rnd.randrange(256) for _ in range(rnd.randrange(0, 40))))
    seen = set(); t_start = time.time()
    for payload in cands:
        if bad and (sum(kinds.values()) >= 40 or time.time() - t_start > 90): break          # enough evidence: do not sit through hundreds of 2 s time-outs
        prevs = [None] + list(range(N)) if len(seen) < 400 else [rnd.choice([None] + list(range(N)))]
        seen.add(payload)
        for prev in prevs:
            ev += 1; r = call(prev, payload)
            if r:
                key = r.split(":")[0]
                if kinds[key] < 1: bad.append({"payload": payload.hex() if not payload.isascii() else payload.decode("latin1"), "remembered_decoder": prev, "what": r})
                kinds[key] += 1
    sweep_note = ""
    if p.get("sweep", True):
        ev2, bad2, nmsg = typed_sweep(base); ev += ev2
        for b in bad2:
            key = b["what"].split(":")[0]
            if kinds[key] < 1: bad.append(b)
            kinds[key] += 1
        sweep_note = f"; systematic sweep: every element of {nmsg} genuine messages re-encoded as 6 other element kinds x all remembered decoders"
    return {"name": "mutation fuzz of AutoDecoder.decode_message_payload / decode_message on the real code", "bound": sweep_note.lstrip("; ") + " + " + f"{len(cands)} payloads (genuine messages of every layout, {n} mutations, random bytes, P1 fragments) x remembered decoder (all 8 for the first 400, random afterwards), 2 s per call",
            "evaluations": ev, "distinct_nontrivial": len(seen), "violations": bad[:8], "violation_kinds": dict(kinds)}

def replay_p1text(p):
    r = fuzz({"n": 600, "seed": 3, "sweep": False})
    if r["violations"]: return {"violated": True, "detail": r["violations"][0], "found_by": "bounded fuzz"}
    return {"violated": False, "inconclusive": True}
