"""C13 — Protocols forward exactly the selected reader's messages, payloads only if valid."""
from props import hdlc_model as M, proto_model as PM
from pyvc import run

def build(repo, tier, seed):
    r = M.groups_result([("protocol", PM.group_protocol, (repo,))])
    r.functions = [PM.MC + x for x in ("SmartMeterBaseProtocol.data_received", "SmartMeterMessageProtocol.message_received", "SmartMeterMessagePayloadProtocol.message_received")]
    r.assumptions = ["readers and messages are abstract objects: read(data) returns a list of messages, a message has is_valid / payload / as_bytes without side effects on the protocol",
                     "asyncio.Queue.put_nowait appends to an unbounded queue (ghost sequence)", "reader objects are truthy (MeterReaderBase defines neither __bool__ nor __len__)",
                     "candidate lists of 0..3 readers are enumerated (the property's configurations have at most two); message lists have any length"]
    r.not_decided = ["last sentence of C13 (on a clean stream every payload arrives, whichever candidate order): with a single candidate it is C02 / C05 plus the contract above; with two candidates it also needs 'the other "
                     "reader yields no valid message first', which is FALSE for a frame whose payload is a complete valid P1 readout (known finding, reported below) and is otherwise only checked by the bounded run on the real readers"]
    r.explanation = ("C13: per-call contract of data_received with a ghost queue: selected reader -> queue' = queue ++ forwarded(read(data)); otherwise every candidate is fed once in list order until one "
                     "returns a valid message, that reader is selected, the candidate list cleared, all messages of that call forwarded, later candidates not fed; no selection -> queue unchanged. "
                     "message_received of the payload protocol forwards exactly valid messages with non-empty payload (the payload), the message protocol every message. By induction over calls (the "
                     "contract is the step) the queue holds exactly the forwarded messages of the selected reader from the selecting call on, in order, without loss or duplication.")
    b = run.rt_call("C13", "clean_stream_selection", {"seed": seed, "n": 90 if tier == "quick" else 3000})
    r.bounded.append(b if "name" in b else {"name": "clean_stream_selection", "error": b.get("error", b)})
    b = run.rt_call("C13", "selection_known_finding", {})
    r.bounded.append(b if "name" in b else {"name": "selection_known_finding", "error": b.get("error", b)})
    return r

def fallback(repo, tier, seed):
    b = run.rt_call("C13", "bounded_search", {"seed": seed})
    return [b if "name" in b else {"name": "bounded_search", "error": b.get("error", b)}]
