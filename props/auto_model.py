"""AutoDecoder contracts (C12 selection rule, C15 'dict or None, nothing escapes' for the loop).  The seven decoders are abstract:
on a given payload decoder k either returns a dictionary DV[k], or rejects with ConstructError / ValueError (C15's obligations on the
decoders themselves are what excludes other exceptions)."""
import ast, z3
from pyvc.engine import *

A = "han.autodecoder.AutoDecoder"
I = z3.IntSort()
OUT = z3.Array("outcome", I, I)      # 0 returns, 1 ConstructError, 2 ValueError   (a function of the payload)
DV = z3.Array("dictof", I, I)        # stand-in for the dictionary decoder k returns
OUT_R = z3.Int("outcome_p1_readout"); DV_R = z3.Int("dictof_p1_readout")   # dlde.decode_p1_readout(readout)
EMPTY = z3.Function("dict_is_empty", I, z3.BoolSort())   # a decoder may accept a payload and return an empty dictionary (the P1 decoder does for blocks without single-valued data sets)

class ADict:
    """the dictionary a decoder returned: an abstract identity; truthiness = not empty; never None"""
    def __init__(s, ident): s.ident = ident

def mk_engine(repo):
    eng = Engine({"han.common": f"{repo}/han/common.py", "han.autodecoder": f"{repo}/han/autodecoder.py"})
    eng.exc_parents["construct.ConstructError"] = "Exception"
    import pyvc.engine as E
    if not getattr(E, "_adict_patched", False):
        _tb = E.to_bool
        def to_bool2(v):
            if isinstance(v, ADict): return z3.Not(EMPTY(v.ident))
            return _tb(v)
        E.to_bool = to_bool2; E._adict_patched = True
    return eng

def table(eng):
    T = eng.consts.get(A + ".payload_decoder_functions")
    if not isinstance(T, list) or not all(isinstance(x, tuple) and len(x) == 2 and isinstance(x[0], str) and isinstance(x[1], tuple) and x[1][0] == "pyattr" for x in T):
        raise Unsupported("payload_decoder_functions is not a literal list of (name, module.function) pairs")
    return T

REJ = ("construct.ConstructError", "ValueError")      # a rejecting decoder raises one of these (one path, both classes offered to every handler)
def install_decoders(eng, T):
    for k, (name, (_, dotted)) in enumerate(T):
        def dec(e, st, args, kw, ctx, node, k=k):
            a = st.fork(); a.pc.append(OUT[k] == 0); b = st.fork(); b.pc.append(OUT[k] != 0)
            return [(x, y) for x, y in ((a, ADict(DV[k])), (b, Raised(REJ, f"decoder {k}", {REJ[0]: OUT[k] == 1, REJ[1]: OUT[k] == 2}))) if e.feasible(x)]
        eng.py_calls[dotted] = dec
    def dec_r(e, st, args, kw, ctx, node):
        a = st.fork(); a.pc.append(OUT_R == 0); b = st.fork(); b.pc.append(OUT_R != 0)
        return [(x, y) for x, y in ((a, ADict(DV_R)), (b, Raised(REJ, "decode_p1_readout", {REJ[0]: OUT_R == 1, REJ[1]: OUT_R == 2}))) if e.feasible(x)]
    eng.py_calls["han.dlde.decode_p1_readout"] = dec_r

def selection_post(N, isn0, pv0, res, new, out_of, dv_of):
    """the statement of C12 for one call"""
    start = z3.If(isn0, 0, pv0)
    new_isn = is_none_z3(new); new_val = int_nochk(new)
    allrej = z3.And(*[out_of(k) != 0 for k in range(N)])
    if res is None:
        return [("None only if every decoder rejects the payload", allrej),
                ("previous_success_decoder unchanged by a payload nobody accepts", z3.And(new_isn == isn0, z3.Implies(z3.Not(isn0), new_val == pv0)))]
    # taken from the statement: the result is that of *a* decoder that accepts the payload, and that decoder is the one remembered;
    # the most recently successful decoder is used whenever it accepts (no particular try-order is demanded for the others)
    rid = res.ident if isinstance(res, ADict) else None
    if rid is None: return [("result is a dictionary returned by a decoder", z3.BoolVal(False))]
    some = z3.Or(*[z3.And(out_of(k) == 0, rid == dv_of(k), z3.Not(new_isn), new_val == k) for k in range(N)])
    return [("result is the dictionary of a decoder that accepts the payload, and previous_success_decoder names that decoder", some),
            ("the most recently successful decoder wins whenever it accepts", z3.And(*[z3.Implies(z3.And(z3.Not(isn0), pv0 == k, out_of(k) == 0), z3.And(rid == dv_of(k), new_val == k)) for k in range(N)]))]

def autodecoder_obligations(eng):
    T = table(eng); N = len(T); install_decoders(eng, T)
    obls = []
    isn = z3.Bool("prev_none"); pv = z3.Int("prev")
    def b_isinstance(e, st, args, kw, ctx, node):
        v, cl = args
        if v is None: return [(st, False)]
        if isinstance(v, tuple) and v and v[0] == "amsg": return [(st, bool(v[2]) and cl == ("pyattr", "han.dlde.DataReadout"))]
        return None
    eng.py_calls["builtins.isinstance"] = b_isinstance
    F = "_AutoDecoder__previous_success"
    PREVS = [None] + list(range(N))      # the class invariant (None or 0 <= index < N), enumerated
    def mk(st, prev="sym"):
        st.pc += [z3.And(OUT[k] >= 0, OUT[k] <= 2) for k in range(N)] + [OUT_R >= 0, OUT_R <= 2]
        if prev == "sym":
            st.pc += [z3.Implies(z3.Not(isn), z3.And(pv >= 0, pv < N))]; return st.new_obj(A, {F: SOpt(isn, pv)})
        st.pc += [isn == z3.BoolVal(prev is None), pv == (prev if prev is not None else 0)]
        return st.new_obj(A, {F: prev})
    MSG_VALID = z3.Bool("msg_valid")
    wit = lambda m: {"msg_valid": z3.is_true(m.eval(MSG_VALID, model_completion=True)), "prev": None if z3.is_true(m.eval(isn, model_completion=True)) else m.eval(pv, model_completion=True).as_long(),
                     "outcomes": [m.eval(OUT[k], model_completion=True).as_long() for k in range(N)], "outcome_readout": m.eval(OUT_R, model_completion=True).as_long(),
                     "empty": [z3.is_true(m.eval(EMPTY(DV[k]), model_completion=True)) for k in range(N)], "empty_readout": z3.is_true(m.eval(EMPTY(DV_R), model_completion=True))}
    # __init__
    def init_init(e):
        st = State(); yield st, [st.new_obj(A, {})]
    obls += eng.verify(A + ".__init__", Contract(init_init, lambda st, args, res, old, e: [("fresh decoder remembers nothing", z3.BoolVal(st.getf(args[0], F) is None))]))
    # previous_success_decoder
    def init_p(e):
        st = State(); yield st, [mk(st)]
    def post_psd(st, args, res, old, e):
        if res is None: yield "None iff nothing remembered", isn
        else: yield "name of the remembered table entry", z3.And(z3.Not(isn), z3.Or(*[z3.And(pv == k, z3.BoolVal(res == T[k][0])) for k in range(N)]))
    o = eng.verify(A + ".previous_success_decoder", Contract(init_p, post_psd)); obls += o
    # decode_message_payload
    def init_dmp(e):
        for prev in PREVS:
            st = State(); ref = mk(st, prev); yield st, [ref, SBytes(z3.Const("payload", BYTE_ARR), z3.Int("plen"))], f"remembered={prev}"
    def post_dmp(st, args, res, old, e):
        yield from selection_post(N, isn, pv, res, st.getf(args[0], F), lambda k: OUT[k], lambda k: DV[k])
        yield "class invariant: remembered index in range", z3.Implies(z3.Not(is_none_z3(st.getf(args[0], F))), z3.And(int_nochk(st.getf(args[0], F)) >= 0, int_nochk(st.getf(args[0], F)) < N))
    def raises_any(st, args, exc, old, e):
        yield f"C15 nothing escapes the decoder loop ({exc.exc})", z3.BoolVal(False)
    o = eng.verify(A + ".decode_message_payload", Contract(init_dmp, post_dmp, raises=raises_any))
    for x in o: x.meta.update(replay="replay_auto", witness=wit)
    obls += o
    # decode_message: abstract message (payload None / empty / non-empty), DataReadout or not
    p1_index = [k for k, (nm, _) in enumerate(T) if nm == "P1"]
    def getattr_hook(st, base, attr, ctx, node):
        if isinstance(base, tuple) and base and base[0] == "amsg" and attr == "payload": return [(st, base[1])]
        # the statement is about every message object: whether the message reports itself valid is arbitrary (one value per message; is_valid is a pure property)
        if isinstance(base, tuple) and base and base[0] == "amsg" and attr == "is_valid": return [(st, SBool(MSG_VALID))]
        return None
    eng.getattr_hook = getattr_hook
    for shape, payload_of, is_readout in (("payload None", lambda: None, False), ("payload empty", lambda: SBytes(z3.Const("payload", BYTE_ARR), 0), False),
                                          ("frame or DLMS message", lambda: "nonempty", False), ("P1 readout", lambda: "nonempty", True)):
        def init_dm(e, payload_of=payload_of, is_readout=is_readout, shape=shape):
            for prev in PREVS:
                st = State(); ref = mk(st, prev); pl = payload_of()
                if pl == "nonempty":
                    n = z3.Int("plen"); st.pc.append(n >= 1); pl = SBytes(z3.Const("payload", BYTE_ARR), n)
                yield st, [ref, ("amsg", pl, is_readout)], f"{shape},remembered={prev}"
        def post_dm(st, args, res, old, e, shape=shape, is_readout=is_readout):
            new = st.getf(args[0], F)
            if shape in ("payload None", "payload empty"):
                yield "None for a message without payload", z3.BoolVal(res is None)
                yield "previous_success_decoder unchanged", z3.And(is_none_z3(new) == isn, z3.Implies(z3.Not(isn), int_nochk(new) == pv))
                return
            # same rule as decode_message_payload(message.payload); for a P1 readout the 'P1' entry decodes the whole readout
            out_of = (lambda k: OUT_R if (is_readout and k in p1_index) else OUT[k]); dv_of = (lambda k: DV_R if (is_readout and k in p1_index) else DV[k])
            yield from selection_post(N, isn, pv, res, new, out_of, dv_of)
        o = eng.verify(A + ".decode_message", Contract(init_dm, post_dm, raises=raises_any))
        for x in o: x.meta.update(replay="replay_auto", witness=wit)
        obls += o
    obls.append(Obligation("canary.first_decoder_always_wins", [z3.Not(isn), pv == 2, OUT[2] == 0, OUT[0] == 0], DV[0] == DV[2], kind="canary", expect_refuted=True))
    for k in range(N): pass
    return obls, T

def group_auto(repo):
    eng = mk_engine(repo); obls, T = autodecoder_obligations(eng)
    return eng, obls, {"table": [t[0] for t in T]}
