"""C16 (HDLC, octet stuffing): resynchronisation after arbitrary bytes, as a lemma over the two contracts of read() that C06 and C02 prove.

C06 (props/ideal_hdlc.py): after any input the reader's state is the ideal receiver's state at the stream position (ghost functions ideal_* with the recurrence IDEAL(p)).
C02 (props/clean_hdlc.py): from STATE(g) on - in a frame whose array / length / pending escape are the ideal un-stuffer's (ideal_frame, ideal_len, ideal_esc of the clean
stream description CLEAN(p)) - every well-formed frame is returned exactly once, in order.
This lemma connects them.  The stream is arbitrary up to a flag at F0 and clean from F0 on (flags and well-formed stuffed frames).  Whatever the ideal receiver holds at F0:
  RESYNC(p)  :=  hunting(p)  or  (in a frame, same length and pending escape as the un-stuffer, and the frame octets so far equal the ideal frame's, octet by octet)
holds at F0+1 (base), is preserved by every octet that is not a closing flag (step), and at the first closing flag E1 it yields a *new empty frame* at E1+1 (final) -
which is STATE(E1+1) of C02, with the array named after the position.  So every frame after the first one is delivered; the first one may be lost (reader hunting through it)
or delivered (not claimed valid: its octets sit in an array that predates the clean part).  The induction over the positions between F0 and E1 is the usual rule applied to
the three obligations.  The same three obligations, read at any later discarded / aborted / invalid frame, give "a bad frame never corrupts the frame after the next flag".
"""
import z3
from pyvc.engine import *
from pyvc import speclib as S
from props.hdlc_model import G, I, NEWARR, cfg_label
from props import ideal_hdlc as ID, clean_hdlc as CL

def first_odd_ext_lemma():
    """first_odd (and hence ctrl_pos) depends only on the octets below the length: induction on the start index"""
    a = z3.Const("a__fx", BYTE_ARR); b = z3.Const("b__fx", BYTE_ARR); i, n = z3.Ints("i__fx n__fx")
    K = lambda i_: S.FO(a, i_, n) == S.FO(b, i_, n)
    obls = [Obligation("lemma.first_odd_depends_on_prefix#base", [i >= n], K(i), use_axioms=False, kind="lemma"),
            Obligation("lemma.first_odd_depends_on_prefix#step", [i < n, a[i] == b[i], K(i + 1)], K(i), use_axioms=False, kind="lemma")]
    e1 = S.FO(b, 2, n)
    obls.append(Obligation("lemma.ctrl_pos_depends_on_prefix: from the two instances of first_odd_depends_on_prefix", [S.FO(a, 2, n) == e1, S.FO(a, e1 + 1, n) == S.FO(b, e1 + 1, n)], S.CP(a, n) == S.CP(b, n), use_axioms=False, kind="lemma"))
    obls.append(Obligation("lemma.len_field_depends_on_two_octets", [a[0] == b[0], a[1] == b[1]], S.len_field(a) == S.len_field(b), use_axioms=False, kind="lemma"))
    return obls

def resync_obligations(cfg):
    stuffing, abort = cfg; assert stuffing
    CL.STUFFING[0] = True; lab = cfg_label(cfg, True).rsplit(",", 1)[0]
    p = z3.Int("p__rs"); k = z3.Int("k__rs"); F0, TEND = CL.F0, CL.TEND
    HUNT, FN, FE, FA = ID.HUNT, ID.FN, ID.FE, ID.FA; QN, QE, WA = CL.QN, CL.QE, CL.WA
    def pointwise(q): return z3.ForAll([k], z3.Implies(z3.And(0 <= k, k < FN(q)), FA(q)[k] == WA(q)[k]))
    def resync(q):
        return z3.Or(HUNT(q), z3.And(z3.Not(HUNT(q)), FN(q) == QN(q), FE(q) == QE(q), pointwise(q)))
    base_facts = [F0 >= 0, G[F0] == 0x7E, QN(F0 + 1) == 0, z3.Not(QE(F0 + 1)), NEWARR(F0 + 1) == WA(F0 + 1), F0 + 1 < TEND]
    obls = []
    # base: whatever the receiver holds at the flag F0, RESYNC holds right after it
    obls.append(Obligation(f"lemma.resync#base[{lab}]: after the first flag of the clean part the receiver hunts, or holds an empty frame", base_facts + [ID.ideal_at(F0, cfg)], resync(F0 + 1), use_axioms=False, kind="lemma"))
    # step: an octet that is not a closing flag keeps RESYNC
    hyp = base_facts + [p > F0, p < TEND, ID.ideal_at(p, cfg), CL.clean_at(p, abort), CL.clean_at(p - 1, abort), resync(p), z3.Not(CL.is_cf(p))]
    obls.append(Obligation(f"lemma.resync#step[{lab}]: preserved by every octet of the clean part that is not a closing flag", hyp, resync(p + 1), use_axioms=False, kind="lemma"))
    # final: at a closing flag the receiver ends up with a new empty frame named after the position: STATE(p+1) of the clean-stream contract
    n = FN(p); e1a = S.FO(FA(p), 2, n); e1w = S.FO(WA(p), 2, n)
    # instances of lemma first_odd_depends_on_prefix (start indexes 2 and e1+1), with the premise in the form the invariant provides it (octets equal on the whole range 0..n)
    ext = [z3.Implies(pointwise(p), z3.And(e1a == e1w, S.FO(FA(p), e1w + 1, n) == S.FO(WA(p), e1w + 1, n)))]
    hyp = base_facts + [p > F0, p < TEND, ID.ideal_at(p, cfg), CL.clean_at(p, abort), CL.clean_at(p - 1, abort), resync(p), CL.is_cf(p)] + ext
    clean_state = z3.And(z3.Not(HUNT(p + 1)), FA(p + 1) == WA(p + 1), FN(p + 1) == QN(p + 1), FE(p + 1) == QE(p + 1))
    obls.append(Obligation(f"lemma.resync#final[{lab}]: the first closing flag leaves a new empty frame: the clean-stream contract's STATE holds from there on", hyp, clean_state, use_axioms=False, kind="lemma"))
    # must-fail: the first frame itself need not be delivered (the receiver may be hunting through it)
    obls.append(Obligation(f"canary.resync_first_frame_always_delivered[{lab}]", hyp, ID.completes(p, cfg), kind="canary", expect_refuted=True, use_axioms=False,
                           meta={"refute_bound": lambda K: [p <= K + 3, F0 <= K, TEND <= 2 * K + 8]}))
    return obls

def resync_unstuffed_obligations(cfg):
    """without octet stuffing a flag inside a frame is data, so after noise the receiver may swallow the following (flag-free) frames as data - but only until its frame is
    2047 octets long.  GARBAGE(p): in a frame with at least p - F0 octets.  TRACK(p): in a frame with the un-stuffer's length and the ideal frame's octets so far (octet by
    octet).  RESYNC2(p) := hunting or TRACK or GARBAGE.  It holds at F0+1, is preserved by every octet of the clean part, GARBAGE is impossible from F0 + 2048 on, and TRACK
    at a closing flag completes the frame with the octets that were sent and leaves a new empty frame (STATE of the clean-stream contract)."""
    stuffing, abort = cfg; assert not stuffing
    CL.STUFFING[0] = False; lab = cfg_label(cfg, True).rsplit(",", 1)[0]
    p = z3.Int("p__r2"); k = z3.Int("k__r2"); F0, TEND = CL.F0, CL.TEND
    HUNT, FN, FE, FA = ID.HUNT, ID.FN, ID.FE, ID.FA; QN, QE, WA = CL.QN, CL.QE, CL.WA
    def pointwise(q): return z3.ForAll([k], z3.Implies(z3.And(0 <= k, k < FN(q)), FA(q)[k] == WA(q)[k]))
    track = lambda q: z3.And(z3.Not(HUNT(q)), FN(q) == QN(q), FE(q) == QE(q), pointwise(q))
    garbage = lambda q: z3.And(z3.Not(HUNT(q)), FN(q) >= q - F0)
    r2 = lambda q: z3.Or(HUNT(q), track(q), garbage(q))
    flagfree = lambda q: z3.Implies(G[q] == 0x7E, z3.Or(QN(q) == 0, CL.is_cf(q)))          # domain of C16 without stuffing: flag-free frames (every flag is a delimiter)
    base_facts = [F0 >= 0, G[F0] == 0x7E, QN(F0 + 1) == 0, z3.Not(QE(F0 + 1)), NEWARR(F0 + 1) == WA(F0 + 1), F0 + 1 < TEND]
    n = FN(p); e1w = S.FO(WA(p), 2, n)
    # instances of lemma first_odd_depends_on_prefix (start indexes 2 and e1+1) and of the invariant's octet equality at 0 and 1 (the length field)
    ext = [z3.Implies(pointwise(p), z3.And(S.FO(FA(p), 2, n) == e1w, S.FO(FA(p), e1w + 1, n) == S.FO(WA(p), e1w + 1, n), S.CP(FA(p), n) == S.CP(WA(p), n))),
           z3.Implies(z3.And(pointwise(p), n >= 2), z3.And(FA(p)[0] == WA(p)[0], FA(p)[1] == WA(p)[1], S.len_field(FA(p)) == S.len_field(WA(p))))]
    step_hyp = base_facts + [p > F0, p < TEND, ID.ideal_at(p, cfg), CL.clean_at(p, abort), CL.clean_at(p - 1, abort), flagfree(p)] + ext
    obls = [Obligation(f"lemma.resync#base[{lab}]: after the first flag of the clean part the receiver hunts, tracks the stream, or is inside a frame of its own", base_facts + [ID.ideal_at(F0, cfg)], r2(F0 + 1), use_axioms=False, kind="lemma"),
            Obligation(f"lemma.resync#step[{lab}][hunting]: preserved by every octet of the clean part", step_hyp + [HUNT(p)], r2(p + 1), use_axioms=False, kind="lemma"),
            Obligation(f"lemma.resync#step[{lab}][garbage]: preserved by every octet of the clean part", step_hyp + [garbage(p)], r2(p + 1), use_axioms=False, kind="lemma"),
            Obligation(f"lemma.resync#step[{lab}][tracking, data octet]: preserved by every octet of the clean part", step_hyp + [track(p), G[p] != 0x7E], z3.Or(HUNT(p + 1), track(p + 1)), use_axioms=False, kind="lemma"),
            Obligation(f"lemma.resync#step[{lab}][tracking, fill flag]: preserved by every octet of the clean part", step_hyp + [track(p), G[p] == 0x7E, z3.Not(CL.is_cf(p))], track(p + 1), use_axioms=False, kind="lemma"),
            Obligation(f"lemma.resync#bound[{lab}]: 2048 octets after the noise the receiver hunts or tracks the stream (its own frame would be longer than 2047 octets)",
                       base_facts + [p >= F0 + 2048, p <= TEND, r2(p), z3.Implies(z3.Not(HUNT(p)), FN(p) <= 2047)], z3.Or(HUNT(p), track(p)), use_axioms=False, kind="lemma"),
            Obligation(f"lemma.resync#bounded_frame[{lab}]: a frame of the ideal receiver never holds more than 2047 octets (one step of the definition)",
                       [p >= 1, ID.ideal_at(p - 1, cfg), z3.Implies(z3.Not(HUNT(p - 1)), z3.And(FN(p - 1) >= 0, FN(p - 1) <= 2047))], z3.Implies(z3.Not(HUNT(p)), z3.And(FN(p) >= 0, FN(p) <= 2047)), use_axioms=False, kind="lemma"),
            Obligation(f"lemma.resync#delivery[{lab}]: tracking at a closing flag completes the frame (with the octets that were sent) and leaves a new empty frame: STATE of the clean-stream contract",
                       # track(p) is assumed here, so the lemma instances are added with their premise (octets equal below the length) already discharged
                       step_hyp + [track(p), CL.is_cf(p), S.FO(FA(p), 2, n) == e1w, S.FO(FA(p), e1w + 1, n) == S.FO(WA(p), e1w + 1, n), S.CP(FA(p), n) == S.CP(WA(p), n),
                                   z3.Implies(n >= 2, z3.And(FA(p)[0] == WA(p)[0], FA(p)[1] == WA(p)[1], S.len_field(FA(p)) == S.len_field(WA(p))))], z3.And(ID.completes(p, cfg), z3.Not(HUNT(p + 1)), FA(p + 1) == WA(p + 1), FN(p + 1) == QN(p + 1), FE(p + 1) == QE(p + 1)), use_axioms=False, kind="lemma"),
            Obligation(f"lemma.resync#restart[{lab}]: hunting at a delimiter flag starts a frame that tracks the stream", step_hyp + [HUNT(p), G[p] == 0x7E], z3.And(track(p + 1), FN(p + 1) == 0), use_axioms=False, kind="lemma"),
            Obligation(f"canary.resync_immediately[{lab}]", step_hyp + [r2(p)], z3.Or(HUNT(p + 1), track(p + 1)), kind="canary", expect_refuted=True, use_axioms=False,
                       meta={"refute_bound": lambda K: [p <= K + 3, F0 <= K, TEND <= 2 * K + 8]})]
    return obls


def group_resync(repo, cfg):
    eng = Engine({})
    return eng, first_odd_ext_lemma() + (resync_obligations(cfg) if cfg[0] else resync_unstuffed_obligations(cfg)), {}
