"""C18 — Reconnect pacing follows capped exponential back-off and the loss breaker (strategy object and sequential contracts;
manager-level timing under task scheduling is not decided by this family)."""
import z3
from pyvc.engine import *
from pyvc import speclib as S
from pyvc.run import PropResult

MC = "han.meter_connection."; EB = MC + "ExponentialBackOff"; CM = MC + "ConnectionManager"
I = z3.IntSort()

def inv_delay(delay, n):
    return z3.And(n >= 0, delay == z3.If(n == 0, 0, S.POW2(n - 1)))

def build(repo, tier, seed):
    from pyvc import run
    try:
        r = deductive(repo, tier, seed)
    except (Unsupported, KeyError) as ex:
        # e.g. the strategy object keeps its state in other fields than the representation invariant below talks about: the contracts do not
        # apply as written; the bounded enumeration of call sequences on the real object still runs and any violation it finds is reported
        r = PropResult([], undecided=[("deductive", f"contracts not applicable to this source ({type(ex).__name__}: {ex}); only the bounded enumeration ran")])
    bb = run.rt_call("C18", "backoff_sequences", {"seed": seed, "maxlen": 12 if tier == "quick" else 14})
    r.bounded.append(bb if "name" in bb else {"name": "backoff_sequences", "error": bb.get("error", bb)})
    # the manager-level timing (which the per-call contracts do not decide) on a virtual clock: bounded, labelled as such
    bb = run.rt_call("C18", "manager_virtual_time", {"seed": seed, "maxlen": 6 if tier == "quick" else 8})
    r.bounded.append(bb if "name" in bb else {"name": "manager_virtual_time", "error": bb.get("error", bb)})
    return r

LOOP_FN = CM + ".connect_loop"

def connect_loop_contract(eng, mk_mgr, getattr_hook, mark):
    """connect_loop read sequentially (one task; at every await the only state another task changes is the closing event and what the
    started _try_connect does through its own contract). Loop contract, per iteration:
      L1 _try_connect is started exactly once and before anything else that touches pacing state
      L2 _update_connection_lost_circuit_breaker runs iff the attempt left a connection and closing was not observed after waiting for its end; then once
      L3 the loop itself never calls failure()/reset()/sleep()/the factory and never writes a pacing field (frame)
      L4 no connection is held at the loop head and at exit; L5 the closing event is cleared on exit"""
    PACING = ("back_off_connect_error", "connection_lost_back_off_sleep_sec", "connection_lost_back_off_threshold")
    BREAKER = ("_connection_lost_sleep_before_reconnect", "_connection_lost_last_time")
    def ev(st, x): st.ghost["calls"] = st.ghost.get("calls", ()) + (x,)
    def apply_try(e, st, args, ctx, node):
        ev(st, "try_connect")
        ok = st.fork(); proto = ok.new_obj("$protocol", {"done": ("future", "done")}); ok.setf(args[0], "_connection", (("transport",), proto)); ok.ghost["conn"] = True
        no = st.fork(); no.setf(args[0], "_connection", None); no.ghost["conn"] = False
        return [(ok, ("coro", "try_connect")), (no, ("coro", "try_connect"))]
    def apply_upd(e, st, args, ctx, node):
        ev(st, "update"); st.setf(args[0], "_connection_lost_sleep_before_reconnect", SBool(fresh("breaker2", z3.BoolSort())))
        st.setf(args[0], "_connection_lost_last_time", ("instant", fresh("now2", z3.RealSort()))); return [(st, None)]
    saved = {k: eng.contracts.get(k) for k in (CM + "._try_connect", CM + "._update_connection_lost_circuit_breaker")}
    eng.contracts[CM + "._try_connect"] = Contract(apply=apply_try); eng.contracts[CM + "._update_connection_lost_circuit_breaker"] = Contract(apply=apply_upd)
    def hook(st, base, attr, ctx, node):
        if isinstance(base, tuple) and base and base[0] == "aevent":
            if attr == "is_set":
                def is_set(e, st_, args, ctx_, node_):
                    b = fresh("closing", z3.BoolSort()); ev(st_, ("is_set", b)); return [(st_, SBool(b))]
                return [(st, ("abstract", is_set))]
            if attr == "wait": return [(st, ("abstract", lambda e, st_, args, ctx_, node_: [(st_, ("coro", "closing_wait"))]))]
            if attr == "clear":
                def clear(e, st_, args, ctx_, node_): ev(st_, "clear"); return [(st_, None)]
                return [(st, ("abstract", clear))]
        return getattr_hook(st, base, attr, ctx, node)
    old_hook = eng.getattr_hook; eng.getattr_hook = hook
    old_calls = dict(eng.py_calls)
    eng.py_calls["asyncio.create_task"] = lambda e, st, args, kw, ctx, node: [(st, ("task", args[0]))]
    eng.py_calls["asyncio.ensure_future"] = lambda e, st, args, kw, ctx, node: [(st, ("task", args[0]))]
    def a_wait(e, st, args, kw, ctx, node):
        what = tuple(t[1] if isinstance(t, tuple) and len(t) == 2 and t[0] == "task" else t for t in (args[0] if isinstance(args[0], (tuple, list)) else [args[0]]))
        ev(st, ("wait", what)); return [(st, None)]
    eng.py_calls["asyncio.wait"] = a_wait
    def fields(st, m): return {k: st.getf(m, k) for k in PACING + BREAKER}
    def same(a, b):
        if a is b: return z3.BoolVal(True)
        if isinstance(a, Ref) or isinstance(b, Ref): return z3.BoolVal(isinstance(a, Ref) and isinstance(b, Ref) and a.oid == b.oid)
        if a is None or b is None: return z3.BoolVal(a is None and b is None)
        if isinstance(a, tuple) and isinstance(b, tuple): return z3.BoolVal(len(a) == len(b) and a[0] == b[0] and all(x is y or (hasattr(x, "eq") and x.eq(y)) for x, y in zip(a, b)))
        if isinstance(a, (bool, SBool)) or isinstance(b, (bool, SBool)): return to_bool(a) == to_bool(b)
        return to_int(a) == to_int(b)
    def discipline(st, m, at_exit=False):
        calls = st.ghost.get("calls", ()); names = [c if isinstance(c, str) else c[0] for c in calls]; head = st.ghost.get("head")
        out = []
        conn = st.getf(m, "_connection")
        out.append(("L4 no connection is held between iterations", z3.BoolVal(conn is None)))
        if head is None: return out
        now_f = fields(st, m)
        out.append(("L3 connect_loop itself never calls failure()/reset()/sleep()/the factory", z3.BoolVal(not any(x in names for x in ("failure", "reset", "sleep", "factory")))))
        out.append(("L3 frame: strategy object, breaker sleep and threshold are not written by the loop", z3.And([same(now_f[k], head[k]) for k in PACING])))
        if "update" not in names: out.append(("L3 frame: breaker state changes only through _update_connection_lost_circuit_breaker", z3.And([same(now_f[k], head[k]) for k in BREAKER])))
        if at_exit:
            out.append(("exit: no attempt is started and the breaker is not touched after closing was observed", z3.BoolVal("try_connect" not in names and "update" not in names)))
            out.append(("L5 the closing event is cleared on exit", z3.BoolVal(names.count("clear") == 1 and names[-1] == "clear")))
            return out
        if "try_connect" not in names and "update" not in names and "wait" not in names: return out          # loop head: nothing has run in this iteration yet
        first = [i for i, x in enumerate(names) if x not in ("is_set",)]
        out.append(("L1 one attempt per iteration, started before anything else", z3.BoolVal(names.count("try_connect") == 1 and bool(first) and names[first[0]] == "try_connect")))
        established = bool(st.ghost.get("conn"))
        done_waits = [i for i, c in enumerate(calls) if not isinstance(c, str) and c[0] == "wait" and any(isinstance(w, tuple) and w and w[0] == "future" for w in c[1])]
        if "update" in names:
            iu = names.index("update"); reads = [c[1] for c in calls[(done_waits[-1] if done_waits else 0):iu] if not isinstance(c, str) and c[0] == "is_set"]
            out.append(("L2 the breaker is updated at most once, only after a connection was established and its end was awaited", z3.BoolVal(names.count("update") == 1 and established and bool(done_waits) and done_waits[-1] < iu and bool(reads))))
            if reads: out.append(("L2 the breaker is updated only when closing was not observed after the connection ended", z3.Not(reads[-1])))
        elif established:
            reads = [c[1] for c in calls[(done_waits[-1] if done_waits else len(calls)):] if not isinstance(c, str) and c[0] == "is_set"]
            out.append(("L2 a lost connection (ended while not closing) updates the breaker: without an update, closing was observed after the connection ended",
                        z3.And(z3.BoolVal(bool(done_waits)), z3.Or([z3.BoolVal(False)] + reads))))
        if established: out.append(("the end of an established connection is awaited before the next attempt", z3.BoolVal(bool(done_waits))))
        return out
    mref = {}
    def inv(st, e): return discipline(st, mref["m"])
    def havoc(st, e):
        m = mref["m"]; st.ghost["calls"] = (); st.ghost["conn"] = False
        # pacing state at the loop head is arbitrary (earlier iterations ran attempts and updates): fresh values, then the snapshot the frame clauses compare with
        st.setf(m, "_connection_lost_sleep_before_reconnect", SBool(fresh("breaker_h", z3.BoolSort())))
        st.setf(m, "_connection_lost_last_time", ("instant", fresh("last_h", z3.RealSort())))
        st.ghost["head"] = fields(st, m)
    eng.loop_specs[(LOOP_FN, 0)] = (inv, None, {}, havoc)
    def init_l(e):
        st = State(); m = mk_mgr(st); mref["m"] = m; st.ghost["head"] = None; yield st, [m]
    def post_l(st, args, res, old, e):
        for x in discipline(st, args[0], at_exit=True): yield x
    def raises_l(st, args, exc, old, e):
        yield f"nothing is raised by connect_loop under the sequential reading ({exc.exc})", z3.BoolVal(False)
    try:
        o = eng.verify(LOOP_FN, Contract(init_l, post_l, raises=raises_l))
    finally:
        eng.getattr_hook = old_hook; eng.py_calls.clear(); eng.py_calls.update(old_calls)
        for k, v in saved.items():
            if v is None: eng.contracts.pop(k, None)
            else: eng.contracts[k] = v
    return o

def deductive(repo, tier, seed):
    eng = Engine({"han.common": f"{repo}/han/common.py", "han.meter_connection": f"{repo}/han/meter_connection.py"})
    obls = []
    kk = z3.Int("kk")
    obls.append(Obligation("lemma.pow2_positive#base", [kk <= 0], S.POW2(kk) >= 1, use_axioms=False, kind="lemma"))
    obls.append(Obligation("lemma.pow2_positive#step", [kk > 0, S.POW2(kk - 1) >= 1], S.POW2(kk) >= 1, use_axioms=False, kind="lemma"))
    eng.prelude_axioms.append(z3.ForAll([kk], S.POW2(kk) >= 1, patterns=[S.POW2(kk)]))
    n = z3.Int("n_failures"); delay = z3.Int("delay"); cap = z3.Int("max_delay")
    def mk(st, with_inv=True):
        ref = st.new_obj(EB, {"_delay": SInt(delay), "max_delay": SInt(cap)})
        if with_inv: st.pc += [inv_delay(delay, n), cap >= 1]
        return ref
    wit = lambda m: {"n": m.eval(n, model_completion=True).as_long(), "max_delay": m.eval(cap, model_completion=True).as_long()}
    # __init__
    def init_init(e):
        st = State(); yield st, [st.new_obj(EB, {})]
    def post_init(st, args, res, old, e):
        yield "fresh strategy: zero failures", inv_delay(to_int(st.getf(args[0], "_delay")), z3.IntVal(0))
        yield "default cap is 60 s", to_int(st.getf(args[0], "max_delay")) == 60
    o = eng.verify(EB + ".__init__", Contract(init_init, post_init)); obls += o
    def init_m(e):
        st = State(); yield st, [mk(st)]
    o = eng.verify(EB + ".failure", Contract(init_m, lambda st, args, res, old, e: [("ghost n' = n+1: _delay' == pow2(n)", inv_delay(to_int(st.getf(args[0], "_delay")), n + 1)),
                                                                                      ("max_delay unchanged", to_int(st.getf(args[0], "max_delay")) == cap)]))
    for x in o: x.meta.update(replay="replay_backoff", witness=wit)
    obls += o
    o = eng.verify(EB + ".reset", Contract(init_m, lambda st, args, res, old, e: [("ghost n' = 0: _delay' == 0", inv_delay(to_int(st.getf(args[0], "_delay")), z3.IntVal(0))),
                                                                                    ("max_delay unchanged", to_int(st.getf(args[0], "max_delay")) == cap)]))
    for x in o: x.meta.update(replay="replay_backoff", witness=wit)
    obls += o
    o = eng.verify(EB + ".current_delay_sec", Contract(init_m, lambda st, args, res, old, e: [("result == min(2^(n-1), max_delay), 0 for n == 0", to_int(res) == S.backoff(n, cap)),
                                                                                                ("state unchanged", z3.And(to_int(st.getf(args[0], "_delay")) == delay, to_int(st.getf(args[0], "max_delay")) == cap))]))
    for x in o: x.meta.update(replay="replay_backoff", witness=wit)
    obls += o
    # ---- ConnectionManager._get_back_off_time (pure), strategy object through its contract
    def apply_cds(e, st, args, ctx, node):
        return [(st, SInt(st.ghost["cur_delay"]))]
    cur = z3.Int("cur_delay"); sleep_sec = z3.Int("sleep_sec"); thr = z3.Int("threshold"); breaker = z3.Bool("breaker")
    def mk_mgr(st, last=None):
        bo = st.new_obj(EB, {"_delay": SInt(delay), "max_delay": SInt(cap)})
        st.ghost["cur_delay"] = cur; st.pc += [cur >= 0, sleep_sec >= 0, thr >= 0]
        return st.new_obj(CM, {"back_off_connect_error": bo, "connection_lost_back_off_sleep_sec": SInt(sleep_sec), "connection_lost_back_off_threshold": SInt(thr),
                               "_connection_lost_sleep_before_reconnect": SBool(breaker), "_connection_lost_last_time": last, "_connection": None,
                               "_is_closing": ("aevent",), "_connection_factory": ("afactory",)})
    eng.contracts[EB + ".current_delay_sec"] = Contract(apply=apply_cds)
    def init_g(e):
        st = State(); yield st, [mk_mgr(st)]
    expect_sleep = z3.If(z3.Or(cur > 0, breaker), z3.If(cur >= z3.If(breaker, sleep_sec, 0), cur, z3.If(breaker, sleep_sec, 0)), 0)
    witg = lambda m: {k: str(m.eval(v, model_completion=True)) for k, v in (("cur_delay", cur), ("sleep_sec", sleep_sec), ("breaker", breaker))}
    o = eng.verify(CM + "._get_back_off_time", Contract(init_g, lambda st, args, res, old, e: [("result == max(back-off delay, breaker sleep if the breaker is set) / 0", to_int(res) == expect_sleep)]))
    for x in o: x.meta.update(replay="replay_get_back_off_time", witness=witg)
    obls += o
    # ---- _update_connection_lost_circuit_breaker: datetime as abstract instants (seconds, real-valued)
    now = z3.Real("now"); last_t = z3.Real("last")
    eng.py_calls["datetime.datetime.utcnow"] = lambda e, st, args, kw, ctx, node: [(st, ("instant", now))]
    def getattr_hook(st, base, attr, ctx, node):
        if isinstance(base, tuple) and base and base[0] == "delta" and attr == "total_seconds":
            return [(st, ("abstract", lambda e, st_, args, ctx_, node_, d=base[1]: [(st_, SInt(d))]))]
        if isinstance(base, tuple) and base and base[0] == "aevent" and attr == "is_set":
            def is_set(e, st_, args, ctx_, node_):
                b = fresh("closing", z3.BoolSort()); st_.ghost["closing_reads"] = st_.ghost.get("closing_reads", ()) + (b,); return [(st_, SBool(b))]
            return [(st, ("abstract", is_set))]
        return None
    eng.getattr_hook = getattr_hook
    orig_binop = eng.binop
    def binop(op, a_, b_, node, st=None, ctx=None):
        if isinstance(a_, tuple) and isinstance(b_, tuple) and a_ and b_ and a_[0] == "instant" and b_[0] == "instant" and isinstance(op, ast.Sub): return ("delta", a_[1] - b_[1])
        return orig_binop(op, a_, b_, node, st, ctx)
    eng.binop = binop
    import ast
    for has_last in (False, True):
        def init_u(e, has_last=has_last):
            st = State(); yield st, [mk_mgr(st, ("instant", last_t) if has_last else None)], ("after an earlier loss" if has_last else "first loss")
        def post_u(st, args, res, old, e, has_last=has_last):
            b2 = to_bool(st.getf(args[0], "_connection_lost_sleep_before_reconnect")); l2 = st.getf(args[0], "_connection_lost_last_time")
            yield "time of the last loss is now", z3.BoolVal(isinstance(l2, tuple) and l2[0] == "instant" and l2[1].eq(now))
            yield "breaker set exactly when the previous loss was less than the threshold ago (unchanged on the first loss)", (b2 == (now - last_t < thr)) if has_last else (b2 == breaker)
        obls += eng.verify(CM + "._update_connection_lost_circuit_breaker", Contract(init_u, post_u))
    # ---- _try_connect read sequentially: the only field another task writes is the closing event (fresh value at every is_set())
    eng.contracts.pop(EB + ".current_delay_sec")
    def apply_gbt(e, st, args, ctx, node):
        t = fresh("backoff_time", I); st.pc.append(t >= 0); st.ghost["backoff_time"] = t; return [(st, SInt(t))]
    eng.contracts[CM + "._get_back_off_time"] = Contract(apply=apply_gbt)
    def mark(name):
        def f(e, st, args, ctx, node):
            st.ghost["calls"] = st.ghost.get("calls", ()) + (name,); return [(st, None)]
        return f
    eng.contracts[EB + ".failure"] = Contract(apply=mark("failure")); eng.contracts[EB + ".reset"] = Contract(apply=mark("reset"))
    def a_sleep(e, st, args, kw, ctx, node):
        st.ghost["calls"] = st.ghost.get("calls", ()) + (("sleep", to_int(args[0])),); return [(st, None)]
    eng.py_calls["asyncio.sleep"] = a_sleep
    def factory(e, st, args, ctx, node):
        st.ghost["calls"] = st.ghost.get("calls", ()) + ("factory",)
        ok = st.fork(); err = st.fork(); can = st.fork()
        return [(ok, ("connection",)), (err, Raised("Exception", "connect failed")), (can, Raised("CancelledError", "cancelled"))]
    def getattr_hook2(st, base, attr, ctx, node):
        r = getattr_hook(st, base, attr, ctx, node)
        if r is not None: return r
        return None
    eng.getattr_hook = getattr_hook2
    def init_t(e):
        st = State(); m = mk_mgr(st); st.setf(m, "_connection_factory", ("abstract", factory)); yield st, [m]
    def post_t(st, args, res, old, e):
        calls = st.ghost.get("calls", ()); t = st.ghost.get("backoff_time"); conn = st.getf(args[0], "_connection")
        names = [c if isinstance(c, str) else c[0] for c in calls]
        yield "the back-off time is computed once, on entry", z3.BoolVal(t is not None)
        yield "the factory is called at most once", z3.BoolVal(names.count("factory") <= 1)
        sl = [c for c in calls if not isinstance(c, str)]
        yield "sleeps exactly the back-off time, before any connection attempt (no sleep when it is 0)", z3.And(z3.BoolVal(len(sl) <= 1 and (not sl or names.index("sleep") < (names.index("factory") if "factory" in names else 99))),
                                                                                                              (t <= 0) if not sl else z3.And(t > 0, sl[0][1] == t))
        if "factory" in names:
            yield "a connection attempt that returns normally succeeded: reset() once, connection stored; or failed: failure() once, no connection", \
                z3.BoolVal((names[-1] == "reset" and names.count("reset") == 1 and "failure" not in names and conn == ("connection",)) or
                           (names[-1] == "failure" and names.count("failure") == 1 and "reset" not in names and conn is None))
        else:
            yield "no attempt (closing was observed after the sleep): strategy untouched", z3.BoolVal("reset" not in names and "failure" not in names)
    def raises_t(st, args, exc, old, e):
        calls = st.ghost.get("calls", ()); names = [c if isinstance(c, str) else c[0] for c in calls]
        yield f"only cancellation propagates, strategy untouched ({exc.exc})", z3.BoolVal(exc.exc == "CancelledError" and "failure" not in names and "reset" not in names)
    obls += eng.verify(CM + "._try_connect", Contract(init_t, post_t, raises=raises_t))
    obls += connect_loop_contract(eng, mk_mgr, getattr_hook, mark)
    obls.append(Obligation("canary.backoff_without_cap", [inv_delay(delay, n), cap >= 1, n >= 1], z3.If(delay < cap, delay, cap) == S.POW2(n - 1), kind="canary", expect_refuted=True,
                           meta={"refute_bound": lambda K: [n <= K + 3]}))
    b = None
    r = PropResult(obls, eng, functions=[EB + x for x in (".__init__", ".failure", ".reset", ".current_delay_sec")] + [CM + x for x in ("._get_back_off_time", "._update_connection_lost_circuit_breaker", "._try_connect", ".connect_loop")],
        derived=sorted(eng.derived),
        assumptions=["datetime.utcnow returns some instant; timedelta.total_seconds is the difference of instants (real-valued seconds)",
                     "_try_connect is read sequentially: at every await the only state another task changes is the closing event (every is_set() returns an arbitrary value); asyncio.sleep(t) suspends for t seconds",
                     "the connection factory either returns a connection, raises an Exception, or is cancelled",
                     "connect_loop is read sequentially under the same rely condition: the task started with create_task(self._try_connect()) takes effect through _try_connect's contract (it leaves a connection or none), "
                     "asyncio.wait returns without raising, the task running connect_loop is not cancelled, a connection is a (transport, protocol) pair whose protocol has a `done` future; "
                     "an attempt that is still running when closing wins the wait is outside this reading (C17, not applicable)"],
        explanation="C18: ghost failure counter n on the strategy object: invariant _delay == pow2(n-1) (0 for n == 0), failure/reset/current_delay_sec contracts for every max_delay >= 1 and every n (unbounded, "
                    "pow2 recursive); _get_back_off_time, the loss breaker update and the sequential contract of _try_connect (sleep exactly the back-off time before the single factory call; failure()/reset() exactly once); loop contract of connect_loop (L1 one attempt per iteration and first, "
                    "L2 breaker update iff a connection ended while not closing, L3 the loop never touches pacing state itself, L4 no connection held between iterations, L5 closing cleared on exit). "
                    "Composition by hand: loss k+1 within the threshold of loss k => breaker set (update contract) => nothing writes it before the next attempt (L1, L3) => _get_back_off_time >= sleep => "
                    "_try_connect sleeps it before the factory call; failures since the last success = ghost n => the next attempt sleeps >= min(2^(n-1), max_delay).")
    r.not_decided = ["manager-level timing beyond the sequential reading (how long the scheduler takes to run a ready task: the upper bound 'plus scheduling slack'; an attempt still running after close()) depends on asyncio scheduling: not decided by per-call contracts; covered by the BOUNDED run manager_virtual_time "
                     "(the real connect_loop on a real event loop with a virtual clock, every attempt-outcome sequence up to a length)"]
    return r
