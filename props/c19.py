"""C19 — Reader memory stays bounded on endless streams (HDLC and P1 readers)."""
from props import hdlc_model as M, dlde_model as DM
from pyvc import run

KEEP = ("C19", "2047", "consumed", "buffer position", "raw view", "pre:", "inv-entry", "dec#")
def build(repo, tier, seed):
    tasks = M.hdlc_tasks(repo, None, True) + [("p1reader", DM.group_p1reader, (repo,))]
    r = M.groups_result(tasks, select=None)
    r.functions = sorted(set(M.READER_FUNCS) | set(DM.P1_FUNCS))
    r.assumptions = ["retained memory = the reader's byte buffers (_buffer, _raw_frame_data / _raw_data, current frame octets); Python object overhead is a constant per reader",
                     "prelude contracts for bytearray.extend/append/clear/find and slicing (offset views)"]
    r.explanation = ("C19: size postconditions of read() proved from the reader invariants alone (hence for every history): HDLC len(buffer) <= len(chunk) with nothing consumed retained, "
                     "len(frame octets) <= 2047 while in a frame, len(raw frame data) <= 2*2048+1; P1 len(buffer)+len(collected) <= 8191; loops terminate (measure = unconsumed octets)")
    n = 40 if tier == "quick" else 400
    b = run.rt_call("C19", "endless_streams", {"seed": seed, "mib": 1 if tier == "quick" else 8})
    r.bounded.append(b if "name" in b else {"name": "endless_streams", "error": b.get("error", b)})
    return r
