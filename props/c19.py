"""C19 — Reader memory stays bounded on endless streams (HDLC and P1 readers)."""
from props import hdlc_model as M, dlde_model as DM
from pyvc import run

def group_canaries(repo):
    """the reader invariants the size bounds are proved from are satisfiable with data held (each `never` must be refuted): guards against a vacuous proof from a contradictory invariant"""
    import z3
    from pyvc.engine import State, Obligation
    eng = M.mk_engine(repo); M.frame_obligations(eng, want=()); out = []
    for cfg in ((False, False), (True, True)):
        for in_frame in (False, True):
            st = State(); rd, buf = M.mk_reader(st, cfg, in_frame, tag="__c19", eng=eng); M.assume_inv(st, rd); v = M.reader_view(st, rd)
            held = [v["b"].n >= 2, v["pl"] >= 1]
            if in_frame:
                d = st.getf(v["fr"], "_frame_data"); held += [d.n >= 1, v["raw"].n >= 1]
            bound = lambda K, v=v: [v["b"].n <= K, v["raw"].n <= K, v["gt"] <= 2 * K + 4]
            out.append(Obligation(f"canary.c19_hdlc_reader_never_holds_data[{M.cfg_label(cfg, in_frame)}]", list(st.pc), z3.Not(z3.And(*held)), kind="canary", expect_refuted=True, meta={"refute_bound": bound}))
    eng2 = DM.mk_engine(repo); DM.install_p1(eng2)
    for hunt in (True, False):
        st = State(); rd, buf = DM.mk_p1reader(st, hunt, tag="__c19", eng=eng2)
        for _, g in DM.p1_inv(st, rd): st.pc.append(g)
        v = DM.p1_view(st, rd); held = [v["pl"] >= 1] + ([] if hunt else [v["raw"].n >= 6])
        bound = lambda K, v=v: [v["b"].n <= K, v["raw"].n <= K, v["gt"] <= 3 * K + 4]
        out.append(Obligation(f"canary.c19_p1_reader_never_holds_data[{'hunt' if hunt else 'collecting'}]", list(st.pc), z3.Not(z3.And(*held)), kind="canary", expect_refuted=True, meta={"refute_bound": bound}))
    return eng, out, {}

KEEP = ("C19", "2047", "consumed", "buffer position", "raw view", "pre:", "inv-entry", "dec#")
def build(repo, tier, seed):
    tasks = M.hdlc_tasks(repo, None, True) + [("p1reader", DM.group_p1reader, (repo,)), ("C19 invariant canaries", group_canaries, (repo,))]
    r = M.groups_result(tasks, select=None)
    r.functions = sorted(set(M.READER_FUNCS) | set(DM.P1_FUNCS))
    r.assumptions = ["retained memory = the reader's byte buffers (_buffer, _raw_frame_data / _raw_data, current frame octets); Python object overhead is a constant per reader",
                     "prelude contracts for bytearray.extend/append/clear/find and slicing (offset views)"]
    r.explanation = ("C19: size postconditions of read() proved from the reader invariants alone (hence for every history): HDLC len(buffer) <= len(chunk) with nothing consumed retained, "
                     "len(frame octets) <= 2047 while in a frame, len(raw frame data) <= 2*2048+1; P1 len(buffer)+len(collected) <= 8191; loops terminate (measure = unconsumed octets)")
    n = 40 if tier == "quick" else 400
    b = run.rt_call("C19", "endless_streams", {"seed": seed, "mib": 1 if tier == "quick" else 8})
    r.bounded.append(b if "name" in b else {"name": "endless_streams", "error": b.get("error", b)})
    return r
