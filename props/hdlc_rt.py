"""Run-time twin of the HDLC reader contracts (real code from /repo, under /venv/bin/python): builds reader pre-states from
solver witnesses, evaluates reader_inv at run time, and searches small call histories for a violation (bounded, labelled as such)."""
import itertools, random
from han import hdlc
from props import spec_py as sp
from props.c01_rt import check_frame, mk

def mk_reader(w):
    r = hdlc.HdlcFrameReader(bool(w["cfg"][0]), bool(w["cfg"][1]))
    r._buffer._buffer = bytearray(w.get("buffer", [])); r._buffer._buffer_pos = w.get("pos", 0)
    r._raw_frame_data = bytearray(w.get("raw", [])); r._unescape_next = bool(w.get("esc", False))
    r._frame = mk(w.get("octets", [])) if w.get("in_frame") else None
    return r

def reader_inv(r, G, g_total, g_last_end, completed=False, allow_overlong=False):
    """-> list of broken clauses (same clauses as props/hdlc_model.reader_inv)"""
    bad = []; b = r._buffer._buffer; pos = r._buffer._buffer_pos
    if not (0 <= pos <= len(b)): bad.append("buffer position in range"); return bad
    pl = len(b) - pos; gp = g_total - pl
    if G is not None:
        if gp < 0 or bytes(b[pos:]) != bytes(G[gp:g_total]): bad.append("ghost: unconsumed input is the tail of the stream received so far")
        if not (-1 <= g_last_end < gp): bad.append("ghost: last returned frame ended inside the consumed stream")
    raw = bytes(r._raw_frame_data)
    if len(raw) > 4097: bad.append("C19: len(raw frame data) <= 2*2048+1")
    f = r._frame
    if f is None:
        if r._unescape_next: bad.append("hunt mode => no pending escape")
        return bad
    a = f.as_bytes
    fb = check_frame(f, a)
    if fb: bad.append("frame_inv(current frame): " + "; ".join(fb[:2]))
    if not allow_overlong and len(a) > 2047: bad.append("len(octets) <= 2047")
    if r._use_octet_stuffing:
        o, e = sp.unstuff(raw)
        if len(o) != len(a) or e != r._unescape_next: bad.append("(len(octets), pending escape) == unstuff(raw)")
        elif o != a: bad.append("octets == unstuff(raw) content")
    else:
        if a != raw: bad.append("octets == raw (no stuffing)")
        if r._unescape_next: bad.append("no pending escape without stuffing")
    if G is not None:
        e = gp - 1 if completed else gp; s0 = e - len(raw)
        if not (s0 >= 1 and G[s0 - 1] == 0x7E and bytes(G[s0:e]) == raw): bad.append("ghost: raw octets are contiguous in the stream, right after a flag")
        if not (s0 - 1 >= g_last_end): bad.append("ghost: current frame starts after the end of the last returned frame")
        if completed and not (e < len(G) and G[e] == 0x7E): bad.append("ghost: closing flag")
    return bad

def replay_read_next(p):
    w = p["witness"]; r = mk_reader(w); G = bytes(w.get("G", [])); gt, gle = w.get("g_total", 0), w.get("g_last_end", -1)
    G = G + bytes(max(0, gt - len(G)))
    pre = reader_inv(r, G, gt, gle)
    if pre or len(r._buffer._buffer) - r._buffer._buffer_pos < 1:
        return fallback_search(p, f"witness is not a valid pre-state ({pre[:2]})")
    pl0 = len(r._buffer._buffer) - r._buffer._buffer_pos
    try: res = r._read_next()
    except Exception as ex: return {"violated": True, "detail": {"pre_state": w_short(w), "raised": repr(ex)}}
    post = reader_inv(r, G, gt, gle, completed=bool(res))
    pl1 = len(r._buffer._buffer) - r._buffer._buffer_pos
    if not (0 <= pl1 <= pl0 - 1): post.append("consumes at least one octet")
    if res and r._frame is None: post.append("returns True only with a current frame")
    if post: return {"violated": True, "detail": {"pre_state": w_short(w), "call": "_read_next()", "returned": res, "broken": post[:4]}}
    return fallback_search(p, "pre-state of the model does not break the contract on the real code")

def replay_read(p):
    w = p["witness"]; r = mk_reader(w); gt, gle = w.get("g_total", 0), w.get("g_last_end", -1); cn = max(0, w.get("cn", 0))
    G = bytes(w.get("G", [])); G = G + bytes(max(0, gt + cn - len(G)))
    pre = reader_inv(r, G, gt, gle)
    if not pre and len(r._buffer._buffer) == r._buffer._buffer_pos:
        chunk = G[gt:gt + cn]
        try: out = r.read(chunk)
        except Exception as ex: return {"violated": True, "detail": {"pre_state": w_short(w), "chunk": chunk.hex(), "raised": repr(ex)}}
        post = read_post(r, G, gt + cn, chunk, out, gle)
        if post: return {"violated": True, "detail": {"pre_state": w_short(w), "call": f"read({chunk.hex()})", "broken": post[:4]}}
    return fallback_search(p, "pre-state of the model does not break the contract on the real code")

def read_post(r, G, gt, chunk, out, gle_before):
    gle = gle_before
    post = []
    b = r._buffer._buffer
    if len(b) - r._buffer._buffer_pos != 0: post.append("every octet of the chunk has been consumed")
    if len(b) > len(chunk): post.append(f"C19 buffer retains no consumed octet: len(buffer)={len(b)} > len(chunk)={len(chunk)}")
    post += reader_inv(r, None, gt, gle)
    return post

def w_short(w): return {k: (bytes(v).hex() if isinstance(v, list) and k in ("buffer", "raw", "octets", "G") else v) for k, v in w.items() if k not in ("model_consts",)}

# ----------------------------------------------------------------------------- API-level search (bounded; used when a function-level witness cannot be replayed)
ALPHA = [0x7E, 0x7D, 0x5E, 0x5D, 0xA0, 0x07, 0x01, 0x02, 0x00, 0x21, 0x13]
def frames_between_flags(stream, stuffing):
    """reference framing oracle: maximal flag-free runs of the stream between two flags (un-stuffed when stuffing)"""
    return None

def history_check(cfg, chunks, clause_filter=None):
    """feed the chunks to a fresh reader; after every call evaluate the run-time invariant and the read() postconditions.
    -> None or a dict describing the first violation"""
    r = hdlc.HdlcFrameReader(*cfg); G = b""; gle = -1; fed = []
    for ch in chunks:
        G += ch; fed.append(ch.hex())
        try: out = r.read(ch)
        except Exception as ex: return {"cfg": list(cfg), "history": fed, "raised": repr(ex)}
        bad = read_post(r, G, len(G), ch, out, gle)
        for f in out:
            a = f.as_bytes; fb = check_frame(f, a)
            if fb: bad.append("returned frame breaks its contracts: " + "; ".join(fb[:2]))
            # framing: the octets occur in G between two flags (after un-stuffing), after the previous returned frame
            found = locate(G, a, cfg[0], gle)
            if found is None: bad.append(f"returned frame {a.hex()} is not a flag-delimited segment of the input after the previous frame")
            else: gle = found
        bad += reader_inv(r, G, len(G), gle)
        if clause_filter: bad = [x for x in bad if any(c in x for c in clause_filter)]
        if bad: return {"cfg": list(cfg), "history": fed, "broken": bad[:4]}
    return None

def locate(G, octets, stuffing, after):
    """index of the closing flag of a segment G[s:e] with G[s-1] == G[e] == 0x7E, s-1 >= after, whose (un-stuffed) content is `octets`"""
    n = len(G)
    for s in range(max(1, after + 1), n + 1):
        if G[s - 1] != 0x7E: continue
        for e in range(s, n):
            if G[e] != 0x7E: continue
            seg = G[s:e]
            if stuffing:
                o, esc = sp.unstuff(seg)
                if o == octets and 0x7E not in seg: return e          # a frame may be closed with an escape octet pending (abort detection off)
                if 0x7E in seg: break
            elif seg == octets: return e
    return None

def gen_histories(rnd, n, maxlen=14):
    good = []
    for _ in range(6):
        body = bytes([0xA0, 0]) + bytes(rnd.choice([1, 3, 0x21]) for _ in range(2)) + bytes([0x13])
        hdr = bytearray(body); hdr[1] = len(body) + 2 + rnd.choice([0, 0, 3, 5])
        hcs = sp.fcs16(bytes(hdr)); fr = bytes(hdr) + bytes([hcs & 0xFF, hcs >> 8])
        if hdr[1] != len(fr):
            info = bytes(rnd.choice(ALPHA) for _ in range(hdr[1] - len(fr) - 2))
            fr = fr + info; f2 = sp.fcs16(fr); fr += bytes([f2 & 0xFF, f2 >> 8])
        good.append(fr)
    for _ in range(n):
        k = rnd.randrange(1, maxlen); parts = []
        for _ in range(k):
            c = rnd.random()
            if c < 0.55: parts.append(bytes([rnd.choice(ALPHA)]))
            elif c < 0.8: parts.append(b"\x7e" + rnd.choice(good) + b"\x7e")
            else: parts.append(bytes(rnd.choice(ALPHA) for _ in range(rnd.randrange(1, 5))))
        s = b"".join(parts); cuts = sorted(rnd.sample(range(len(s) + 1), min(len(s) + 1, rnd.randrange(0, 4))))
        chunks = [s[a:b] for a, b in zip([0] + cuts, cuts + [len(s)])]
        yield chunks

def fallback_search(p, why, n=1500):
    """bounded API-level search for a history that breaks the same clause (labelled bounded: it only ever finds inputs)"""
    obl = p.get("obligation", ""); clause = obl.split("#", 1)[1] if "#" in obl else ""
    key = None
    for c in ("no pending escape", "unstuff(raw)", "contiguous", "after the end of the last", "closing flag", "2047", "C19 buffer", "C19: len(raw", "frame_inv", "octets == raw", "consumed", "tail of the stream"):
        if c in clause: key = [c]; break
    cfgs = [tuple(bool(x) for x in p["witness"]["cfg"])] if p.get("witness", {}).get("cfg") else [(a, b) for a in (False, True) for b in (False, True)]
    rnd = random.Random(1)
    for cfg in cfgs:
        # special long patterns for the size clauses
        if key and ("2047" in key[0] or "C19" in key[0]):
            for chunks in ([b"\x7e" * 5000], [b"\x7e\xa0\x02\x21\x13" + b"\x7e" * 6000], [b"\x7e" * 10] * 300, [b"\x7e\xa0\x05" + b"\x7d" * 5000]):
                v = history_check(cfg, chunks, key)
                if v:
                    v["history"] = [f"{len(c)} octets: {c[:12]}..." if len(c) > 40 else c for c in v["history"]][:4] + ["..."]
                    return {"violated": True, "detail": v, "found_by": "bounded API-level search"}
        # over-long frames need more than 2047 octets after a complete-looking header
        for chunks in ([b"\x7e\xa0\x0a\x03\x03\x13\xaa\xbb" + b"\x55" * 2100, b"\x55\x7e\xa0\x07\x03\x03\x13" + bytes([sp.fcs16(b"\xa0\x07\x03\x03\x13") & 0xFF, sp.fcs16(b"\xa0\x07\x03\x03\x13") >> 8]) + b"\x7e"],
                       [b"\x7e\xa0\x0a\x03\x03\x13\xaa\xbb" + b"\x7d\x5e" * 2100 + b"\x7e"]):
            v = history_check(cfg, chunks, key)
            if v:
                v["history"] = [(f"{len(c)//2} octets: {c[:24]}..." if len(c) > 80 else c) for c in v["history"]]
                return {"violated": True, "detail": v, "found_by": "bounded API-level search"}
        for chunks in gen_histories(rnd, n):
            v = history_check(cfg, chunks, key)
            if v: return {"violated": True, "detail": v, "found_by": "bounded API-level search"}
    # the exact transition clauses (T1-T14) are what the reference receiver of props/c06_rt.py implements: compare the real reader with it after every call
    from props import c06_rt
    for seed in (11, 12):
        b = c06_rt.ideal_receiver_check({"seed": seed, "n": 500})
        if b.get("violations"): return {"violated": True, "detail": b["violations"][0], "found_by": "bounded comparison with the reference receiver"}
    return {"violated": False, "inconclusive": True, "detail": why + "; bounded API-level search found nothing"}
