from props.dlde_rt import *

def bounded_search(p):
    """used only when the deductive side is undecided: readouts built directly and readouts delivered by the reader after noise (incl. over-long input) must answer is_valid /
    expected_checksum / payload as the specification says for their octets"""
    from props import dlde_rt as R
    import random
    bad = []; ev = 0
    r = R.search_readouts({"seed": p.get("seed", 1)}, n=1500)
    if r.get("violated"): bad.append(r.get("detail"))
    rnd = random.Random(p.get("seed", 0))
    if not bad:
        # every single-bit flip and every control character in every position of small readouts with a correct, a missing and a zero checksum
        bases = []
        for ident in (b"/XMX5LGBBFFB231314239", b"/KFM5KAIFA-METER", b"/ABC5\\2id x"):
            body = ident + b"\r\n\r\n1-0:1.8.0(00006678.394*kWh)\r\n!"
            bases += [body + b"%04X\r\n" % R.sp.crc16_arc(body), body + b"\r\n"]
        for base in bases:
            variants = [base[:i] + bytes([base[i] ^ (1 << k)]) + base[i + 1:] for i in range(len(base)) for k in range(8)]
            variants += [base[:i] + bytes([c]) + base[i + 1:] for i in range(len(base)) for c in (0x00, 0x0B, 0x0C, 0x0D, 0x1C, 0x1D, 0x1E, 0x85, 0x7F)]
            for v in variants:
                ev += 1; b = R.check_readout(v)
                if b: bad.append({"readout": v.decode("latin1")[:80], "broken": b[:2]}); break
            if bad: break
    if not bad:
        for it in range(p.get("n", 150)):
            noise = rnd.choice([b"", b"x\r\n", b"/ABC5\r\n" + b"y" * rnd.choice([10, 9000]) + b"\r\n", b"/ABC5\r\n" + b"1-0:1.8.0(1)\r\n" * 700])
            ros = list(R.gen_readouts(rnd, rnd.randrange(1, 4))); s = noise + b"".join(ros)
            size = rnd.choice([1, 7, 1000, len(s)]); rd = R.dlde.ModeDReader(); got = []
            for i in range(0, len(s), size): got += rd.read(s[i:i + size])
            for g in got:
                ev += 1; b = R.check_readout(g.as_bytes)          # the same octets built directly
                same = R.dlde.DataReadout(g.as_bytes)
                if g.is_valid != same.is_valid: bad.append({"why": "a readout delivered by the reader and a readout built from the same octets disagree on is_valid", "octets": g.as_bytes.decode("latin1")[:80], "reader": g.is_valid, "direct": same.is_valid}); break
                if b: bad.append({"readout": g.as_bytes.decode("latin1")[:80], "broken": b[:2]}); break
            if bad: break
    return {"name": "bounded search: readouts built directly and delivered by the reader", "bound": "1500 generated readouts; every single-bit flip / control character in every position of 6 small readouts; 150 noise + readout streams incl. over-long input x chunk sizes", "evaluations": ev + 1500, "distinct_nontrivial": ev, "violations": bad[:1]}
