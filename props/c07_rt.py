from props.cosem_rt import *
