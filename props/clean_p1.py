"""C05: the clean-stream lemma for the P1 reader as a second contract of the real ModeDReader.read(), proved on the real body (line loop with invariant).

The stream.  G is the ghost array of everything the meter sends.  From position A0 on it consists of well-formed readouts sent back to back; before A0 there may be
the tail of a readout (no '/' in it: the reader joined mid-transmission).  The reader works line by line, so the description is by line starts p >= A0, with
ghost functions   in_readout(p)  (p is after the identification line of a readout and not after its end line),   readout_start(p),   readouts_before(p)
and the hypotheses CLEAN(p) about the line [p, e] that starts at p (e = first LF at or after p): an identification line when not in a readout, otherwise a data
line or - starting with '!' - the end line; every readout (and the line in progress) fits the reader's bound.

Contract of read() on such a stream, for any chunk:
  STATE(g)   the unconsumed octets are the line in progress [ls, g) (no LF in it), ls is a line start >= A0; hunt mode == not in_readout(ls); when collecting,
             the collected octets are exactly the stream from readout_start(ls) to ls
  read(chunk): STATE(g) -> STATE(g + len(chunk)); one DataReadout is returned per end line in the consumed lines, in order, and it is byte-identical to the
  stream from the start of its identification line to the end of its end line (validity is then C04's contract on those octets).
A new reader in the leading tail: hunt mode, nothing buffered, A0 is the first '/' at or after the position; it reaches STATE at A0.
Same predicate before and after each call => the calls compose for every splitting of the stream.
"""
import z3
from pyvc.engine import *
from pyvc import speclib as S
from props import dlde_model as M
from props.dlde_model import G, P, D, I, LF, SLASH, BANG, MAX_P1, mk_p1reader, p1_view, p1_inv, view_end, _calls

B = z3.BoolSort()
A0 = z3.Int("A0"); TEND = z3.Int("TEND_p1")
IN = z3.Function("in_readout", I, B); RS = z3.Function("readout_start", I, I); NRO = z3.Function("readouts_before", I, I)
LFb = z3.BitVecVal(LF, 8); SLb = z3.BitVecVal(SLASH, 8); BGb = z3.BitVecVal(BANG, 8)
def LE(p): return S.FIDX(G, LFb, p, TEND)          # end of the line that starts at p (position of its LF), TEND when the line is not complete

def line_start(p): return z3.Or(p == A0, z3.And(p > A0, G[p - 1] == LF))
def clean_at(p):
    """CLEAN(p) for a line start p >= A0"""
    return z3.Implies(line_start(p), _clean_at(p))
def _clean_at(p):
    e = LE(p); q = e + 1
    ident = z3.And(G[p] == SLASH, S.ALLASCII(G, p, q), S.IDENT(G, p, q), IN(q), RS(q) == p, NRO(q) == NRO(p))
    endl = z3.And(z3.Not(IN(q)), NRO(q) == NRO(p) + 1)
    data = z3.And(IN(q), RS(q) == RS(p), NRO(q) == NRO(p))
    kind = z3.If(IN(p), z3.If(G[p] == BANG, endl, data), ident)
    fits = z3.If(IN(p), z3.And(RS(p) >= A0, RS(p) < p, q - RS(p) <= MAX_P1), q - p <= MAX_P1)
    sofar = z3.Implies(z3.And(p >= A0, p <= TEND, IN(p)), z3.And(RS(p) >= A0, RS(p) < p, p - RS(p) <= MAX_P1))          # also at the very end of the transmission
    return z3.And(sofar, z3.Implies(z3.And(p >= A0, p < TEND), z3.And(e < TEND, kind, fits)))          # the transmission ends with a complete line: every line that starts before TEND ends before TEND

def state_goals(st, rd, ls):
    """STATE at the line start ls (the reader's read position)"""
    v = p1_view(st, rd)
    g = [("clean stream: the read position is a line start of the clean part", z3.And(line_start(ls), ls >= A0, ls <= TEND)),
         ("clean stream: hunt mode exactly when not inside a readout", z3.BoolVal(v["hunt"]) == z3.Not(IN(ls)))]
    if not v["hunt"]: g.append(("clean stream: collected octets start where the readout started", v["raw"].off == RS(ls)))
    return g

def fidx_skip_lemma():
    """first_index_of from a later start inside the octet-free run is the same index (induction on the distance)"""
    a = z3.Const("a__fs", BYTE_ARR); v = z3.BitVec("v__fs", 8); i, j, m = z3.Ints("i__fs j__fs m__fs"); F = S.FIDX
    K = lambda i_: F(a, v, j, m) == F(a, v, i_, m)
    obls = [Obligation("lemma.first_index_of_skip#base", [i == j, j <= F(a, v, i, m)], K(i), use_axioms=False, kind="lemma"),
            Obligation("lemma.first_index_of_skip#step", [i < j, j <= F(a, v, i, m), z3.Implies(j <= F(a, v, i + 1, m), K(i + 1))], K(i), use_axioms=False, kind="lemma")]
    inst = lambda arr, val, lo, mid, end: z3.Implies(z3.And(lo <= mid, mid <= F(arr, val, lo, end)), F(arr, val, mid, end) == F(arr, val, lo, end))
    return obls, inst

def clean_stream_obligations(eng):
    fn_rd, mod, cls = eng.funcs[P + "read"]
    lem, skip = fidx_skip_lemma()
    obls = list(lem)
    for shape in ("hunt", "collecting", "new reader"):
        hunt = shape != "collecting"; tail = shape == "new reader"
        st = State(); rd, buf = mk_p1reader(st, hunt, eng=eng)
        for _, g in p1_inv(st, rd): st.pc.append(g)
        v0 = p1_view(st, rd)
        cn = z3.Int("cn"); gt0 = v0["gt"]; gt1 = gt0 + cn; ls0 = v0["gp"]
        if not any(str(cn) == str(x) for x in eng.len_vars): eng.len_vars.append(cn)
        st.pc += [S.FIDX(G, LFb, ls0, gt0) >= gt0, v0["b"].n + v0["raw"].n <= MAX_P1, cn >= 0, gt1 <= TEND, A0 >= 0, NRO(A0) == 0, z3.Not(IN(A0))]
        if tail:
            # a new reader inside the tail of a readout: nothing buffered, no '/' before A0 (A0 is the first '/' at or after the position)
            st.pc += [v0["pl"] == 0, gt0 <= A0, A0 <= TEND, S.FIDX(G, SLb, gt0, TEND) == A0, skip(G, SLb, gt0, gt1, TEND), clean_at(A0)]
        else:
            st.pc += [g for _, g in state_goals(st, rd, ls0)] + [clean_at(ls0)]
        root = f"{P}read[clean stream,{shape}]"
        ctx = Ctx(eng, mod, cls, P + "read", root_name=root); ctx.verifying = P + "read"; ctx.fork_implicit = True
        st.locals = {"self": rd, "data_chunk": SBytes(G, cn, gt0)}
        st.setf(rd, "$g_total", SInt(gt1)); st.ghost["chunk_is_stream_segment"] = (gt0, gt1)
        st.ghost["delivered"] = SInt(z3.IntVal(0))
        def hook(st_, lst, item, ctx_, node_, rd=rd):
            ok = isinstance(item, Ref) and st_.cls(item) == D + "DataReadout"
            ctx_.oblige(st_, "post:returned object is a DataReadout", z3.BoolVal(ok), node_)
            if not ok: return
            r = st_.getf(item, "_readout"); v = p1_view(st_, rd); e = view_end(r)
            hp = st_.ghost.get("head_pos")
            ctx_.oblige(st_, "post:a readout is returned exactly at the end line of a readout of the stream", z3.BoolVal(hp is not None) if hp is None else z3.And(IN(hp), G[hp] == BANG), node_)
            if hp is not None:
                ctx_.oblige(st_, "post:the returned readout is byte-identical to the stream from the start of its identification line to the end of its end line",
                            z3.And(z3.BoolVal(r.arr.eq(G)), r.off == RS(hp), e == LE(hp) + 1, e == v["gp"]), node_)
            st_.ghost["delivered"] = SInt(to_int(st_.ghost["delivered"]) + 1)
        eng.list_append_hook = hook
        def havoc(st_h, e, rd=rd):
            outs = []
            for h2 in (True, False):
                s2 = st_h.fork(); tag = f"__l{next(_calls)}"
                rd2, buf2 = mk_p1reader(s2, h2, tag=tag, eng=e)
                adopt(s2, rd, rd2)
                s2.ghost["delivered"] = SInt(fresh("delivered", I))
                gp = p1_view(s2, rd)["gp"]; s2.pc.append(clean_at(gp)); s2.ghost["head_pos"] = gp          # instance of the stream hypotheses at the line about to be read
                outs.append(s2)
            return outs
        base0 = A0 if tail else ls0
        def inv(st_, e, rd=rd, gt1=gt1, base0=base0, tail=tail):
            v = p1_view(st_, rd); st_.ghost["head_raw"] = (v["raw"], v["hunt"]); dl = to_int(st_.ghost["delivered"])
            sync = state_goals(st_, rd, v["gp"]) + [("clean stream: one readout returned per end line consumed so far", dl == NRO(v["gp"]) - NRO(base0))]
            if tail:       # still before the first readout: hunting, everything so far was dropped
                before = z3.And(z3.BoolVal(v["hunt"]), v["pl"] == 0, v["gp"] <= A0, dl == 0)
                sync = [(nm, z3.If(z3.And(v["gp"] >= A0, z3.Or(v["pl"] > 0, z3.BoolVal(not v["hunt"]), dl > 0, v["gp"] > A0)), g, before)) for nm, g in sync]
            return list(p1_inv(st_, rd)) + sync + [("ghost: stream length", v["gt"] == gt1)]
        def dec(st_, e, rd=rd): return p1_view(st_, rd)["pl"]
        eng.loop_specs[(P + "read", 0)] = (inv, dec, {}, havoc)
        eng.cuts.pop((P + "read", "loop:0"), None)
        for st1, flow, val in eng.exec_block(fn_rd.body, st, ctx):
            eng.stats["paths"] += 1
            if not eng.feasible(st1): continue
            if flow == RAISE:
                ctx.oblige(st1, f"raises:nothing escapes ({val.exc}: {val.info})", z3.BoolVal(False), fn_rd); continue
            v = p1_view(st1, rd); dl = to_int(st1.ghost["delivered"])
            still_tail = z3.And(gt1 <= A0, z3.BoolVal(v["hunt"]), v["pl"] == 0, dl == 0, S.FIDX(G, SLb, gt1, TEND) == A0) if tail else z3.BoolVal(False)
            in_tail = z3.And(z3.BoolVal(tail), gt1 <= A0, v["pl"] == 0)
            if tail: ctx.oblige(st1, "post:a chunk that ends before the first readout is dropped entirely and the first '/' is still ahead (same contract for the next call)", z3.Implies(in_tail, still_tail), fn_rd)
            for name, g in state_goals(st1, rd, v["gp"]): ctx.oblige(st1, f"post:{name} (the next call starts from the same contract)", z3.Or(in_tail, g), fn_rd)
            ctx.oblige(st1, "post:no complete line is left unconsumed", S.FIDX(G, LFb, v["gp"], v["gt"]) >= v["gt"], fn_rd)
            ctx.oblige(st1, f"post:len(buffer) + len(collected) <= {MAX_P1} (the guard did not trip)", v["b"].n + v["raw"].n <= MAX_P1, fn_rd)
            ctx.oblige(st1, "post:exactly one readout returned for each end line consumed in this call", z3.Or(in_tail, dl == NRO(v["gp"]) - NRO(base0)), fn_rd)
        for o in ctx.obls: o.meta.update(replay="replay_clean_p1", witness=M.p1_witness(hunt, extra=[("cn", cn), ("A0", A0)]))
        obls += ctx.obls
    eng.list_append_hook = None
    return obls

# ----------------------------------------------------------------------------- C16 (P1): resynchronisation after arbitrary bytes
A1 = z3.Int("A1")          # ghost: start of the second readout of the clean part (= end of the first one)
def first_readout_facts():
    """the first readout of the clean part lies between A0 and A1"""
    return [A0 >= 0, A1 > A0, A1 < TEND, G[A1 - 1] == LF, z3.Not(IN(A1)), NRO(A1) == 1, NRO(A0) == 0, z3.Not(IN(A0)), clean_at(A0), clean_at(A1),
            LE(A0) >= A0, LE(A0) < A1 - 1]          # the identification line of the first readout ends before its end line does
def inside_first(p):
    """hypotheses about a position p of the first readout: '/' occurs only where a readout starts; line starts between A0 and A1 are inside the readout that started at A0"""
    return z3.And(z3.Implies(z3.And(p >= A0, p < TEND, G[p] == SLASH), z3.And(line_start(p), z3.Not(IN(p)))),
                  z3.Implies(z3.And(p > A0, p < A1, line_start(p)), z3.And(IN(p), RS(p) == A0)))

def resync_obligations(eng):
    """read() from ANY reader state (arbitrary bytes before A0) whose read position has not passed A1: afterwards either still not past A1, or at / beyond A1 in the clean-stream
    contract's STATE - the read position never jumps over A1, and it reaches A1 hunting with nothing collected.  Readouts returned before A1 are not constrained ('except possibly
    the first'); from A1 on one readout per end line, byte-identical."""
    fn_rd, mod, cls = eng.funcs[P + "read"]
    obls = []
    for hunt in (True, False):
        st = State(); rd, buf = mk_p1reader(st, hunt, eng=eng)
        for _, g in p1_inv(st, rd): st.pc.append(g)
        v0 = p1_view(st, rd)
        cn = z3.Int("cn"); gt0 = v0["gt"]; gt1 = gt0 + cn; ls0 = v0["gp"]
        if not any(str(cn) == str(x) for x in eng.len_vars): eng.len_vars.append(cn)
        st.pc += [S.FIDX(G, LFb, ls0, gt0) >= gt0, v0["b"].n + v0["raw"].n <= MAX_P1, cn >= 0, gt1 <= TEND, ls0 < A1] + first_readout_facts()
        def before_goals(st_, gp):
            """W(gp): before A1 nothing is known about the reader except that a collecting reader stands at a line start of the stream"""
            v = p1_view(st_, rd)
            g = [("position", gp >= 0)]
            if not v["hunt"]: g.append(("a collecting reader stands right after a line end", z3.And(gp >= 1, G[gp - 1] == LF)))
            return g
        st.pc += [g for _, g in before_goals(st, ls0)]
        root = f"{P}read[resync,{'hunt' if hunt else 'collecting'}]"
        ctx = Ctx(eng, mod, cls, P + "read", root_name=root); ctx.verifying = P + "read"; ctx.fork_implicit = True
        st.locals = {"self": rd, "data_chunk": SBytes(G, cn, gt0)}
        st.setf(rd, "$g_total", SInt(gt1)); st.ghost["chunk_is_stream_segment"] = (gt0, gt1)
        st.ghost["delivered"] = SInt(z3.IntVal(0))
        def hook(st_, lst, item, ctx_, node_, rd=rd):
            ok = isinstance(item, Ref) and st_.cls(item) == D + "DataReadout"
            ctx_.oblige(st_, "post:returned object is a DataReadout", z3.BoolVal(ok), node_)
            if not ok: return
            r = st_.getf(item, "_readout"); v = p1_view(st_, rd); e = view_end(r); hp = st_.ghost.get("head_pos")
            if hp is None: ctx_.oblige(st_, "post:readouts are returned from inside the line loop", z3.BoolVal(False), node_); return
            ctx_.oblige(st_, "post:from the second readout of the clean part on: returned exactly at an end line, byte-identical to the stream from its identification line to the end of its end line",
                        z3.Implies(hp >= A1, z3.And(IN(hp), G[hp] == BANG, z3.BoolVal(r.arr.eq(G)), r.off == RS(hp), e == LE(hp) + 1, e == v["gp"])), node_)
            st_.ghost["delivered"] = SInt(z3.If(hp >= A1, to_int(st_.ghost["delivered"]) + 1, to_int(st_.ghost["delivered"])))
        eng.list_append_hook = hook
        def havoc(st_h, e, rd=rd, gt1=gt1):
            outs = []
            for h2 in (True, False):
                s2 = st_h.fork(); tag = f"__l{next(_calls)}"
                rd2, buf2 = mk_p1reader(s2, h2, tag=tag, eng=e)
                adopt(s2, rd, rd2)
                s2.ghost["delivered"] = SInt(fresh("delivered", I))
                gp = p1_view(s2, rd)["gp"]; s2.ghost["head_pos"] = gp
                le_buf = S.FIDX(G, LFb, gp, gt1)
                fle = lambda t, lo, hi, kq: z3.Implies(z3.And(lo <= kq, kq < hi, G[kq] == LF), t <= kq)          # instance of lemma first_index_of_le (an occurrence at kq bounds the first index)
                s2.pc += [clean_at(gp), inside_first(gp), clean_at(LE(gp) + 1), inside_first(LE(gp) + 1),
                          fle(le_buf, gp, gt1, A1 - 1), fle(LE(gp), gp, TEND, A1 - 1), fle(le_buf, gp, gt1, LE(A0)), fle(LE(gp), gp, TEND, LE(A0))]
                outs.append(s2)
            return outs
        def phase(st_, gp, dl):
            """one named clause per fact: W before A1, STATE from A1 on"""
            out = [(f"resync[before A1]: {nm}", z3.Implies(gp < A1, g)) for nm, g in before_goals(st_, gp)]
            out.append(("resync[before A1]: nothing counted yet", z3.Implies(gp < A1, dl == 0)))
            out += [(f"resync[from A1 on]: {nm}", z3.Implies(gp >= A1, g)) for nm, g in state_goals(st_, rd, gp)]
            out.append(("resync[from A1 on]: one readout counted per end line consumed after the first readout", z3.Implies(gp >= A1, dl == NRO(gp) - 1)))
            return out
        def inv(st_, e, rd=rd, gt1=gt1):
            v = p1_view(st_, rd); st_.ghost["head_raw"] = (v["raw"], v["hunt"]); dl = to_int(st_.ghost["delivered"])
            return list(p1_inv(st_, rd)) + phase(st_, v["gp"], dl) + [("ghost: stream length", v["gt"] == gt1)]
        def dec(st_, e, rd=rd): return p1_view(st_, rd)["pl"]
        eng.loop_specs[(P + "read", 0)] = (inv, dec, {}, havoc)
        eng.cuts.pop((P + "read", "loop:0"), None)
        for st1, flow, val in eng.exec_block(fn_rd.body, st, ctx):
            eng.stats["paths"] += 1
            if not eng.feasible(st1): continue
            if flow == RAISE:
                ctx.oblige(st1, f"raises:nothing escapes ({val.exc}: {val.info})", z3.BoolVal(False), fn_rd); continue
            v = p1_view(st1, rd); dl = to_int(st1.ghost["delivered"])
            for nm, g in phase(st1, v["gp"], dl): ctx.oblige(st1, f"post:{nm}", g, fn_rd)
            ctx.oblige(st1, "post:no complete line is left unconsumed", S.FIDX(G, LFb, v["gp"], v["gt"]) >= v["gt"], fn_rd)
            ctx.oblige(st1, f"post:len(buffer) + len(collected) <= {MAX_P1}", v["b"].n + v["raw"].n <= MAX_P1, fn_rd)
        for o in ctx.obls: o.meta.update(replay="replay_clean_p1", witness=M.p1_witness(hunt, extra=[("cn", cn), ("A0", A0), ("A1", A1)]))
        obls += ctx.obls
    eng.list_append_hook = None
    return obls

def resync_canaries(eng):
    """reachability under the resync hypotheses (each `never` must be refuted)"""
    out = []
    for hunt in (True, False):
        st = State(); rd, buf = mk_p1reader(st, hunt, tag="__rc", eng=eng)
        for _, g in p1_inv(st, rd): st.pc.append(g)
        v = p1_view(st, rd); gp = v["gp"]; e = S.FIDX(G, LFb, gp, v["gt"])
        st.pc += [v["pl"] >= 1, e < v["gt"], v["gt"] <= TEND, v["b"].n + v["raw"].n <= MAX_P1, gp < A1] + first_readout_facts() + [clean_at(gp), inside_first(gp), clean_at(e + 1)]
        if not hunt: st.pc += [gp >= 1, G[gp - 1] == LF]
        bound = lambda K, v=v: [v["b"].n <= K, v["raw"].n <= K, v["gt"] <= 3 * K + 4, TEND <= 4 * K + 8, A0 <= K, A1 <= 3 * K]
        cases = {"the reader is still inside the noise before the first readout": gp < A0, "the reader stands at the start of the first readout": gp == A0, "the line about to be read ends the first readout": e + 1 == A1}
        for nm, c in cases.items():
            out.append(Obligation(f"canary.resync_p1_never[{nm}][{'hunt' if hunt else 'collecting'}]", list(st.pc), z3.Not(c), kind="canary", expect_refuted=True, meta={"refute_bound": bound}))
    return out

def group_resync_p1(repo):
    eng = M.mk_engine(repo); M.install_p1(eng)
    return eng, resync_obligations(eng) + resync_canaries(eng), {}

def cover_canaries(eng):
    """the hypotheses are satisfiable together with every kind of line the loop can meet (each `never` must be refuted)"""
    out = []
    for hunt in (True, False):
        st = State(); rd, buf = mk_p1reader(st, hunt, tag="__cov", eng=eng)
        for _, g in p1_inv(st, rd): st.pc.append(g)
        v = p1_view(st, rd); gp = v["gp"]; e = S.FIDX(G, LFb, gp, v["gt"])
        st.pc += [v["pl"] >= 1, e < v["gt"], v["gt"] <= TEND, A0 >= 0, NRO(A0) == 0, z3.Not(IN(A0)), v["b"].n + v["raw"].n <= MAX_P1] + [g for _, g in state_goals(st, rd, gp)] + [clean_at(gp), clean_at(e + 1)]
        bound = lambda K, v=v: [v["b"].n <= K, v["raw"].n <= K, v["gt"] <= 3 * K + 4, TEND <= 4 * K + 8, A0 <= K]
        cases = {"an identification line is accepted": z3.BoolVal(True)} if hunt else {"a data line is collected": G[gp] != BANG, "an end line completes a readout": G[gp] == BANG}
        for nm, c in cases.items():
            out.append(Obligation(f"canary.clean_p1_step_never[{nm}][{'hunt' if hunt else 'collecting'}]", list(st.pc), z3.Not(c), kind="canary", expect_refuted=True, meta={"refute_bound": bound}))
    return out

def group_clean_p1(repo):
    eng = M.mk_engine(repo); lem = M.install_p1(eng)
    return eng, clean_stream_obligations(eng) + cover_canaries(eng), {}
