"""C12 — AutoDecoder picks a decoder that accepts the message, across any history."""
from props import hdlc_model as M, auto_model as AM

def build(repo, tier, seed):
    r = M.groups_result([("autodecoder", AM.group_auto, (repo,))])
    r.functions = [AM.A + x for x in (".__init__", ".previous_success_decoder", ".decode_message_payload", ".decode_message")]
    r.assumptions = ["each decoder is a function of the payload with outcome in {returns a dictionary, ConstructError, ValueError} (other exceptions are excluded by C15's obligations on the decoders)",
                     "message.payload is side-effect free; isinstance(message, DataReadout) decides the P1 branch"]
    r.not_decided = ["'a genuine Aidon/Kaifa/Kamstrup/P1 message is decoded by that meter's own decoder' needs rejection lemmas through the construct grammars of the other decoders: not decided here (see C07-C11 for the decoders themselves)"]
    r.explanation = ("C12: per-call contract of decode_message_payload and decode_message from the real source with the decoder table read from the source (loop unrolled over its entries, symbolic remembered index): "
                     "None exactly when every decoder rejects; otherwise the dictionary of the first accepting decoder in cyclic order from the remembered one, hence the remembered one whenever it accepts; "
                     "previous_success_decoder names it, unchanged when nobody accepts; decode_message agrees with decode_message_payload(message.payload) (P1 readouts are decoded whole by the 'P1' entry); "
                     "the class invariant (index in range) makes the contract hold after every history.")
    return r
