"""C12 — AutoDecoder picks a decoder that accepts the message, across any history."""
from props import hdlc_model as M, auto_model as AM, cosem_model as CM, p1text_model as PT
from pyvc import run

def build(repo, tier, seed):
    r = M.groups_result([("autodecoder", AM.group_auto, (repo,)), ("genuine lists are refused by the other meters' decoders", CM.genuine_group, (repo,)), ("p1text", PT.group_p1text, (repo,))],
                        select=lambda oid: "AutoDecoder" in oid or "refuses" in oid or "readout_content" in oid)
    r.functions = [AM.A + x for x in (".__init__", ".previous_success_decoder", ".decode_message_payload", ".decode_message")] + sorted({o.func for o in r.obligations if o.func and "refuses" in o.oid}) + \
                  ["han.dlde.decode_p1_readout_content", "han.dlde.parse_p1_readout_content"]
    r.assumptions = ["each decoder is a function of the payload with outcome in {returns a dictionary, ConstructError, ValueError} (other exceptions are excluded by C15's obligations on the decoders)",
                     "message.payload is side-effect free; isinstance(message, DataReadout) decides the P1 branch",
                     "rejection lemmas: construct 2.10.70 combinator semantics as in C07-C09 (every model is replayed through the real decoder); layouts have a fixed structure with symbolic values",
                     "the P1 text decoder on a binary list: decode_p1_readout_content returns only for text without control octets (clause proved on the real function in the p1text group); every documented list starts with the "
                     "array / structure tag 0x01 / 0x02 (checked per layout), so it is refused - combining the two is a one-step argument made here, the bounded search genuine_fresh cross-checks it on the real code"]
    r.not_decided = ["genuine P1 text against the three frame decoders is executed symbolically for texts of 0..10 and 24 octets over the text alphabet (every path is refused at the latest at the APDU date-time octet, offset 8); "
                     "that longer texts take the same path (nothing beyond offset 9 is read before the refusal) is an argument, not an obligation; C11's bounded AutoDecoder-agreement run covers generated blocks on the real code"]
    r.explanation = ("C12: (1) per-call contract of decode_message_payload and decode_message from the real source with the decoder table read from the source (loop unrolled over its entries, symbolic remembered index): "
                     "None exactly when every decoder rejects; otherwise the dictionary of the first accepting decoder in cyclic order from the remembered one, hence the remembered one whenever it accepts; "
                     "previous_success_decoder names it, unchanged when nobody accepts; decode_message agrees with decode_message_payload(message.payload) (P1 readouts are decoded whole by the 'P1' entry); "
                     "the class invariant (index in range) makes the contract hold after every history. (2) Genuine messages: for each of the documented Aidon / Kaifa / Kamstrup lists (frame and bare body, values symbolic) every "
                     "binary decoder that a fresh AutoDecoder tries before the list's own decoder is executed symbolically through the grammar layer and shown to end in ConstructError / ValueError on every path (103 list x decoder "
                     "pairs, plus P1 text against the frame decoders); with (1) and the decoders' own contracts (C07-C09) a fresh AutoDecoder, and one that remembers the same meter and form, returns the own decoder's dictionary.")
    b = run.rt_call("C12", "genuine_fresh", {"seed": seed, "n": 40 if tier == "quick" else 1500})
    r.bounded.append(b if "name" in b else {"name": "genuine_fresh", "error": b.get("error", b)})
    return r

def fallback(repo, tier, seed):
    b = run.rt_call("C12", "bounded_search", {"seed": seed})
    return [b if "name" in b else {"name": "bounded_search", "error": b.get("error", b)}]
