"""C06: chunk independence of HdlcFrameReader.read() for EVERY byte stream, as a contract of the real read() proved through _read_next's contract.

The ideal receiver.  Ghost functions of the stream position p define, by recurrence on p alone, what a receiver that reads G one octet at a time holds
just before it reads G[p]:  hunting(p), frame array / length / pending escape / raw length  fa(p), fn(p), fe(p), rn(p),  and done(p) = number of frames
completed before p.  The recurrences IDEAL(p) below are the transition clauses T1-T13 of _read_next read as *definitions* (plus what read() does after a
completed frame: a new empty frame).  They assume nothing about the stream: noise, truncated, corrupted and over-long frames are all covered.

Contract of read() for any chunk, in any state reachable this way:
  pre   reader invariant, nothing unconsumed,  STATE(g): the reader's (mode, frame array, length, pending escape, raw length) are the ideal receiver's at g
  post  STATE(g + len(chunk));  the frames returned are exactly the ideal receiver's completions in [g, g + len(chunk)), in order, each with the ideal octets.
The ideal receiver is a function of the stream only, so the concatenation of the results of any sequence of calls is the list of ideal completions of the
whole stream, whatever the splitting (sequential composition: pre- and postcondition are the same predicate of the position).  A new reader is STATE(0) with
hunting(0).
"""
import z3
from pyvc.engine import *
from pyvc import speclib as S
from props import hdlc_model as M
from props.hdlc_model import G, R, H, I, NEWARR, reader_view, reader_inv, assume_inv, mk_reader, cfg_label, _calls

B = z3.BoolSort()
HUNT = z3.Function("ideal_hunting", I, B); FN = z3.Function("ideal_n", I, I); FE = z3.Function("ideal_pending", I, B); FA = z3.Function("ideal_array", I, BYTE_ARR)
RN = z3.Function("ideal_raw_n", I, I); DONE = z3.Function("ideal_completed_before", I, I)

def frame_start(q): return z3.And(z3.Not(HUNT(q)), FN(q) == 0, z3.Not(FE(q)), RN(q) == 0, FA(q) == NEWARR(q))
def completes(p, cfg):
    """the ideal receiver completes a frame on the octet at p"""
    stuffing, abort = cfg; n = FN(p); a = FA(p); cp = S.CP(a, n)
    hcs = z3.And(cp != -1, n > cp + 2); aborted = z3.And(z3.BoolVal(abort), RN(p) > 1, G[p - 1] == 0x7D)
    base = z3.And(z3.Not(HUNT(p)), G[p] == 0x7E, n > 0, hcs, z3.Not(aborted))
    return base if stuffing else z3.And(base, n >= 2, z3.BV2Int(S.len_field(a)) == n)
def ideal_at(p, cfg):
    """IDEAL(p): the definition of the ideal receiver's state at p+1 from its state at p and the octet G[p]  (p >= 0)"""
    stuffing, abort = cfg; c = G[p]; flag = c == 0x7E; n = FN(p); a = FA(p); esc = FE(p); rn = RN(p); q = p + 1; cp = S.CP(a, n)
    hcs = z3.And(cp != -1, n > cp + 2); aborted = z3.And(z3.BoolVal(abort), rn > 1, G[p - 1] == 0x7D)
    def grow(octet, n_after, esc_after, arr_after):
        return z3.If(n_after > 2047, HUNT(q), z3.And(z3.Not(HUNT(q)), FN(q) == n_after, FE(q) == esc_after, RN(q) == rn + 1, FA(q) == arr_after))
    comp = completes(p, cfg)
    if stuffing:
        grows = z3.Not(z3.And(z3.Not(esc), c == 0x7D)); octet = z3.If(esc, c ^ 0x20, c)
        data = grow(octet, z3.If(grows, n + 1, n), z3.Not(grows), z3.If(grows, z3.Store(a, n, octet), a))
        flag_other = z3.BoolVal(False)          # with stuffing every flag in a non-empty frame with a complete header completes it or aborts it
    else:
        data = grow(c, n + 1, z3.BoolVal(False), z3.Store(a, n, c))
        flag_other = grow(c, n + 1, z3.BoolVal(False), z3.Store(a, n, c))          # a flag elsewhere than at the announced length is frame data
    in_frame = z3.If(flag,
                     z3.If(n == 0, z3.And(z3.Not(HUNT(q)), FN(q) == 0, z3.Not(FE(q)), RN(q) == 0, FA(q) == a),
                     z3.If(z3.Or(z3.Not(hcs), aborted), HUNT(q),
                     z3.If(comp, frame_start(q), flag_other))),
                     data)
    step = z3.If(HUNT(p), z3.If(flag, frame_start(q), HUNT(q)), in_frame)
    return z3.Implies(p >= 0, z3.And(step, DONE(q) == DONE(p) + z3.If(comp, 1, 0)))

def state_goals(st, rd, g):
    v = reader_view(st, rd)
    if v["fr"] is None: return [("ideal receiver: hunting", HUNT(g))]
    d = st.getf(v["fr"], "_frame_data")
    return [("ideal receiver: in a frame", z3.Not(HUNT(g))), ("ideal receiver: same frame octets", z3.And(d.arr == FA(g), d.n == FN(g))),
            ("ideal receiver: same pending escape and raw length", z3.And(v["esc"] == FE(g), v["raw"].n == RN(g)))]

def hunt_skip_lemma(cfg):
    """while the ideal receiver hunts and no flag arrives it keeps hunting and completes nothing: induction on the distance to the next flag"""
    i, j, m = z3.Ints("i__hs j__hs m__hs"); FI = S.FI
    K = lambda i_: z3.And(HUNT(j), DONE(j) == DONE(i_))
    pre = [HUNT(i), i >= 0, i <= j, j <= FI(G, i, m)]
    obls = [Obligation(f"lemma.ideal_hunt_skip#base[{cfg_label(cfg, True).rsplit(',', 1)[0]}]", pre + [i == j], K(i), use_axioms=False, kind="lemma"),
            Obligation(f"lemma.ideal_hunt_skip#step[{cfg_label(cfg, True).rsplit(',', 1)[0]}]", pre + [i < j, ideal_at(i, cfg), z3.Implies(z3.And(HUNT(i + 1), j <= FI(G, i + 1, m)), z3.And(HUNT(j), DONE(j) == DONE(i + 1)))], K(i), use_axioms=False, kind="lemma")]
    # flag_idx points at a flag whenever it is inside the range (the `find` of the real code returns it)
    a = z3.Const("a__fh", BYTE_ARR); n = z3.Int("n__fh")
    Hh = lambda i_: z3.Implies(FI(a, i_, n) < n, a[FI(a, i_, n)] == 0x7E)
    obls += [Obligation("lemma.flag_idx_hit#base", [i >= n], Hh(i), use_axioms=False, kind="lemma"), Obligation("lemma.flag_idx_hit#step", [i < n, Hh(i + 1)], Hh(i), use_axioms=False, kind="lemma")]
    inst = lambda lo, mid, end: z3.And(z3.Implies(z3.And(HUNT(lo), lo >= 0, lo <= mid, mid <= FI(G, lo, end)), z3.And(HUNT(mid), DONE(mid) == DONE(lo))),
                                       z3.Implies(FI(G, lo, end) < end, G[FI(G, lo, end)] == 0x7E))
    return obls, inst

def ideal_obligations(eng, cfg):
    stuffing, abort = cfg; lab = cfg_label(cfg, True).rsplit(",", 1)[0]
    fn_rd, mod, cls = eng.funcs[R + "read"]
    lem, skip = hunt_skip_lemma(cfg)
    obls = list(lem)
    for in_frame in (False, True):
        st = State(); rd, buf = mk_reader(st, cfg, in_frame, eng=eng); assume_inv(st, rd)
        v0 = reader_view(st, rd); st.pc.append(v0["pl"] == 0)
        cn = z3.Int("cn")
        if not any(str(cn) == str(x) for x in eng.len_vars): eng.len_vars.append(cn)
        gt0, gle0 = v0["gt"], v0["gle"]; gt1 = gt0 + cn
        st.pc += [cn >= 0, gt0 >= 0] + [g for _, g in state_goals(st, rd, gt0)]
        # hunt mode at the start of the call: read() skips to the first flag of the chunk (instance of the hunt-skip lemma for that jump, and for the jump to the chunk's end)
        st.pc += [skip(gt0, S.FI(G, gt0, gt1), gt1)]
        root = f"{R}read[ideal receiver,{cfg_label(cfg, in_frame)}]"
        ctx = Ctx(eng, mod, cls, R + "read", root_name=root); ctx.verifying = R + "read"
        st.locals = {"self": rd, "data_chunk": SBytes(G, cn, gt0)}
        st.ghost["delivered"] = SInt(z3.IntVal(0))
        def hook(st_, lst, item, ctx_, node_, rd=rd):
            ok = isinstance(item, Ref) and item == st_.ghost.get("completed_frame") and all(item != x for x in st_.ghost.get("appended", ()))
            ctx_.oblige(st_, "post:returned object is the frame just completed", z3.BoolVal(ok), node_)
            if not ok: return
            v = reader_view(st_, rd); d = st_.getf(item, "_frame_data"); e = st_.ghost["completed_at"] - 1
            ctx_.oblige(st_, "post:a frame is returned exactly where the ideal receiver completes one", completes(e, cfg), node_)
            ctx_.oblige(st_, "post:the returned frame has the ideal receiver's octets (array and length)", z3.And(d.arr == FA(e), d.n == FN(e)), node_)
            st_.setf(rd, "$g_last_end", SInt(e))
            st_.ghost["delivered"] = SInt(to_int(st_.ghost["delivered"]) + 1)
            st_.ghost["appended"] = st_.ghost.get("appended", ()) + (item,)
        eng.list_append_hook = hook
        def havoc(st_h, e, rd=rd, gt1=gt1):
            outs = []
            for shape in (True, False):
                s2 = st_h.fork(); tag = f"__l{next(_calls)}"
                rd2, buf2 = mk_reader(s2, cfg, shape, tag=tag, eng=e)
                adopt(s2, rd, rd2)
                s2.ghost["appended"] = (); s2.ghost["delivered"] = SInt(fresh("delivered", I))
                v2 = reader_view(s2, rd); gp = v2["gp"]
                if shape: s2.pc.append(z3.Implies(v2["raw"].n >= 1, v2["raw"].at(v2["raw"].n - 1) == G[gp - 1]))      # instance of 'raw octets are contiguous in the stream'
                s2.pc += [ideal_at(gp, cfg), z3.Implies(gp >= 1, ideal_at(gp - 1, cfg)),
                          skip(gp + 1, S.FI(G, gp + 1, gt1), gt1)]          # the definitions at the octet about to be read; the hunt-skip lemma for a discard on this octet
                outs.append(s2)
            return outs
        def inv(st_, e, rd=rd, gt0=gt0, gt1=gt1, gle0=gle0):
            v = reader_view(st_, rd)
            not_aliased = z3.BoolVal(all(st_.getf(rd, "_frame") != x for x in st_.ghost.get("appended", ())))
            extra = [("hunting inside read(): the next octet is a flag (everything before it was skipped)", z3.Or(v["pl"] == 0, G[v["gp"]] == 0x7E))] if v["fr"] is None else []
            return list(reader_inv(st_, rd)) + state_goals(st_, rd, v["gp"]) + extra + \
                   [("ghost: stream length", v["gt"] == gt1), ("ghost: last end monotone", v["gle"] >= gle0), ("returned frames are no longer reachable from the reader", not_aliased),
                    ("one frame returned per completion of the ideal receiver so far", to_int(st_.ghost["delivered"]) == DONE(v["gp"]) - DONE(gt0)), ("position", v["gp"] >= gt0)]
        def dec(st_, e, rd=rd): return reader_view(st_, rd)["pl"]
        eng.loop_specs[(R + "read", 0)] = (inv, dec, {}, havoc)
        st.setf(rd, "$g_total", SInt(gt1)); st.ghost["chunk_is_stream_segment"] = (gt0, gt1)
        n0 = len(ctx.obls)
        for st1, flow, val in eng.exec_block(fn_rd.body, st, ctx):
            eng.stats["paths"] += 1
            if not eng.feasible(st1): continue
            if flow == RAISE:
                ctx.oblige(st1, f"raises:nothing escapes ({val.exc})", z3.BoolVal(False), fn_rd); continue
            v = reader_view(st1, rd)
            for name, g in state_goals(st1, rd, gt1): ctx.oblige(st1, f"post:{name} (at the new stream position: the next call starts from the same contract)", g, fn_rd)
            ctx.oblige(st1, "post:every octet of the chunk has been consumed", v["pl"] == 0, fn_rd)
            ctx.oblige(st1, "post:the frames returned are the ideal receiver's completions inside the chunk (count)", to_int(st1.ghost["delivered"]) == DONE(gt1) - DONE(gt0), fn_rd)
        for o in ctx.obls[n0:]: o.meta.update(replay="replay_ideal", witness=M.reader_witness(eng, cfg, in_frame, extra=[("cn", cn)]), chunk=True)
        obls += ctx.obls
    eng.list_append_hook = None
    return obls

def cover_canaries(eng, cfg):
    """every kind of step of the ideal receiver is reachable from a state the contract admits (each `never` must be refuted), and the precondition is satisfiable"""
    stuffing, abort = cfg; lab = cfg_label(cfg, True).rsplit(",", 1)[0]; out = []
    from props import spec_py as sp
    hdr = bytes([0xA0, 0x07, 0x03, 0x21, 0x13]); f = sp.fcs16(hdr); octs = hdr + bytes([f & 0xFF, f >> 8])
    for in_frame in (False, True):
        st = State(); rd, buf = mk_reader(st, cfg, in_frame, tag="__cov", eng=eng); assume_inv(st, rd)
        v = reader_view(st, rd); gp = v["gp"]
        st.pc += [v["pl"] >= 1, gp >= 1] + [g for _, g in state_goals(st, rd, gp)] + [ideal_at(gp, cfg), ideal_at(gp - 1, cfg)]
        if in_frame:
            d = st.getf(v["fr"], "_frame_data"); st.pc.append(z3.Implies(v["raw"].n >= 1, v["raw"].at(v["raw"].n - 1) == G[gp - 1]))
            bound = lambda K, v=v, d=d: [v["b"].n <= K, v["raw"].n <= K, v["gt"] <= 2 * K + 4, d.n <= K]
            hint = lambda K, v=v, d=d: [v["b"].n <= 9, v["gt"] <= 30, d.n == 7, v["raw"].n == 7] + [d.arr[i] == octs[i] for i in range(7)]
            cases = {"a frame completes": (completes(gp, cfg), hint), "a frame is discarded (flag before the header is complete)": (z3.And(G[gp] == 0x7E, d.n > 0, HUNT(gp + 1)), bound),
                     "a data octet is stored": (z3.And(G[gp] != 0x7E, FN(gp + 1) == d.n + 1), bound), "inter-frame fill": (z3.And(G[gp] == 0x7E, d.n == 0), bound)}
        else:
            bound = lambda K, v=v: [v["b"].n <= K, v["raw"].n <= K, v["gt"] <= 2 * K + 4]
            cases = {"a frame starts": (G[gp] == 0x7E, bound), "noise is skipped": (G[gp] != 0x7E, bound)}
        for nm, (c, bd) in cases.items():
            out.append(Obligation(f"canary.ideal_receiver_step_never[{nm}][{cfg_label(cfg, in_frame)}]", list(st.pc), z3.Not(c), kind="canary", expect_refuted=True, meta={"refute_bound": bd}))
    return out

def group_ideal(repo, cfg):
    eng = M.mk_engine(repo); M.frame_obligations(eng, want=())
    M.reader_obligations(eng, configs=[cfg], methods=())          # installs the call-site contract of _read_next (proved in the reader groups)
    return eng, ideal_obligations(eng, cfg) + cover_canaries(eng, cfg), {}
