"""Run-time twin for han/dlde.py contracts (real code, /venv/bin/python)."""
import re, random
from han import dlde
from props import spec_py as sp

HEX = b"0123456789abcdefABCDEF"
def spec_is_ident(t):
    """identification line, written from the statement: '/' 2 upper-case letters, a letter, a digit, optional '\\'+word-char escapes,
    0..16 printable characters, optional CRLF (then end, or end before a final LF: the '$' of the pattern)"""
    if t.endswith("\n") and not t.endswith("\r\n") : t = t[:-1]       # '$' also matches just before a trailing newline
    elif t.endswith("\r\n\n"): t = t[:-1]
    if t.endswith("\r\n"): t = t[:-2]
    if len(t) < 5 or t[0] != "/" or not ("A" <= t[1] <= "Z" and "A" <= t[2] <= "Z") or not (t[3].isascii() and t[3].isalpha()) or not ("0" <= t[4] <= "9"): return False
    i = 5
    # greedy escapes with backtracking: try every split
    def rest_ok(j):
        r = t[j:]; return len(r) <= 16 and all(" " <= c <= "~" for c in r)
    j = i; cands = [i]
    while j + 1 < len(t) and t[j] == "\\" and (t[j + 1].isalnum() and t[j + 1].isascii() or t[j + 1] == "_"):
        j += 2; cands.append(j)
    return any(rest_ok(c) for c in cands)
def str_strip(b):
    ws = b" \t\n\r\x0b\x0c\x1c\x1d\x1e\x1f"
    l, h = 0, len(b)
    while l < h and b[l] in ws: l += 1
    while h > l and b[h - 1] in ws: h -= 1
    return b[l:h]
def int16(t):
    try: return int(t.decode("ascii"), 16)
    except ValueError: return None

def check_readout(data):
    """-> list of broken contract clauses of DataReadout on this input"""
    data = bytes(data); bad = []
    s = data.lstrip(b" \t\n\r\x0b\x0c")
    should_raise = len(s) == 0 or s[0] != 0x2F or b"!" not in s
    try: ro = dlde.DataReadout(data)
    except (ValueError, IndexError) as ex:
        return [] if should_raise else [f"__init__ raised {ex!r} on well-formed input"]
    except Exception as ex: return [f"__init__ raised {ex!r}"]
    if should_raise: return ["__init__ accepted input without '/' start or without '!'"]
    endp = s.index(b"!"); datap = s.find(b"\n") + 1
    crc = sp.crc16_arc(s[:endp + 1])
    if ro._calculated_crc != crc: bad.append(f"calculated crc {ro._calculated_crc:#x} != crc16_arc {crc:#x}")
    for name in ("is_valid", "payload", "as_bytes", "message_type"):
        try: getattr(ro, name)
        except Exception as ex: bad.append(f"C14 {name} raised {ex!r}")
    if bad: return bad
    v = ro.is_valid
    end = str_strip(s[endp:]) if s[endp:].isascii() else None
    first_ascii = s[:datap].isascii()
    ident_ok = first_ascii and spec_is_ident(str_strip(s[:datap]).decode("ascii"))
    has_cs = end is not None and len(end) > 1
    cs = int16(str_strip(end[1:])) if has_cs else None
    if v and has_cs and cs != crc: bad.append(f"(i)/(ii) valid although the checksum text {end[1:]!r} does not equal the calculated {crc:#06x}")
    if v and not ident_ok: bad.append("(iii) valid although the first line is not an identification line")
    if s.isascii() and ident_ok and (not has_cs or cs == crc) and not v: bad.append("(iv) correctly check-summed all-ASCII readout with identification line reported invalid")
    if ro.payload != s[datap:endp]: bad.append("(v) payload != readout[data_pos:end_pos]")
    if ro.as_bytes != s: bad.append("as_bytes != readout")
    return bad

def replay_readout(p):
    data = bytes(p["witness"].get("readout", []))
    # the model's octets as they are, and wrapped into a constructible readout (function-level pre-states need not start with '/')
    for cand in (data, b"/" + data.replace(b"!", b"") + b"!\r\n", b"/ABC5\r\n" + data.replace(b"!", b"").replace(b"\n", b"") + b"\r\n!\r\n"):
        bad = check_readout(cand)
        if bad: return {"violated": True, "detail": {"readout": cand.decode("latin1"), "broken": bad[:4]}}
    return search_readouts(p)

def gen_readouts(rnd, n):
    ids = [b"/AUX5UXXXXXXXXXXXXXXX", b"/KFM5KAIFA-METER", b"/ADN9 6534", b"/ABC5", b"/ab5x", b"/ABC5\\2id"]
    for _ in range(n):
        ident = rnd.choice(ids); eol = rnd.choice([b"\r\n", b"\r\n", b"\n"])
        lines = [rnd.choice([b"1-0:1.8.0(00006678.394*kWh)", b"0-0:1.0.0(210217184019W)", b"1-0:32.7.0(240.3*V)", b"", b"x\xff", b"a!b", bytes(rnd.randrange(1, 128) for _ in range(6)).replace(b"!", b"?").replace(b"\n", b"?")]) for _ in range(rnd.randrange(0, 4))]
        body = ident + eol + eol + b"".join(l + eol for l in lines) + b"!"
        crc = sp.crc16_arc(body)
        cs = rnd.choice([b"%04X" % crc, b"%04x" % crc, b"0000", b"", b"%04X" % (crc ^ 1), b"zz", b"12\xff", b" %04X " % crc])
        yield body + cs + eol
def search_readouts(p, n=3000):
    rnd = random.Random(p.get("seed", 1))
    for data in gen_readouts(rnd, n):
        bad = check_readout(data)
        if bad: return {"violated": True, "detail": {"readout": data.decode("latin1"), "broken": bad[:4]}, "found_by": "bounded search over generated readouts"}
    return {"violated": False, "inconclusive": True, "detail": "model input does not break the contract on the real code; bounded search found nothing"}

def replay_ident(p):
    import codecs
    t = p["witness"].get("text", "")
    if isinstance(t, str):
        t = re.sub(r"\\u\{([0-9a-fA-F]+)\}", lambda m: chr(int(m.group(1), 16)), t)
    got = bool(dlde._ident_pattern.match(t)); exp = spec_is_ident(t)
    if got != exp: return {"violated": True, "detail": f"Ident.is_ident_line({t!r}) == {got}, specified language says {exp}"}
    rnd = random.Random(3); alpha = "/ABCabc059\\_ -~!\r\n\t\x7f"
    for _ in range(20000):
        base = rnd.choice(["/ABC5", "/KFM5KAIFA", "/AB\\2", "/ABc9\\1\\2xyz"]) ; k = rnd.randrange(0, 20)
        t = base + "".join(rnd.choice(alpha) for _ in range(k)) + rnd.choice(["", "\r\n", "\n", "\r"])
        if rnd.random() < 0.2: t = t[:rnd.randrange(len(t))] + rnd.choice(alpha) + t[rnd.randrange(len(t)):]
        got = bool(dlde._ident_pattern.match(t)); exp = spec_is_ident(t)
        if got != exp: return {"violated": True, "detail": f"Ident.is_ident_line({t!r}) == {got}, specified language says {exp}", "found_by": "bounded search"}
    return {"violated": False, "inconclusive": True, "detail": "no distinguishing text found"}

# ----------------------------------------------------------------------------- ModeDReader: run-time contracts and bounded API-level search
MAX_P1 = 8191
def p1_state_check(r, G, delivered_end):
    """clauses of props/dlde_model.p1_inv + read() postconditions, evaluated on the real reader after a read() call"""
    bad = []; b = r._buffer._buffer; pos = r._buffer._buffer_pos; raw = bytes(r._raw_data)
    if not (0 <= pos <= len(b)): return ["buffer position in range"]
    pending = bytes(b[pos:]); gp = len(G) - len(pending)
    if pending != G[gp:]: bad.append("ghost: unconsumed input is the tail of the stream received so far")
    if b"\n" in pending: bad.append("no complete line is left unconsumed")
    if len(b) + len(raw) > MAX_P1: bad.append(f"C19 len(buffer) + len(collected) = {len(b) + len(raw)} > {MAX_P1}")
    if r._is_int_hunt_mode:
        if raw: bad.append("hunt mode => no collected octets")
    else:
        if not raw or raw != G[gp - len(raw):gp]: bad.append("ghost: collected octets are the contiguous stream segment that ends at the read position")
        elif raw[0] != 0x2F: bad.append("collected octets start with '/'")
        else:
            first = raw.split(b"\n")[0] + b"\n"
            if b"\n" not in raw or not first.isascii() or not spec_is_ident(first.decode("ascii")): bad.append("collected octets start with a complete ASCII identification line")
    return bad

def p1_history_check(chunks, clause_filter=None):
    r = dlde.ModeDReader(); G = b""; fed = []
    for ch in chunks:
        G += ch; fed.append(ch)
        try: out = r.read(ch)
        except Exception as ex: return {"history": short_hist(fed), "raised": repr(ex), "broken": [f"C14 read raised {ex!r}"]}
        bad = p1_state_check(r, G, None)
        consumed = len(G) - (len(r._buffer._buffer) - r._buffer._buffer_pos)
        for ro in out:
            try:
                a = ro.as_bytes; ro.is_valid; ro.payload; ro.message_type
            except Exception as ex: bad.append(f"C14 message property raised {ex!r}"); continue
            if a not in G[:consumed]: bad.append("returned readout is not a contiguous segment of the consumed input")
            if a[:1] != b"/" or not a.endswith(b"\n") or b"\n!" not in a: bad.append("returned readout is not '/'...'!' line")
        if clause_filter: bad = [x for x in bad if any(c in x for c in clause_filter)]
        if bad: return {"history": short_hist(fed), "broken": bad[:4]}
    return None
def short_hist(fed):
    return [(c.decode("latin1") if len(c) <= 60 else f"<{len(c)} octets starting {c[:16]!r}>") for c in fed][-6:]

def gen_p1_streams(rnd, n):
    good = list(gen_readouts(rnd, 12))
    noise = [b"/", b"!", b"\n", b"\r\n", b"/AB\xff5\r\n", b"/ABC5\r\n", b"x", b"!zz\r\n", b"\x7e\xa0", b"/ABC5id!x\r\n"]
    for _ in range(n):
        parts = [rnd.choice(good) if rnd.random() < 0.5 else rnd.choice(noise) for _ in range(rnd.randrange(1, 8))]
        s = b"".join(parts); cuts = sorted(rnd.sample(range(len(s) + 1), min(len(s) + 1, rnd.randrange(0, 5))))
        yield [s[a:b] for a, b in zip([0] + cuts, cuts + [len(s)])]
LONG = [[b"/" * 4096] * 6, [b"/ABC5\r\n"] + [b"dd/mm/yy;" * 450] * 6, [b"/" + b"x" * 3000] * 6, [b"/ABC5\r\n"] + [b"1-0:1.8.0(1)\r\n" * 200] * 8, [b"x" * 5000] * 4, [b"/ABC5\r\n" * 400] * 6]

def replay_p1_read(p):
    obl = p.get("obligation", ""); clause = obl.split("#", 1)[1] if "#" in obl else ""
    key = None
    if "C05 nothing is discarded" in clause:
        b = clean_stream_check({"n": 120, "seed": 4})
        if b["violations"]: return {"violated": True, "detail": b["violations"][0], "found_by": b["name"]}
        return {"violated": False, "inconclusive": True, "detail": "bounded clean-stream search found nothing"}
    for c in ("C19", "C14", "hunt mode", "contiguous", "identification line", "left unconsumed", "tail of the stream", "start with '/'"):
        if c in clause: key = [c]; break
    rnd = random.Random(2)
    for chunks in LONG + list(gen_p1_streams(rnd, 1500)):
        v = p1_history_check(chunks, key)
        if v: return {"violated": True, "detail": v, "found_by": "bounded API-level search"}
    return {"violated": False, "inconclusive": True, "detail": "bounded API-level search found no history breaking this clause"}

def clean_stream_check(p):
    """C05 bounded stand-in: clean streams of well-formed readouts (optionally after the tail of a readout), every chunking tried from a fixed family;
    every readout must be returned once, in order, byte-identical and valid."""
    rnd = random.Random(p.get("seed", 0)); n = p.get("n", 300); ev = 0; distinct = set(); bad = []
    for it in range(n):
        k = rnd.randrange(1, 30 if it % 10 else 200)
        ros = []
        for _ in range(k):
            ident = rnd.choice([b"/AUX5UXXXXXXXXXXXXXXX", b"/KFM5KAIFA-METER", b"/ADN9 6534", b"/ABC5"]); eol = b"\r\n"
            lines = [rnd.choice([b"1-0:1.8.0(00006678.394*kWh)", b"0-0:1.0.0(210217184019W)", b"1-0:32.7.0(240.3*V)", b"0-0:96.1.1(4B384547303034303436333935353037)"]) for _ in range(rnd.randrange(0, 40))]
            body = ident + eol + eol + b"".join(l + eol for l in lines) + b"!"
            cs = (b"%04X" % sp.crc16_arc(body)) if rnd.random() < 0.85 else b""
            ros.append(body + cs + eol)
        tail = rnd.choice([b"", b"", b"7.0(240.3*V)\r\n!ABCD\r\n", b"\r\n"])
        s = tail + b"".join(ros)
        size = rnd.choice([1, 7, 64, 100, 1000, 4096, len(s)])
        chunks = [s[i:i + size] for i in range(0, len(s), size)] if rnd.random() < 0.7 else None
        if chunks is None:
            cuts = sorted(rnd.sample(range(len(s) + 1), min(len(s) + 1, rnd.randrange(0, 12)))); chunks = [s[a:b] for a, b in zip([0] + cuts, cuts + [len(s)])]
        r = dlde.ModeDReader(); got = []
        for ch in chunks: got += r.read(ch)
        ev += 1; distinct.add((len(s), size, k))
        gb = [g.as_bytes for g in got]
        if gb != ros or not all(g.is_valid for g in got):
            bad.append({"readouts": k, "chunk_size": size, "stream_len": len(s), "delivered": len(gb), "first_missing_or_wrong": next((i for i, (x, y) in enumerate(zip(gb + [None] * k, ros)) if x != y), None)})
            break
    return {"name": "clean_p1_stream (C05 lemma as bounded stand-in)", "bound": f"{n} streams of 1..200 well-formed readouts (0..40 data lines), fixed-size chunks 1/7/64/100/1000/4096/whole and random cuts", "evaluations": ev,
            "distinct_nontrivial": len(distinct), "violations": bad[:2]}

def p1_ideal_functions(s):
    """the ghost functions of props/clean_p1.py on a concrete stream: A0, and for every line start p >= A0: in_readout, readout_start, readouts_before;
    also checks the hypotheses CLEAN(p) (identification / data / end lines, sizes, no '/' in the leading tail)"""
    bad = []
    A0 = s.find(b"/"); A0 = len(s) if A0 < 0 else A0
    IN = {}; RS = {}; NRO = {}; p = A0; inr = False; rs = None; n = 0
    IN[A0] = False; NRO[A0] = 0
    while p < len(s):
        e = s.find(b"\n", p)
        if e < 0: bad.append(f"the transmission does not end with a complete line (line start {p})"); break
        line = s[p:e + 1]; IN[p] = inr; RS[p] = rs; NRO[p] = n
        if not inr:
            if not (line[:1] == b"/" and line.isascii() and spec_is_ident(line.decode("ascii"))): bad.append(f"line at {p} should be an identification line")
            if e + 1 - p > 8191: bad.append("identification line too long")
            inr = True; rs = p
        else:
            if e + 1 - rs > 8191: bad.append(f"readout starting at {rs} is longer than the bound")
            if line[:1] == b"!": inr = False; n += 1
        p = e + 1
    IN[p] = inr; RS[p] = rs; NRO[p] = n
    return A0, IN, RS, NRO, bad

def p1_ideal_check(p):
    """the clean-stream contract of ModeDReader.read() (props/clean_p1.py) evaluated on the real reader after every call (bounded: generated streams)"""
    rnd = random.Random(p.get("seed", 0)); n = p.get("n", 200); ev = 0; distinct = set(); bad = []
    for it in range(n):
        k = rnd.randrange(1, 12 if it % 10 else 60); ros = []
        for _ in range(k):
            ident = rnd.choice([b"/AUX5UXXXXXXXXXXXXXXX", b"/KFM5KAIFA-METER", b"/ADN9 6534", b"/ABC5"]); eol = rnd.choice([b"\r\n", b"\n"])
            lines = [rnd.choice([b"1-0:1.8.0(00006678.394*kWh)", b"0-0:1.0.0(210217184019W)", b"1-0:32.7.0(240.3*V)", b"", b"x y"]) for _ in range(rnd.randrange(0, 25))]
            if rnd.random() < 0.15: lines.insert(rnd.randrange(len(lines) + 1), b"0-0:96.13.0(" + b"4B" * rnd.choice([90, 128, 500, 1024, 2000]) + b")")      # long lines (text messages)
            body = ident + eol + eol + b"".join(l + eol for l in lines) + b"!"
            ros.append(body + ((b"%04X" % sp.crc16_arc(body)) if rnd.random() < 0.85 else b"") + eol)
        tail = rnd.choice([b"", b"", b"7.0(240.3*V)\r\n!ABCD\r\n", b"\r\n", b"0-0:96.1.1(4B38)\r\n"])
        s = tail + b"".join(ros)
        A0, IN, RS, NRO, hyp = p1_ideal_functions(s)
        if hyp: bad.append({"why": "the generated clean stream does not satisfy the hypotheses of the lemma: " + hyp[0]}); break
        size = rnd.choice([1, 3, 7, 64, 100, 1000, len(s)])
        cuts = list(range(size, len(s), size)) if rnd.random() < 0.6 else sorted(rnd.sample(range(len(s) + 1), min(len(s) + 1, rnd.randrange(0, 12))))
        r = dlde.ModeDReader(); got = []; why = None
        for a, b in zip([0] + cuts, cuts + [len(s)]):
            got += r.read(s[a:b]); ev += 1
            pl = len(r._buffer._buffer) - r._buffer._buffer_pos; ls = b - pl
            if b <= A0:
                if not r.is_in_hunt_mode or pl or got: why = f"position {b} (before the first readout): not hunting, or something buffered / returned"
            elif ls not in IN: why = f"position {b}: the unconsumed part starts at {ls}, which is not a line start of the clean stream"
            elif r.is_in_hunt_mode != (not IN[ls]): why = f"position {b}: hunt mode {r.is_in_hunt_mode}, in_readout({ls}) = {IN[ls]}"
            elif IN[ls] and bytes(r._raw_data) != s[RS[ls]:ls]: why = f"position {b}: collected octets are not the stream from {RS[ls]} to {ls}"
            elif len(got) != NRO[ls]: why = f"position {b}: {len(got)} readouts returned, {NRO[ls]} end lines consumed"
            if why: break
        if not why and ([g.as_bytes for g in got] != ros or not all(g.is_valid for g in got)): why = "readouts returned differ from the readouts sent"
        distinct.add((len(s), size, k))
        if why: bad.append({"why": why, "cuts": cuts[:12], "stream_len": len(s), "readouts": k}); break
    return {"name": "p1_ideal_check (contract of ModeDReader.read() on clean streams, evaluated on the real reader)", "bound": f"{n} generated clean streams of 1..60 readouts x fixed-size and random chunkings; hypotheses of the lemma checked on every stream",
            "evaluations": ev, "distinct_nontrivial": len(distinct), "violations": bad[:2]}

def replay_clean_p1(p):
    r = p1_ideal_check({"seed": 8, "n": 300})
    if r["violations"]: return {"violated": True, "detail": r["violations"][0], "found_by": "bounded search over generated clean streams"}
    r2 = clean_stream_check({"seed": 3, "n": 120})
    if r2["violations"]: return {"violated": True, "detail": r2["violations"][0], "found_by": r2["name"]}
    return {"violated": False, "inconclusive": True, "detail": "no generated clean stream breaks the contract on the real reader"}

def p1_resync_check(p):
    """the resync contract of ModeDReader.read() (props/clean_p1.py) on the real reader: arbitrary bytes, then clean readouts; after every call the read position has not passed the
    end of the first clean readout (A1), or the reader is in the clean-stream STATE and has returned one readout per end line after A1 (bounded: generated streams)"""
    rnd = random.Random(p.get("seed", 0)); n = p.get("n", 200); ev = 0; distinct = set(); bad = []
    noise_parts = [b"/", b"!", b"\n", b"\r\n", b"/AB\xff5\r\n", b"/ABC5\r\n", b"x", b"!zz\r\n", b"\x7e\xa0", b"/ABC5id!x\r\n", b"1-0:1.8.0(1*kWh)\r\n", b"/KFM5KAIFA-METER\r\n\r\n1-0:1.8.0(1", b"abc/def", b"\xff\xfe"]
    for it in range(n):
        noise = b"".join(rnd.choice(noise_parts) for _ in range(rnd.randrange(0, 7)))
        if it % 9 == 0: noise += b"/ABC5\r\n" + b"x" * rnd.choice([100, 5000, 9000])
        ros = []
        for _ in range(rnd.randrange(2, 7)):
            body = rnd.choice([b"/AUX5UXXXXXXXXXXXXXXX", b"/KFM5KAIFA-METER", b"/ABC5"]) + b"\r\n\r\n" + b"".join(rnd.choice([b"1-0:1.8.0(00006678.394*kWh)", b"0-0:1.0.0(210217184019W)", b""]) + b"\r\n" for _ in range(rnd.randrange(0, 12))) + b"!"
            ros.append(body + ((b"%04X" % sp.crc16_arc(body)) if rnd.random() < 0.85 else b"") + b"\r\n")
        A0 = len(noise); A1 = A0 + len(ros[0]); s = noise + b"".join(ros)
        _a, IN, RS, NRO, hyp = p1_ideal_functions(s[A0:])
        if hyp or _a != 0: bad.append({"why": "the clean part does not satisfy the hypotheses: " + (hyp[0] if hyp else "leading octets")}); break
        size = rnd.choice([1, 3, 7, 64, 1000, len(s)])
        cuts = list(range(size, len(s), size)) if rnd.random() < 0.6 else sorted(rnd.sample(range(len(s) + 1), min(len(s) + 1, rnd.randrange(0, 12))))
        r = dlde.ModeDReader(); got = []; why = None; after = []
        for a, b in zip([0] + cuts, cuts + [len(s)]):
            out = r.read(s[a:b]); ev += 1
            pl = len(r._buffer._buffer) - r._buffer._buffer_pos; gp = b - pl
            for x in out:
                got.append(x)
            if gp < A1:
                if not r.is_in_hunt_mode and not (gp >= 1 and s[gp - 1:gp] == b"\n"): why = f"position {gp} < A1: collecting but not right after a line end"
            else:
                ls = gp - A0
                if ls not in IN: why = f"position {gp} >= A1 is not a line start of the clean part"
                elif r.is_in_hunt_mode != (not IN[ls]): why = f"position {gp}: hunt mode {r.is_in_hunt_mode}, in_readout = {IN[ls]}"
                elif IN[ls] and bytes(r._raw_data) != s[A0 + RS[ls]:gp]: why = f"position {gp}: collected octets are not the stream since the readout started"
                else:
                    want = ros[1:NRO[ls]]; tail = [g.as_bytes for g in got][-len(want):] if want else []
                    if tail != want: why = f"position {gp}: the readouts after the first clean one were not all returned ({len(want)} expected)"
            if why: break
        if not why and [g.as_bytes for g in got][-(len(ros) - 1):] != ros[1:]: why = "the clean readouts after the first one were not all returned"
        distinct.add((len(noise), len(s), size))
        if why: bad.append({"why": why, "noise": noise.decode("latin1")[:80], "cuts": cuts[:12], "stream_len": len(s)}); break
    return {"name": "p1_resync_check (resync contract of ModeDReader.read(), evaluated on the real reader)", "bound": f"{n} generated streams: noise (fake identification lines, '!' lines, binary, over-long lines) + 2..6 clean readouts x chunkings",
            "evaluations": ev, "distinct_nontrivial": len(distinct), "violations": bad[:2]}
