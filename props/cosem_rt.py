"""Run-time side for the COSEM decoders (real code): replay of solver witnesses and bounded random instances of every layout;
exhaustive float sweep for the rounding lemmas assumed by the deductive side."""
import random, datetime as dtm
from decimal import Decimal
from fractions import Fraction
from props import cosem_spec as SP

class ConcV:
    """concrete field values: taken from a witness when given, random otherwise (boundary-biased)"""
    def __init__(s, rnd, fields=None): s.rnd = rnd; s.given = fields or {}; s.fields = {}
    def raw(s, name, n):
        bs = list(s.given[name]) if name in s.given else [s.rnd.choice([0, 1, 0x7F, 0x80, 0xFF, s.rnd.randrange(256)]) for _ in range(n)]
        s.fields[name] = bs; return bs
    def integer(s, name, nbytes, signed):
        if name not in s.given:
            top = 1 << (8 * nbytes)
            v = s.rnd.choice([0, 1, 7, 30099691 % top, top - 1, top // 2, top // 2 - 1, s.rnd.randrange(top), s.rnd.randrange(1000)])
            if name.endswith("_scaler"): v = s.rnd.choice([0, 1, 2, 3, 253, 254, 255, s.rnd.randrange(256)])
            s.given[name] = list(v.to_bytes(nbytes, "big"))
        bs = s.raw(name, nbytes); return bs, int.from_bytes(bytes(bs), "big", signed=signed)
    def text(s, name, L, ascii_all=False):
        if name not in s.given:
            s.given[name] = [s.rnd.randrange(0x20, 0x7F) for _ in range(L)]
            if ascii_all and not getattr(s, "printable_only", False) and s.rnd.random() < 0.5:        # control characters, NUL at either end
                for _ in range(s.rnd.randrange(1, 4)): s.given[name][s.rnd.choice([0, L - 1, s.rnd.randrange(L)])] = s.rnd.choice([0, 0, 9, 10, 13, 0x1B, 0x7F, s.rnd.randrange(0x20)])
        return s.raw(name, L)
    def not_prefix(s, chars, prefix):
        if bytes(chars[:len(prefix)]) == bytes(prefix): chars[0] = ord("1")
    def datetime(s, name):
        if name not in s.given:
            y = s.rnd.choice([1, 1999, 2000, 2024, 9999, s.rnd.randrange(1, 10000)]); mo = s.rnd.randrange(1, 13)
            dim = [31, 29 if (y % 4 == 0 and (y % 100 != 0 or y % 400 == 0)) else 28, 31, 30, 31, 30, 31, 31, 30, 31, 30, 31][mo - 1]
            dev = s.rnd.choice([0x8000, 0, 60, 720, (-720) & 0xFFFF, (-60) & 0xFFFF, s.rnd.randrange(-720, 721) & 0xFFFF])
            s.given[name] = list(y.to_bytes(2, "big")) + [mo, s.rnd.randrange(1, dim + 1), s.rnd.randrange(256), s.rnd.randrange(24), s.rnd.randrange(60), s.rnd.randrange(60), s.rnd.choice([0, 1, 50, 99, 255]),
                                                         dev >> 8, dev & 0xFF, s.rnd.choice([0, 0xFF, 0x80, s.rnd.randrange(256)])]
        b = s.raw(name, 12); dev = int.from_bytes(bytes(b[9:11]), "big", signed=True)
        return {"octets": b, "year": b[0] << 8 | b[1], "month": b[2], "day": b[3], "hour": b[5], "minute": b[6], "second": b[7], "hundredths": b[8], "deviation": dev, "status": b[11]}

def spec_value(sp):
    k = sp[0]
    if k == "text": return bytes(sp[1]).decode("ascii")
    if k == "int": return sp[1]
    if k == "int10": return sp[1] * 10
    if k == "dec": return ("num", Fraction(sp[1]) * Fraction(10) ** sp[2])
    if k == "div": return ("num", Fraction(sp[1], sp[2]))
    if k == "datetime":
        f = sp[1]
        tz = None if f["deviation"] == -32768 else dtm.timezone(dtm.timedelta(minutes=-f["deviation"]))
        return dtm.datetime(f["year"], f["month"], f["day"], f["hour"], f["minute"], f["second"], 0 if f["hundredths"] == 255 else f["hundredths"] * 10000, tz)
def value_ok(got, want):
    if isinstance(want, tuple) and want[0] == "num":
        fr = want[1]
        if isinstance(got, bool) or not isinstance(got, (int, float)): return False
        if fr.denominator == 1 and abs(fr) < 2 ** 53: return got == int(fr)
        return isinstance(got, float) and got == float(Decimal(fr.numerator) / Decimal(fr.denominator)) if False else got == fr.numerator / fr.denominator if fr.denominator != 1 else got == float(fr)
    if isinstance(want, dtm.datetime): return isinstance(got, dtm.datetime) and got == want and (got.tzinfo is None) == (want.tzinfo is None) and got.utcoffset() == want.utcoffset()
    return type(got) == type(want) and got == want

def run_case(module, func, octs, exp):
    import importlib
    m = importlib.import_module(module)
    try: got = getattr(m, func)(bytes(octs))
    except Exception as ex: return [f"{func} raised {ex!r}"]
    bad = []
    if not isinstance(got, dict): return [f"result is {type(got).__name__}"]
    if set(got) != set(exp): bad.append(f"keys differ: unexpected {sorted(set(got) - set(exp))}, missing {sorted(set(exp) - set(got))}")
    for k, sp in exp.items():
        if k in got and not value_ok(got[k], spec_value(sp)):
            w = spec_value(sp); bad.append(f"{k}: decoded {got[k]!r}, specification {(float(w[1]) if isinstance(w, tuple) else w)!r}")
    return bad

ALL_CASES = None
def all_cases():
    global ALL_CASES
    if ALL_CASES is None:
        ALL_CASES = {}
        for f in (SP.aidon_cases, SP.kaifa_cases, SP.kamstrup_cases, SP.datetime_cases): ALL_CASES.update(f())
    return ALL_CASES

def replay_decode(p):
    w = p["witness"]; label = w.get("layout"); build = all_cases().get(label)
    if build is None: return {"violated": False, "inconclusive": True, "detail": f"unknown layout {label}"}
    rnd = random.Random(7)
    V = ConcV(rnd, w.get("fields")); module, func, octs, exp = build(V)
    bad = run_case(module, func, octs, exp)
    if bad: return {"violated": True, "detail": {"layout": label, "input": bytes(octs).hex(), "broken": bad[:3]}}
    for _ in range(400):
        V = ConcV(rnd); module, func, octs, exp = build(V); bad = run_case(module, func, octs, exp)
        if bad: return {"violated": True, "detail": {"layout": label, "input": bytes(octs).hex(), "broken": bad[:3]}, "found_by": "bounded random instances of the layout"}
    return {"violated": False, "inconclusive": True, "detail": "model and 400 random instances of the layout decode as specified"}

def history_search(p):
    """bounded search over decode *histories* in one interpreter (module state reset before each history): the first list of a history is
    followed by instances of every layout; confirms models that depend on state kept between calls (module-level tables, caches)"""
    import sys, importlib
    pid = p.get("pid") or str(p.get("obligation", ""))[:0]
    cases = all_cases(); labels = list(cases); rnd = random.Random(p.get("seed", 0)); ev = 0
    def purge():
        for k in [k for k in sys.modules if k == "han" or k.startswith("han.")]: del sys.modules[k]
    for a in labels:
        for rep in range(p.get("reps", 2)):
            purge(); hist = []
            order = [a] + rnd.sample(labels, len(labels)) + rnd.sample(labels, len(labels))
            for lab in order:
                V = ConcV(rnd); module, func, octs, exp = cases[lab](V); ev += 1
                bad = run_case(module, func, octs, exp); hist.append({"layout": lab, "input": bytes(octs).hex()})
                if bad:
                    purge(); alone = run_case(module, func, octs, exp)
                    return {"violated": True, "detail": {"history": hist[-6:] if len(hist) > 6 else hist, "history_length": len(hist), "broken": bad[:3], "same_input_in_a_fresh_interpreter": "decodes as specified" if not alone else alone[:2]}}
    purge()
    return {"violated": False, "evaluations": ev, "detail": "no decode history (every layout first, then two random orders of all layouts) breaks the specification"}

def layouts_random(p):
    """bounded differential: random instances of every layout of a family"""
    fam = {"C07": SP.aidon_cases, "C08": SP.kaifa_cases, "C09": SP.kamstrup_cases, "C10": SP.datetime_cases}[p["family"]]()
    rnd = random.Random(p.get("seed", 0)); n = p.get("n", 100); ev = 0; bad = []
    for label, build in fam.items():
        for _ in range(n):
            V = ConcV(rnd); module, func, octs, exp = build(V); ev += 1
            b = run_case(module, func, octs, exp)
            if b: bad.append({"layout": label, "input": bytes(octs).hex(), "broken": b[:3]}); break
        if bad: break
    return {"name": f"random instances of every {p['family']} layout on the real decoders", "bound": f"{n} instances x {len(fam)} layouts, boundary-biased values", "evaluations": ev, "distinct_nontrivial": ev, "violations": bad[:2]}

def float_sweep(p):
    """the rounding lemmas assumed by the deductive side, on CPython floats: round(v*10**-k, k) == v/10**k.
    quick: strided + boundaries; thorough: all 2^32 values via numpy (exact reproduction: float64 multiply, Python round() checked on the non-trivial residue)"""
    import math
    bad = []; ev = 0
    pairs = [(10 ** -3, 3, 1000), (10 ** -1, 1, 10), (10 ** -2, 2, 100)]
    full = p.get("full", False)
    if full:
        try:
            import numpy as np
            for c, k, d in pairs:
                step = 1 << 24
                for lo in range(0, 1 << 32, step):
                    v = np.arange(lo, lo + step, dtype=np.float64); prod = v * c; want = v / d; ev += step
                    # round(prod, k) == want  <=>  want is the double nearest to the decimal rounding of prod at k digits; sufficient: |prod*d - v| < 1/2 exactly in longdouble
                    err = np.abs(prod.astype(np.longdouble) * np.longdouble(d) - v.astype(np.longdouble))
                    idx = np.nonzero(err >= 0.49)[0]
                    for i in idx[:50]:
                        vv = int(v[i])
                        if round(vv * c, k) != vv / d: bad.append({"v": vv, "const": c}); break
                    if bad: break
                if bad: break
            return {"name": "float rounding lemma round(v*10**-k, k) == v/10**k", "bound": "all 2^32 register values x k in (1,2,3), numpy longdouble sufficient condition, residue re-checked with Python round()", "evaluations": ev,
                    "distinct_nontrivial": ev, "violations": bad[:2], "exhaustive": not bad}
        except ImportError:
            pass
    rnd = random.Random(p.get("seed", 0))
    for c, k, d in pairs:
        vals = list(range(0, 200000)) + list(range(2 ** 32 - 100000, 2 ** 32)) + [rnd.randrange(2 ** 32) for _ in range(300000)] + list(range(0, 2 ** 32, 65521))
        for v in vals:
            ev += 1
            if round(v * c, k) != v / d: bad.append({"v": v, "const": c, "round": round(v * c, k), "div": v / d}); break
        if bad: break
    return {"name": "float rounding lemma round(v*10**-k, k) == v/10**k", "bound": "k in (1,2,3): first 200000, last 100000, 300000 random and every 65521st of the 2^32 register values (thorough: all 2^32)", "evaluations": ev,
            "distinct_nontrivial": ev, "violations": bad[:2]}

def kaifa_text_control_octets(p):
    """C08 probe outside the printable range (known finding): Kaifa identification strings are octet-strings decoded with PaddedString - trailing NUL characters are dropped - and
    twelve octets that form a date-time are read as a date-time, so 'arbitrary ASCII identification strings ... verbatim' fails for these two families of ASCII strings"""
    rnd = random.Random(p.get("seed", 0)); bad = []; ev = 0
    probes = [("kaifa body 9 values", {"p0_text": list(b"KFM_00\x00")}, "identification string ending in NUL"),
              ("kaifa body 9 values", {"p1_text": list(b"\x00\x00\x00\x00\x00\x00\x00")}, "identification string of NUL characters only"),
              ("kaifa body 13 values, 12-character texts", {"p1_text": [0x07, 0x64, 1, 1, 1, 0, 0, 0, 0, 0, 0, 0]}, "12-character identification string of control characters that encodes a date-time")]
    cases = all_cases()
    for label, given, what in probes:
        build = cases.get(label)
        if build is None: continue
        V = ConcV(rnd, dict(given)); module, func, octs, exp = build(V); ev += 1
        b = run_case(module, func, octs, exp)
        if b: bad.append({"layout": label, "what": what, "input": bytes(octs).hex(), "broken": b[:2]})
    return {"name": "kaifa identification strings with control characters (known finding)", "bound": "three probe lists", "evaluations": ev, "distinct_nontrivial": ev, "violations": bad[:1]}
