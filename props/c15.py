"""C15 — AutoDecoder returns a dictionary or None for every input, and terminates."""
from props import hdlc_model as M, auto_model as AM, p1text_model as PM
from pyvc import run

def build(repo, tier, seed):
    r = M.groups_result([("autodecoder", AM.group_auto, (repo,)), ("p1text", PM.group_p1text, (repo,))],
                        select=None)
    r.functions = [AM.A + ".decode_message_payload", AM.A + ".decode_message"] + ["han.dlde." + x for x in ("DataSetValue.parse", "DataSet.parse_data_block", "_parse_p1_datetime", "_decode_parsed", "parse_p1_readout_content", "decode_p1_readout_content")]
    r.level = "other"
    r.assumptions = ["str.split / splitlines / strip / lower return (lists of) strings; str.find is the first index at or after start (SMT IndexOf); float(str), int(float), int(str) fail only with ValueError / OverflowError as modelled",
                     "Obis.from_string either returns an Obis or raises ValueError (TypeError for None)", "construct's own parsing cost is assumed bounded by the input length"]
    r.explanation = ("C15: proved from the real source: (1) the AutoDecoder loops let nothing escape when every decoder raises only ConstructError / ValueError, and return a dictionary or None; (2) the P1 text path: "
                     "parse_data_block terminates for every text (measures: len(line) - from_pos for the value loop, len(line) - position for the data-set loop; str.find as IndexOf) and, with DataSetValue.parse, _parse_p1_datetime, "
                     "_decode_parsed (one arbitrary data set: address / unit present or not, any value text), parse_p1_readout_content and decode_p1_readout_content, lets only ValueError escape. "
                     "(3) That the six construct-based decoders raise only ConstructError / ValueError on EVERY byte string needs the type of all parse trees of each grammar; that typing argument is not mechanised: a BOUNDED "
                     "mutation fuzz of the real AutoDecoder (genuine messages of every layout, their truncations and 1..5-octet mutations, random bytes, P1 fragments, every remembered decoder, time limit per call) stands in for it. Hence 'other'.")
    r.not_decided = ["exception classes of the construct-based decoders on arbitrary byte strings: bounded fuzz only"]
    b = run.rt_call("C15", "fuzz", {"seed": seed, "n": 1500 if tier == "quick" else 60000}, timeout=6000)
    r.bounded.append(b if "name" in b else {"name": "fuzz", "error": b.get("error", b)})
    return r
