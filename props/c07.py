"""C07 — COSEM decoders through the grammar layer (see props/cosem_model.py)."""
from props import hdlc_model as M, cosem_model as CM
from pyvc import run

FUNCS = ['han.aidon.decode_frame_content', 'han.aidon.decode_notification_body', 'han.aidon.normalize_parsed_frame', 'han.aidon.normalize_parsed_notification', 'han.aidon._normalize_parsed_items', 'han.cosem.<lambdas>', 'han.obis.Obis.from_string', 'han.obis.Obis.to_group_cdr_str', 'han.obis.to_obis_tupple']
ASSUME = ['construct 2.10.70 combinator semantics: the parse rule of each class used (listed in the evidence under construct_rules_used) is an assumed contract; the object graphs are dumped from the real modules on every run and every solver model is replayed through the real parse()', 'layouts have a fixed structure (tags, lengths, OBIS codes concrete; registers, scalers, characters, date-time fields symbolic over their full range): the documented lists are enumerated, the value space is not', 'text characters range over printable ASCII 0x20..0x7E', "datetime / timezone / timedelta are record models with the constructor's documented range checks", 're on concrete OBIS strings is executed concretely (the real library)', 'float(Decimal) is correctly rounded; Decimal arithmetic is exact at these magnitudes (abstract function float_of_decimal(m, e)); float_of_decimal(m, 0) == m and float_of_decimal(0, e) == 0']
EXPL = "C07: the real decode_frame_content / decode_notification_body executed symbolically through the dumped Aidon grammar for every documented list (1, 2 one/three-phase, 3, Swedish, plus an unknown-OBIS / reordered list), as bare body and as LLC frame: no exception, exactly the expected keys, every numeric value == register x 10^scaler for every register of the transmitted type (signed 16-bit, unsigned 16/32-bit) and every 8-bit scaler, text verbatim, clock element == the 12 octets, manufacturer 'Aidon'; frame and body dictionaries agree (same specification dictionary)."
LEVEL = 'proof'
SWEEP = False
FAMILY = "aidon_cases"
def build(repo, tier, seed):
    r = M.groups_result([("decoders", CM.cases_group, (repo, FAMILY))], budget_ms=15000)
    r.functions = sorted({o.func for o in r.obligations if o.func} | set(FUNCS))
    r.assumptions = list(ASSUME)
    r.explanation = EXPL
    r.level = LEVEL
    b = run.rt_call("C07", "layouts_random", {"family": "C07", "seed": seed, "n": 40 if tier == "quick" else 1500})
    r.bounded.append(b if "name" in b else {"name": "layouts_random", "error": b.get("error", b)})
    if SWEEP:
        b = run.rt_call("C07", "float_sweep", {"seed": seed, "full": tier == "thorough"}, timeout=3000)
        r.bounded.append(b if "name" in b else {"name": "float_sweep", "error": b.get("error", b)})
    return r
