"""C16 run-time side: replays + bounded resynchronisation search on the real readers."""
import random
from han import hdlc, dlde
from props import spec_py as sp
from props.hdlc_rt import replay_read_next, replay_read, ALPHA
from props.dlde_rt import replay_p1_read, gen_readouts, p1_resync_check, replay_clean_p1, p1_ideal_check, clean_stream_check

def mk_frame(rnd, flagfree=False, n_info=None):
    dst = bytes([rnd.randrange(0, 128) * 2 for _ in range(rnd.randrange(0, 3))] + [rnd.randrange(0, 128) * 2 + 1]); src = bytes([rnd.randrange(0, 128) * 2 + 1])
    n_info = rnd.randrange(0, 40) if n_info is None else n_info
    info = bytes(rnd.choice([0x7E, 0x7D, 0x5E, 0x00, 0xFF, 0x11]) if not flagfree else rnd.choice([0x7D, 0x5E, 0x00, 0xFF, 0x11]) for _ in range(n_info))
    ln = 2 + len(dst) + len(src) + 1 + 2 + (len(info) + 2 if info else 0)
    hdr = bytes([0xA0 | (ln >> 8), ln & 0xFF]) + dst + src + bytes([0x13])
    if flagfree and (0x7E in hdr): return mk_frame(rnd, flagfree, n_info)
    h = sp.fcs16(hdr); fr = hdr + bytes([h & 0xFF, h >> 8])
    if info:
        fr += info; f = sp.fcs16(fr); fr += bytes([f & 0xFF, f >> 8])
    if flagfree and 0x7E in fr: return mk_frame(rnd, flagfree, n_info)
    return fr
def stuff(fr):
    out = bytearray()
    for b in fr:
        if b in (0x7E, 0x7D): out += bytes([0x7D, b ^ 0x20])
        else: out.append(b)
    return bytes(out)

def resync_search(p):
    rnd = random.Random(p.get("seed", 0)); n = p.get("n", 400); bad = []; ev = 0; distinct = set()
    noises = [b"", b"\x7d", b"\x7e\x7d", b"\x7e\xa0\x07\x7d", b"\xa0\x7d\x7e\x7d", b"\x7e\xa0\x0a\x01\x02\x7d"]
    for it in range(n):
        stuffing = bool(it & 1); abort = bool(it & 2)
        noise = rnd.choice(noises) + bytes(rnd.choice(ALPHA) for _ in range(rnd.randrange(0, 12))) + rnd.choice([b"", b"\x7d", b"\x7e", b"\x7d\x7e"])
        frames = [mk_frame(rnd, flagfree=not stuffing) for _ in range(rnd.randrange(2, 8))]
        if stuffing: wire = b"".join(b"\x7e" + stuff(f) for f in frames) + b"\x7e"
        else:
            if abort and any(f[-1] == 0x7D or b"\x7d\x7e" in f for f in frames): continue
            wire = b"\x7e" * 2 + b"".join(f + b"\x7e" for f in frames)
            noise = noise + b"\x00" * 0          # without stuffing only frames that start more than 2047 + len after the noise are promised
            wire = b"\x7e" * 2100 + wire if len(noise) else wire
        s = noise + wire
        cuts = sorted(rnd.sample(range(len(s) + 1), min(len(s) + 1, rnd.randrange(0, 5)))); chunks = [s[a:b] for a, b in zip([0] + cuts, cuts + [len(s)])]
        r = hdlc.HdlcFrameReader(stuffing, abort); got = []
        for ch in chunks: got += r.read(ch)
        ev += 1; distinct.add((stuffing, abort, noise[:6], len(frames)))
        valid = [g.as_bytes for g in got if g.is_valid]
        want = frames[1:] if stuffing else frames
        # every promised frame must appear, in order, among the valid frames returned
        i = 0
        for v in valid:
            if i < len(want) and v == want[i]: i += 1
        if i < len(want):
            bad.append({"reader": f"HDLC stuffing={stuffing} abort={abort}", "noise": noise.hex(), "frames_sent": len(frames), "missing_from": i + (1 if stuffing else 0), "chunks": [c.hex() for c in chunks][:4]})
            break
    for it in range(n // 2):
        ros = list(gen_ok_readouts(rnd, rnd.randrange(2, 6)))
        noise = rnd.choice([b"", b"/", b"/ABC5\r\n", b"/ABC5\r\n1-0:1.8.0(1)\r\n", b"!", b"xx\xff/AB", b"/AB\xff5\r\n", b"/ABC5\r\n" + b"1-0:1.8.0(1)\r\n" * 700]) + bytes(rnd.choice(b"/!\r\nab\xff(") for _ in range(rnd.randrange(0, 10)))
        s = noise + b"".join(ros)
        cuts = sorted(rnd.sample(range(len(s) + 1), min(len(s) + 1, rnd.randrange(0, 5)))); chunks = [s[a:b] for a, b in zip([0] + cuts, cuts + [len(s)])]
        r = dlde.ModeDReader(); got = []
        for ch in chunks: got += r.read(ch)
        ev += 1; distinct.add(("p1", noise[:8], len(ros)))
        valid = [g.as_bytes for g in got if g.is_valid]; want = ros[1:]; i = 0
        for v in valid:
            if i < len(want) and v == want[i]: i += 1
        if i < len(want):
            bad.append({"reader": "P1", "noise": noise[:60].decode("latin1"), "readouts_sent": len(ros), "missing_from": i + 1}); break
    return {"name": "resync after noise (C16 composition lemma as bounded stand-in)", "bound": f"{n} HDLC histories (noise x 2..7 clean frames x random cuts, four configurations) and {n//2} P1 histories", "evaluations": ev,
            "distinct_nontrivial": len(distinct), "violations": bad[:2]}

def gen_ok_readouts(rnd, k):
    for _ in range(k):
        ident = rnd.choice([b"/AUX5UXXXXXXXXXXXXXXX", b"/KFM5KAIFA-METER", b"/ABC5"]); eol = b"\r\n"
        lines = [rnd.choice([b"1-0:1.8.0(00006678.394*kWh)", b"0-0:1.0.0(210217184019W)", b"1-0:32.7.0(240.3*V)"]) for _ in range(rnd.randrange(0, 5))]
        body = ident + eol + eol + b"".join(l + eol for l in lines) + b"!"
        yield body + (b"%04X" % sp.crc16_arc(body)) + eol

def replay_clean_stream(p):
    from props.c02_rt import replay_clean_stream as f; return f(p)
def replay_ideal(p):
    from props.c06_rt import replay_ideal as f; return f(p)
