"""Shared contracts for han/dlde.py: DataReadout (C04, C14), ModeDReader and its buffer (C05, C14, C16, C19).
Byte strings are offset views over arrays; text obtained by .decode("ascii") is the same view (STxt).  Library functions
(bytes.lstrip/find/decode/isascii, str.strip, int(text,16), the identification-line regular expression) are prelude
contracts over recursive spec functions / abstract predicates (assumed, conformance-tested in props/dlde_rt.py)."""
import ast, z3
from pyvc.engine import *
from pyvc import speclib as S
from props.c03 import fit

D = "han.dlde."; I = z3.IntSort()
SLASH, BANG, LF = 0x2F, 0x21, 0x0A

def mk_engine(repo):
    eng = Engine({"han.common": f"{repo}/han/common.py", "han.obis_map": f"{repo}/han/obis_map.py", "han.obis": f"{repo}/han/obis.py", "han.dlde": f"{repo}/han/dlde.py"})
    eng.reveal_defs.append(S.ARC_STEP_REVEAL); eng.refute_defs.append(S.ARC_REFUTE)
    pm = eng.prelude_methods
    pm["hex"] = lambda e, st, base, args, ctx, node: [(st, SStr(fresh("hex", z3.StringSort())))]
    pm["lstrip"] = m_lstrip; pm["find"] = m_find; pm["decode"] = m_decode; pm["isascii"] = m_isascii; pm["strip"] = m_strip
    eng.py_calls["builtins.int"] = b_int
    return eng

def view_end(v): return v.off + v.n
def m_lstrip(e, st, base, args, ctx, node):
    if args or not isinstance(base, SBytes) or isinstance(base, STxt): raise Unsupported("lstrip form")
    k = S.LSKIP_B(base.arr, base.off, view_end(base))
    return [(st, SBytes(base.arr, z3.simplify(view_end(base) - k), k))]
def m_find(e, st, base, args, ctx, node):
    """bytes.find(octet[, start]) -> index of the first occurrence at or after start, -1 when absent"""
    if not isinstance(base, SBytes) or not (1 <= len(args) <= 2): raise Unsupported("find form")
    val, _ = fit(args[0], 8)
    start = to_int(args[1]) if len(args) == 2 else z3.IntVal(0)
    if len(args) == 2:
        ctx.oblige(st, "pre:find(0 <= start <= len)", z3.And(start >= 0, start <= base.n), node)
    fi = S.FIDX(base.arr, val, base.off + start, view_end(base))
    r = fresh("find", I); st.pc.append(r == z3.If(fi < view_end(base), fi - base.off, -1))
    st.pc.append(z3.Or(r == -1, z3.And(r >= start, r < base.n)))
    return [(st, SInt(r))]
def m_decode(e, st, base, args, ctx, node):
    if not (isinstance(base, SBytes) and args == ["ascii"]): raise Unsupported("decode form")
    ok = S.ALLASCII(base.arr, base.off, view_end(base))
    outs = []
    for st1, r in e.implicit_failure(st, ctx, "safe:decode-ascii", ok, "UnicodeDecodeError", node):
        outs.append((st1, r if r is not None else STxt(base.arr, base.n, base.off)))
    return outs
def m_isascii(e, st, base, args, ctx, node):
    return [(st, SBool(S.ALLASCII(base.arr, base.off, view_end(base))))]
def m_strip(e, st, base, args, ctx, node):
    if args or not isinstance(base, STxt): raise Unsupported("strip form")
    l = S.LSKIP_S(base.arr, base.off, view_end(base)); h = S.RSKIP_S(base.arr, l, view_end(base))
    return [(st, STxt(base.arr, z3.simplify(h - l), l))]
def b_int(e, st, args, kw, ctx, node):
    if not (len(args) == 1 and isinstance(args[0], STxt) and kw.get("base") == 16): return None
    t = args[0]; ok = S.INT16_OK(t.arr, t.off, view_end(t))
    outs = []
    for st1, r in e.implicit_failure(st, ctx, "safe:int-base16", ok, "ValueError", node):
        outs.append((st1, r if r is not None else SInt(S.INT16_VAL(t.arr, t.off, view_end(t)))))
    return outs

# ----------------------------------------------------------------------------- DataReadout
def first_line_text(arr, off, data_pos):
    """strip(readout[:data_pos]) as (lo, hi)"""
    l = S.LSKIP_S(arr, off, off + data_pos); return l, S.RSKIP_S(arr, l, off + data_pos)
def end_text(arr, off, n, end_pos):
    l = S.LSKIP_S(arr, off + end_pos, off + n); return l, S.RSKIP_S(arr, l, off + n)

def mk_readout(st, eng, tag="", ident_cached=False):
    arr = z3.Const("ro" + tag, BYTE_ARR); n = z3.Int("ron" + tag); off = z3.Int("rooff" + tag)
    endp = z3.Int("endpos" + tag); datap = z3.Int("datapos" + tag); crc = z3.BitVec("rocrc" + tag, 16)
    if not any(str(n) == str(x) for x in eng.len_vars): eng.len_vars.append(n)
    ro = st.new_obj(D + "DataReadout", {"_readout": SBytes(arr, n, off), "_end_pos": SInt(endp), "_data_pos": SInt(datap), "_calculated_crc": SBV(crc), "_ident": None})
    if ident_cached:
        idt = st.new_obj(D + "Ident", {"$lo": None, "$hi": None}); st.setf(ro, "_ident", idt)
    return ro, arr, n, off, endp, datap, crc

def readout_inv(st, ro):
    r = st.getf(ro, "_readout"); endp = to_int(st.getf(ro, "_end_pos")); datap = to_int(st.getf(ro, "_data_pos"))
    crc, okc = fit(st.getf(ro, "_calculated_crc"), 16)
    e = view_end(r); fi = S.FIDX(r.arr, z3.BitVecVal(BANG, 8), r.off, e); fl = S.FIDX(r.arr, z3.BitVecVal(LF, 8), r.off, e)
    goals = [("readout is non-empty and starts with '/'", z3.And(r.n >= 1, r.off >= 0, r.at(0) == SLASH)),
             ("positions in range", z3.And(endp >= 0, endp < r.n, datap >= 0, datap <= r.n)),
             ("_end_pos is the first '!'", z3.And(fi < e, endp == fi - r.off)),
             ("_data_pos is the index after the first LF (0 when there is none)", datap == z3.If(fl < e, fl - r.off + 1, 0)),
             ("_calculated_crc == crc16_arc(readout[0 : end_pos+1])", z3.And(okc, crc == S.ARC(r.arr, r.off, r.off + endp + 1)))]
    idt = st.getf(ro, "_ident")
    if idt is not None:
        l, h = first_line_text(r.arr, r.off, datap)
        goals.append(("cached Ident was built from the first line", z3.And(S.ALLASCII(r.arr, r.off, r.off + datap), S.IDENT(r.arr, l, h))))
    return goals

def readout_witness(tag=""):
    def w(m):
        ev = lambda t: m.eval(t, model_completion=True)
        n = ev(z3.Int("ron" + tag)).as_long(); off = ev(z3.Int("rooff" + tag)).as_long(); arr = z3.Const("ro" + tag, BYTE_ARR)
        return {"readout": [ev(arr[off + q]).as_long() for q in range(max(0, min(n, 4000)))]}
    return w

def install_ident(eng):
    """Ident(text): ValueError unless the text matches the identification pattern (abstract predicate IDENT; the pattern itself is
    compared with the specified language in a separate obligation)"""
    def apply_ident_init(e, st, args, ctx, node):
        ref, t = args
        if not isinstance(t, STxt): raise Unsupported("Ident() argument is not decoded text")
        ok = S.IDENT(t.arr, t.off, view_end(t))
        a = st.fork(); a.pc.append(ok); a.heap[ref.oid][1].update({"$lo": SInt(t.off), "$hi": SInt(view_end(t))})
        b = st.fork(); b.pc.append(z3.Not(ok))
        return [(a, None), (b, Raised("ValueError", "not an ident message"))]
    eng.contracts[D + "Ident.__init__"] = Contract(apply=apply_ident_init)
    def apply_is_ident_line(e, st, args, ctx, node):
        t = args[-1]
        if not isinstance(t, STxt): raise Unsupported("is_ident_line() argument is not decoded text")
        return [(st, SBool(S.IDENT(t.arr, t.off, view_end(t))))]
    eng.contracts[D + "Ident.is_ident_line"] = Contract(apply=apply_is_ident_line)

def crc_loop_spec(eng):
    """DataReadout._calculate_crc16: outer loop invariant crc == crc16_arc(buf[0:idx]); the inner range(8) loop is unrolled and cut"""
    q = D + "DataReadout._calculate_crc16"
    fn = eng.funcs[q][0]
    loops = sorted((x for x in ast.walk(fn) if isinstance(x, (ast.For, ast.While))), key=lambda x: (x.lineno, x.col_offset))
    if not loops or not isinstance(loops[0], ast.For): raise Unsupported("_calculate_crc16: expected an outer for loop")
    outer = loops[0]
    # loop variables by role: the one accumulator the outer loop carries, the loop's element variable, the iterated octets (ghost local)
    roles = loop_roles(fn, outer); accs = [c for c in roles["carried"] if c != roles["index"]]
    if len(accs) != 1 or not isinstance(outer.target, ast.Name): raise Unsupported(f"_calculate_crc16: loop roles not recognised ({roles})")
    ACC = accs[0]; ELEM = outer.target.id
    def inv(st, e):
        buf = st.locals["__seq0"]; c, ok = fit(st.locals[ACC], 16); k = to_int(st.locals["__idx0"])
        st.ghost["crc_in"] = c
        return [("crc register in range", ok), ("crc == crc16_arc(buf[0:k])", c == S.ARC(buf.arr, buf.off, buf.off + k))]
    eng.loop_specs[(q, 0)] = (inv, None, {ACC: 16})
    last = outer.body[-1]
    def cut(st, e):
        c, ok = fit(st.locals[ACC], 16); b, okb = fit(st.locals[ELEM], 8)
        return z3.And(ok, okb, c == S.arc_step(st.ghost["crc_in"], b))
    eng.cuts[(q, last.lineno)] = cut

def readout_obligations(eng):
    """C04 + the DataReadout half of C14"""
    obls = []
    lem, ax = S.text_lemmas(Obligation); obls += lem
    eng.prelude_axioms += list(ax.values())
    eng.instantiators = [S.fidx_instantiator, S.ascii_instantiator]
    install_ident(eng); crc_loop_spec(eng)
    Q = D + "DataReadout."
    # ---- _calculate_crc16
    def init_crc(e):
        st = State(); ro, arr, n, off, endp, datap, crc = mk_readout(st, e)
        st.pc += [n >= 1, off >= 0, endp >= 0, endp < n]
        yield st, [ro]
    def post_crc(st, args, res, old, e):
        r = st.getf(args[0], "_readout"); endp = to_int(st.getf(args[0], "_end_pos")); c, ok = fit(res, 16)
        yield "result == crc16_arc(readout[0 : end_pos+1])  (poly 0xA001 reflected, init 0)", z3.And(ok, c == S.ARC(r.arr, r.off, r.off + endp + 1))
    c_crc = Contract(init_crc, post_crc, fork_implicit=True)
    o = eng.verify(Q + "_calculate_crc16", c_crc)
    for x in o: x.meta.update(replay="replay_readout", witness=readout_witness())
    obls += o
    def apply_crc(e, st, args, ctx, node):
        ro = args[0]; r = st.getf(ro, "_readout"); endp = to_int(st.getf(ro, "_end_pos"))
        ctx.oblige(st, "pre:_calculate_crc16(0 <= end_pos < len)", z3.And(endp >= 0, endp < r.n), node)
        c = fresh("crc", S.BV16); st.pc.append(c == S.ARC(r.arr, r.off, r.off + endp + 1))
        return [(st, SBV(c))]
    c_crc._apply = apply_crc; eng.contracts[Q + "_calculate_crc16"] = c_crc
    # ---- __init__(readout)
    src = z3.Const("src", BYTE_ARR); sn = z3.Int("srcn")
    if not any(str(sn) == str(x) for x in eng.len_vars): eng.len_vars.append(sn)
    def init_init(e):
        st = State(); st.pc.append(sn >= 0); ref = st.new_obj(D + "DataReadout", {})
        yield st, [ref, SBytes(src, sn)]
    def post_init(st, args, res, old, e):
        yield from readout_inv(st, args[0])
        r = st.getf(args[0], "_readout")
        yield "readout == input.lstrip()", z3.And(z3.BoolVal(r.arr.eq(src)), r.off == S.LSKIP_B(src, 0, sn), view_end(r) == sn)
        yield "_ident is not cached yet", z3.BoolVal(st.getf(args[0], "_ident") is None)
    def raises_init(st, args, exc, old, e):
        k = S.LSKIP_B(src, 0, sn)
        bad = z3.Or(k >= sn, src[k] != SLASH, S.FIDX(src, z3.BitVecVal(BANG, 8), k, sn) >= sn)
        yield f"only ValueError/IndexError, only for input without '/' start or without '!' ({exc.exc})", z3.And(z3.BoolVal(exc.exc in ("ValueError", "IndexError")), bad)
    c_init = Contract(init_init, post_init, raises=raises_init, fork_implicit=True)
    o = eng.verify(Q + "__init__", c_init)
    def wit_src(m):
        k = m.eval(sn, model_completion=True).as_long(); return {"readout": [m.eval(src[q], model_completion=True).as_long() for q in range(max(0, min(k, 4000)))]}
    for x in o: x.meta.update(replay="replay_readout", witness=wit_src)
    obls += o
    # ---- properties on every object satisfying readout_inv, for both cache shapes
    def init_prop(e):
        for cached in (False, True):
            st = State(); ro, arr, n, off, endp, datap, crc = mk_readout(st, e, ident_cached=cached)
            for _, g in readout_inv(st, ro): st.pc.append(g)
            yield st, [ro], ("ident cached" if cached else "ident not cached")
    arr, n, off, endp, datap, crc = z3.Const("ro", BYTE_ARR), z3.Int("ron"), z3.Int("rooff"), z3.Int("endpos"), z3.Int("datapos"), z3.BitVec("rocrc", 16)
    k = z3.Int("k__q")
    def view_eq(res, lo, ln):
        if not isinstance(res, SBytes): return z3.BoolVal(False)
        return z3.And(res.n == ln, z3.ForAll([k], z3.Implies(z3.And(0 <= k, k < res.n), res.at(k) == arr[off + lo + k])))
    el, eh = end_text(arr, off, n, endp)                 # strip(readout[end_pos:])
    has_cs = eh - el > 1
    cl = S.LSKIP_S(arr, el + 1, eh); ch = S.RSKIP_S(arr, cl, eh)     # strip(end[1:])
    cs_ok = S.INT16_OK(arr, cl, ch); cs_val = S.INT16_VAL(arr, cl, ch)
    fl, fh = first_line_text(arr, off, datap)
    ident_ok = S.IDENT(arr, fl, fh)
    crc_i = z3.BV2Int(crc)
    def keep_inv(st, ro):
        return [(f"readout_inv preserved: {nm}", g) for nm, g in readout_inv(st, ro)]
    def post_valid(st, args, res, old, e):
        r = to_bool(res)
        yield "(i)/(ii) valid => a checksum after '!' parses and equals the calculated CRC16 (also when it is 0000)", z3.Implies(z3.And(r, has_cs), z3.And(cs_ok, cs_val == crc_i))
        yield "(iii) valid => the first line is ASCII and an identification line", z3.Implies(r, z3.And(S.ALLASCII(arr, off, off + datap), ident_ok))
        yield "(iv) checksum absent or correct, all ASCII, identification line => valid", z3.Implies(z3.And(S.ALLASCII(arr, off, off + n), ident_ok, z3.Or(z3.Not(has_cs), z3.And(cs_ok, cs_val == crc_i))), r)
        yield "valid => no data octet above 0x80", z3.Implies(r, z3.ForAll([k], z3.Implies(z3.And(datap <= k, k < endp), z3.ULE(arr[off + k], 0x80))))
        yield from keep_inv(st, args[0])
    specs = [("is_valid", post_valid),
             ("payload", lambda st, args, res, old, e: [("(v) payload == readout[data_pos:end_pos]", view_eq(res, datap, z3.If(endp > datap, endp - datap, 0)))] + keep_inv(st, args[0])),
             ("as_bytes", lambda st, args, res, old, e: [("as_bytes == readout", view_eq(res, 0, n))] + keep_inv(st, args[0])),
             ("message_type", lambda st, args, res, old, e: [("message_type is returned", z3.BoolVal(res is not None))]),
             ("__len__", lambda st, args, res, old, e: [("len == len(readout)", to_int(res) == n)]),
             ("expected_checksum", lambda st, args, res, old, e: [("None iff nothing follows '!', else int(text,16)",
                    (z3.Not(has_cs) if res is None else z3.And(has_cs, cs_ok, to_int(res) == cs_val)))] + keep_inv(st, args[0])),
             ("end_line", lambda st, args, res, old, e: [("end_line == strip(readout[end_pos:])", z3.And(z3.BoolVal(isinstance(res, STxt)), res.off == el, view_end(res) == eh) if isinstance(res, SBytes) else z3.BoolVal(False))]),
             ("identification_line", lambda st, args, res, old, e: [("returns an Ident built from the first line", z3.And(z3.BoolVal(isinstance(res, Ref)), ident_ok, S.ALLASCII(arr, off, off + datap)))] + keep_inv(st, args[0]))]
    NO_RAISE = ("is_valid", "payload", "as_bytes", "message_type", "__len__")       # C14: these never raise
    def raises_for(name):
        def raises(st, args, exc, old, e):
            if name in NO_RAISE:
                yield f"C14 nothing escapes ({exc.exc})", z3.BoolVal(False)
            elif name in ("expected_checksum", "end_line"):
                yield f"only ValueError, only for a non-ASCII or non-hex end line ({exc.exc})", z3.And(z3.BoolVal(exc.exc in ("ValueError", "UnicodeDecodeError")),
                        z3.Or(z3.Not(S.ALLASCII(arr, off + endp, off + n)), z3.And(has_cs, z3.Not(cs_ok))))
            else:
                yield f"only ValueError, only when the first line is not an ASCII identification line ({exc.exc})", z3.And(z3.BoolVal(exc.exc in ("ValueError", "UnicodeDecodeError")),
                        z3.Or(z3.Not(S.ALLASCII(arr, off, off + datap)), z3.Not(ident_ok)))
        return raises
    # loop in is_valid: for char in readout[data_pos:end_pos]
    def inv_valid(st, e):
        return [("scanned data octets are <= 0x80", z3.ForAll([k], z3.Implies(z3.And(datap <= k, k < datap + to_int(st.locals["__idx0"])), z3.ULE(arr[off + k], 0x80))))]
    eng.loop_specs[(Q + "is_valid", 0)] = (inv_valid, None, {})
    for name, post in specs:
        c = Contract(init_prop, post, raises=raises_for(name), fork_implicit=True)
        o = eng.verify(Q + name, c)
        for x in o: x.meta.update(replay="replay_readout", witness=readout_witness())
        obls += o
    # property-level reading of (i): when the text after '!' is four hex digits its value is hexval4 (assumed contract of int(.,16))
    h4 = z3.And(ch - cl == 4, S.is_hex4(arr, cl))
    obls.append(Obligation("lemma.C04(i) four hex digits after '!': valid => hexval4 == crc16_arc  [uses the assumed contract int(hex4,16) == hexval4]",
                           [h4, z3.Implies(h4, z3.And(cs_ok, cs_val == S.hexval4(arr, cl))), z3.And(cs_ok, cs_val == crc_i), crc == S.ARC(arr, off, off + endp + 1)],
                           S.hexval4(arr, cl) == z3.BV2Int(S.ARC(arr, off, off + endp + 1)), kind="lemma"))
    obls += ident_language_obligations(eng)
    obls.append(Obligation("canary.checksum_zero_is_not_special", [cs_ok, has_cs], z3.Implies(cs_val == 0, cs_val == crc_i), kind="canary", expect_refuted=True))
    return obls


def spec_ident_regex():
    """identification line, from the statement: '/', two upper-case letters, a letter, a digit, optional '\\'+word-character escapes,
    optionally 1..16 printable characters, optional CRLF; then the end of the text (or a final newline: Python's '$')"""
    from pyvc import regex as RX
    up = z3.Range("A", "Z"); letter = z3.Union(up, z3.Range("a", "z")); pr = z3.Range(" ", "~"); lit = lambda t: z3.Re(z3.StringVal(t))
    return z3.Concat(lit("/"), up, up, letter, z3.Range("0", "9"), z3.Star(z3.Concat(lit("\\"), RX.WORD())), z3.Option(z3.Loop(pr, 1, 16)), z3.Option(lit("\r\n")), z3.Option(lit("\n")))

def ident_language_obligations(eng):
    from pyvc import regex as RX
    pat = RX.find_compiled_pattern(eng.trees["han.dlde"], "_ident_pattern")
    if pat is None: raise Unsupported("_ident_pattern is not a compiled string literal")
    try: code = RX.translate(pat)
    except RX.RegexUnsupported as ex: raise Unsupported(f"_ident_pattern outside the supported regex subset: {ex}")
    x = z3.String("ident_text")
    o = Obligation("han.dlde._ident_pattern#post:language of the pattern == specified identification lines", [z3.Length(x) <= 40], z3.InRe(x, code) == z3.InRe(x, spec_ident_regex()),
                   kind="post", func="han.dlde.Ident.__init__", use_axioms=False,
                   meta={"replay": "replay_ident", "no_relaxed": True, "witness": lambda m: {"text": [ord(c) for c in m.eval(x, model_completion=True).as_string().encode().decode("unicode_escape")] if False else m.eval(x, model_completion=True).as_string()}})
    return [o]

# ----------------------------------------------------------------------------- ModeDReader
G = z3.Const("G", BYTE_ARR)      # ghost: the whole input stream
P = D + "ModeDReader."
MAX_P1 = 8191                    # "each readout well below 8 KiB": bound on unconsumed + collected octets kept between calls
import itertools
_calls = itertools.count()

def mk_p1reader(st, hunt, tag="", eng=None):
    bn = z3.Int("bn" + tag); bpos = z3.Int("bpos" + tag); rn = z3.Int("rn" + tag); gt = z3.Int("g_total" + tag)
    if eng is not None:
        for v in (bn, rn, gt):
            if not any(str(v) == str(x) for x in eng.len_vars): eng.len_vars.append(v)
    buf = st.new_obj(D + "_ReaderBuffer", {"_buffer": SBytes(G, bn, gt - bn), "_buffer_pos": SInt(bpos)})
    gp = gt - (bn - bpos)
    raw = SBytes(G, z3.IntVal(0), gp) if hunt else SBytes(G, rn, gp - rn)
    rd = st.new_obj(P[:-1], {"_buffer": buf, "_raw_data": raw, "_is_int_hunt_mode": hunt, "$g_total": SInt(gt)})
    return rd, buf

def p1_view(st, rd):
    buf = st.getf(rd, "_buffer"); b = st.getf(buf, "_buffer"); bp = to_int(st.getf(buf, "_buffer_pos"))
    gt = to_int(st.getf(rd, "$g_total")); pl = b.n - bp
    return dict(buf=buf, b=b, bp=bp, raw=st.getf(rd, "_raw_data"), hunt=st.getf(rd, "_is_int_hunt_mode"), gt=gt, pl=pl, gp=gt - pl)

def p1_inv(st, rd):
    v = p1_view(st, rd); b, bp, raw, hunt, gt, pl, gp = v["b"], v["bp"], v["raw"], v["hunt"], v["gt"], v["pl"], v["gp"]
    goals = [("buffer position in range", z3.And(bp >= 0, bp <= b.n, b.n >= 0, gt >= pl)),
             ("ghost: unconsumed input is the tail of the stream received so far", z3.Or(pl == 0, z3.And(z3.BoolVal(b.arr.eq(G)), b.off + b.n == gt)))]
    if not isinstance(hunt, bool): raise Unsupported("hunt flag is not a definite bool on this path")
    if hunt:
        goals.append(("hunt mode => no collected octets (C16: nothing stale is prefixed to the next readout)", raw.n == 0))
        return goals
    e = raw.off + raw.n; fl = S.FIDX(G, z3.BitVecVal(LF, 8), raw.off, e)
    goals += [("ghost: collected octets are the contiguous stream segment that ends at the read position", z3.And(z3.BoolVal(raw.arr.eq(G)), raw.n >= 1, raw.off >= 0, e == gp)),
              ("collected octets start with '/'", raw.at(0) == SLASH),
              ("collected octets start with a complete ASCII identification line", z3.And(fl < e, S.ALLASCII(G, raw.off, fl + 1), S.IDENT(G, raw.off, fl + 1))),
              ("collected octets end with a line end (only whole lines are collected)", G[e - 1] == LF)]
    return goals

def p1_witness(hunt, tag="", extra=()):
    def w(m):
        ev = lambda t: m.eval(t, model_completion=True)
        bn = ev(z3.Int("bn" + tag)).as_long(); gt = ev(z3.Int("g_total" + tag)).as_long(); rn = 0 if hunt else ev(z3.Int("rn" + tag)).as_long(); bpos = ev(z3.Int("bpos" + tag)).as_long()
        Gb = [ev(G[q]).as_long() for q in range(max(0, min(gt + 64, 20000)))]
        d = {"hunt": hunt, "G": Gb, "g_total": gt, "bn": bn, "pos": bpos, "rn": rn}
        for name, term in extra:
            x = ev(term); d[name] = x.as_long() if hasattr(x, "as_long") else str(x)
        return d
    return w

def install_readout_init(eng):
    """call-site form of DataReadout.__init__ (its contract is proved in readout_obligations)"""
    def apply_init(e, st, args, ctx, node):
        ref, v = args
        if not isinstance(v, SBytes): raise Unsupported("DataReadout() argument")
        end = view_end(v); k = S.LSKIP_B(v.arr, v.off, end)
        probe = st.fork(); probe.pc.append(z3.Or(v.n < 1, S.is_bytes_ws(v.at(0))))
        if not e.feasible(probe): k = v.off            # first octet is not white space: lstrip() removes nothing (one unfolding of the definition)
        fi = S.FIDX(v.arr, z3.BitVecVal(BANG, 8), k, end); fl = S.FIDX(v.arr, z3.BitVecVal(LF, 8), k, end)
        outs = []
        for cond, exc in ((k >= end, "IndexError"), (z3.And(k < end, v.arr[k] != SLASH), "ValueError"), (z3.And(k < end, v.arr[k] == SLASH, fi >= end), "ValueError")):
            s2 = st.fork(); s2.pc.append(cond)
            if e.feasible(s2): outs.append((s2, Raised(exc, "DataReadout.__init__")))
        ok = st.fork(); ok.pc += [k < end, v.arr[k] == SLASH, fi < end]
        crc = fresh("rocrc", S.BV16); ok.pc.append(crc == S.ARC(v.arr, k, fi + 1))
        ok.heap[ref.oid][1].update({"_readout": SBytes(v.arr, z3.simplify(end - k), k), "_end_pos": SInt(fi - k), "_data_pos": SInt(z3.If(fl < end, fl - k + 1, 0)),
                                    "_calculated_crc": SBV(crc), "_ident": None})
        outs.append((ok, None))
        return outs
    eng.contracts[D + "DataReadout.__init__"] = Contract(apply=apply_init)

def install_p1(eng):
    """lemmas + call-site contracts shared by the P1 reader proofs; returns the lemma obligations"""
    obls = []
    lem, ax = S.text_lemmas(Obligation); l2, ax2 = S.fidx_le_lemma(Obligation); l3, ax3 = S.fidx_stable_lemma(Obligation)
    obls += lem + l2 + l3
    eng.prelude_axioms += list(ax.values()) + list(ax2.values()) + list(ax3.values())
    eng.instantiators = [S.fidx_instantiator, S.ascii_instantiator]
    install_ident(eng); install_readout_init(eng)
    def apply_extend(e, st, args, ctx, node):
        buf, ch = args; b = st.getf(buf, "_buffer")
        if not (isinstance(ch, SBytes) and st.ghost.get("chunk_is_stream_segment") is not None): raise Unsupported("extend outside read()")
        gt_before, gt_after = st.ghost["chunk_is_stream_segment"]
        ctx.oblige(st, "pre:extend(the whole chunk is buffered: no octet of the stream is dropped or reordered)", z3.And(z3.BoolVal(ch.arr.eq(G)), ch.off == gt_before, ch.off + ch.n == gt_after), node)
        if z3.is_int_value(z3.simplify(b.n)) and z3.simplify(b.n).as_long() == 0: st.setf(buf, "_buffer", SBytes(G, ch.n, gt_before))
        else:
            ctx.oblige(st, "pre:extend(buffer view ends at the stream position)", z3.And(z3.BoolVal(b.arr.eq(G)), b.off + b.n == gt_before), node)
            st.setf(buf, "_buffer", SBytes(G, z3.simplify(b.n + ch.n), b.off))
        return [(st, None)]
    eng.contracts[D + "_ReaderBuffer.extend"] = Contract(apply=apply_extend)
    return obls

def p1reader_obligations(eng):
    obls = install_p1(eng)
    fn_rd, mod, cls = eng.funcs[P + "read"]
    LFb = z3.BitVecVal(LF, 8)
    for hunt in (True, False):
        st = State(); rd, buf = mk_p1reader(st, hunt, eng=eng)
        for _, g in p1_inv(st, rd): st.pc.append(g)
        v0 = p1_view(st, rd)
        # precondition = postcondition of the previous read(): no complete line is left unconsumed, sizes within the bound
        st.pc += [S.FIDX(G, LFb, v0["gp"], v0["gt"]) >= v0["gt"], v0["b"].n + v0["raw"].n <= MAX_P1]
        cn = z3.Int("cn"); gt0 = v0["gt"]
        if not any(str(cn) == str(x) for x in eng.len_vars): eng.len_vars.append(cn)
        st.pc.append(cn >= 0)
        root = f"{P}read[{'hunt' if hunt else 'collecting'}]"
        ctx = Ctx(eng, mod, cls, P + "read", root_name=root); ctx.verifying = P + "read"; ctx.fork_implicit = True
        st.locals = {"self": rd, "data_chunk": SBytes(G, cn, gt0)}          # (ghost) the chunk is the next segment of the stream
        st.setf(rd, "$g_total", SInt(gt0 + cn)); st.ghost["chunk_is_stream_segment"] = (gt0, gt0 + cn)
        def hook(st_, lst, item, ctx_, node_, rd=rd):
            ok = isinstance(item, Ref) and st_.cls(item) == D + "DataReadout"
            ctx_.oblige(st_, "post:returned object is a DataReadout", z3.BoolVal(ok), node_)
            if not ok: return
            r = st_.getf(item, "_readout"); v = p1_view(st_, rd); raw = v["raw"]
            e = view_end(r); fl = S.FIDX(G, LFb, r.off, e)
            ctx_.oblige(st_, "post:returned readout is byte-identical to a contiguous stream segment ending at the read position", z3.And(z3.BoolVal(r.arr.eq(G)), e == v["gp"], r.n >= 1), node_)
            # (ghost) compared with what had been collected when this line-loop iteration started, plus the line just consumed - independent of
            # whether the implementation clears its collection before or after it hands the readout over
            hr, hh = st_.ghost.get("head_raw", (None, True))
            ctx_.oblige(st_, "post:returned readout is exactly the collected octets", z3.BoolVal(False) if hh or hr is None else z3.And(z3.BoolVal(hr.arr.eq(r.arr)), hr.off == r.off, r.n == v["gp"] - hr.off), node_)
            ctx_.oblige(st_, "post:returned readout starts with an ASCII identification line", z3.And(r.at(0) == SLASH, fl < e, S.ALLASCII(G, r.off, fl + 1), S.IDENT(G, r.off, fl + 1)), node_)
            ctx_.oblige(st_, "post:returned readout ends with a line that starts with '!' and ends with LF", z3.And(G[e - 1] == LF, to_int(st_.getf(item, "_end_pos")) < r.n), node_)
        eng.list_append_hook = hook
        def havoc(st_h, e, rd=rd):
            outs = []
            for h2 in (True, False):
                s2 = st_h.fork(); tag = f"__l{next(_calls)}"
                rd2, buf2 = mk_p1reader(s2, h2, tag=tag, eng=e)
                adopt(s2, rd, rd2)
                outs.append(s2)
            return outs
        def inv(st_, e, rd=rd, gt0=gt0, cn=cn):
            v = p1_view(st_, rd); st_.ghost["head_raw"] = (v["raw"], v["hunt"])
            return list(p1_inv(st_, rd)) + [("ghost: stream length", v["gt"] == gt0 + cn)]
        def dec(st_, e, rd=rd): return p1_view(st_, rd)["pl"]
        eng.loop_specs[(P + "read", 0)] = (inv, dec, {}, havoc)
        def after_loop(st_, e, rd=rd):
            v = p1_view(st_, rd); st_.ghost["after_loop"] = (v["pl"], v["raw"], v["hunt"], v["gp"])      # ghost snapshot: what the line loop left
            return z3.BoolVal(True)
        eng.cuts[(P + "read", "loop:0")] = after_loop
        for st1, flow, val in eng.exec_block(fn_rd.body, st, ctx):
            eng.stats["paths"] += 1
            if not eng.feasible(st1): continue
            if flow == RAISE:
                ctx.oblige(st1, f"raises:C14 nothing escapes ({val.exc}: {val.info})", z3.BoolVal(False), fn_rd); continue
            v = p1_view(st1, rd)
            for name, g in p1_inv(st1, rd): ctx.oblige(st1, f"post:{name}", g, fn_rd)
            ctx.oblige(st1, "post:no complete line is left unconsumed", S.FIDX(G, LFb, v["gp"], v["gt"]) >= v["gt"], fn_rd)
            ctx.oblige(st1, f"post:C19 len(buffer) + len(collected) <= {MAX_P1}", v["b"].n + v["raw"].n <= MAX_P1, fn_rd)
            ctx.oblige(st1, "post:result is the list of completed readouts", z3.BoolVal(isinstance(val, (GhostList, list))), fn_rd)
            snap = st1.ghost.get("after_loop")
            if snap is not None:
                pl_a, raw_a, hunt_a, gp_a = snap; raw = v["raw"]
                kept = z3.And(z3.BoolVal(v["hunt"] == hunt_a), v["gp"] == gp_a, raw.n == raw_a.n, z3.Or(raw.n == 0, z3.And(z3.BoolVal(raw.arr.eq(raw_a.arr)), raw.off == raw_a.off)))
                ctx.oblige(st1, f"post:C05 nothing is discarded while unconsumed + collected octets <= {MAX_P1} (the guard cannot trip inside a readout shorter than the bound)",
                           z3.Implies(pl_a + raw_a.n <= MAX_P1, kept), fn_rd)
        for o in ctx.obls: o.meta.update(replay="replay_p1_read", witness=p1_witness(hunt, extra=[("cn", cn)]))
        obls += ctx.obls
    eng.list_append_hook = None
    return obls


def group_readout(repo):
    eng = mk_engine(repo); return eng, readout_obligations(eng), {}
def group_p1reader(repo):
    eng = mk_engine(repo); return eng, p1reader_obligations(eng), {}
P1_FUNCS = [P + "read", P + "is_in_hunt_mode"] + [D + "_ReaderBuffer." + x for x in ("__len__", "pop", "extend", "clear", "trim_buffer_to_current_position", "trim_buffer_to_flag_or_end")]
