"""Contracts for the P1 text path of han/dlde.py (C15: termination and exception classes; C11: decode mapping).
Text is SMT String; str.find is IndexOf, split/splitlines/strip/lower are abstract (assumed: they return strings / lists of strings)."""
import ast, z3
from pyvc.engine import *
from props import dlde_model as DM
from pyvc import speclib as S

D = "han.dlde."
S_, I, B = z3.StringSort(), z3.IntSort(), z3.BoolSort()
P_OK = z3.Function("obis_parse_ok", S_, B); PG_NONE = [z3.Function(f"obis_parse_{nm}_none", S_, B) for nm in "ABCDEF"]; PG = [z3.Function(f"obis_parse_{nm}", S_, I) for nm in "ABCDEF"]
FLOAT_OK = z3.Function("float_of_str_ok", S_, B); FLOAT_V = z3.Function("float_of_str", S_, FSORT)
F_FINITE = z3.Function("float_is_finite", FSORT, B); F_NAN = z3.Function("float_is_nan", FSORT, B); INT_OF_F = z3.Function("int_of_float", FSORT, I)
LOWER = z3.Function("str_lower", S_, S_)
CDR = z3.Function("obis_cde_text", S_, S_)

class SOStr:
    def __init__(s, isnone, e): s.isnone = isnone; s.e = e

def mk_engine(repo):
    eng = DM.mk_engine(repo)
    def apply_from_string(e, st, args, ctx, node):
        a = args[-1]
        if a is None: return [(st, Raised("TypeError", "Obis.from_string(None)"))]
        if isinstance(a, SOStr):
            outs = []
            n_ = st.fork(); n_.pc.append(a.isnone)
            if e.feasible(n_): outs.append((n_, Raised("TypeError", "Obis.from_string(None)")))
            st = st.fork(); st.pc.append(z3.Not(a.isnone)); a = SStr(a.e)
            if not e.feasible(st): return outs
        else: outs = []
        s_ = to_str(a)
        ok = st.fork(); ok.pc.append(P_OK(s_)); bad = st.fork(); bad.pc.append(z3.Not(P_OK(s_)))
        g = tuple(SInt(PG[k](s_)) if "ABCDEF"[k] in "CD" else SOpt(PG_NONE[k](s_), PG[k](s_)) for k in range(6))
        ok.pc += [PG[k](s_) >= 0 for k in range(6)]
        ref = ok.new_obj("han.obis.Obis", {"_groups": g, "$src": s_})
        return outs + [(ok, ref), (bad, Raised("ValueError", "not a valid obis code"))]
    eng.contracts["han.obis.Obis.from_string"] = Contract(apply=apply_from_string)
    def apply_cdr(e, st, args, ctx, node):
        # contract of Obis.to_group_cdr_str (proved in C20): the 'C.D.E' text of the groups; here an abstract function of the parsed text
        src = st.heap[args[0].oid][1].get("$src")
        if src is None: raise Unsupported("to_group_cdr_str on an Obis that was not parsed from text")
        return [(st, SStr(CDR(src)))]
    eng.contracts["han.obis.Obis.to_group_cdr_str"] = Contract(apply=apply_cdr)
    def b_float(e, st, args, kw, ctx, node):
        if len(args) == 1 and isinstance(args[0], (SStr, str)):
            s_ = to_str(args[0]); outs = []
            for st1, r in e.implicit_failure(st, ctx, "safe:float(str)", FLOAT_OK(s_), "ValueError", node): outs.append((st1, r if r is not None else SFloat(FLOAT_V(s_))))
            return outs
        return None
    eng.py_calls["builtins.float"] = b_float
    def m_isfinite(e, st, args, kw, ctx, node):
        if len(args) == 1 and isinstance(args[0], SFloat): return [(st, SBool(z3.And(F_FINITE(args[0].e), z3.Not(F_NAN(args[0].e)))))]
        return None
    def m_isnan(e, st, args, kw, ctx, node):
        if len(args) == 1 and isinstance(args[0], SFloat): return [(st, SBool(F_NAN(args[0].e)))]
        return None
    def m_isinf(e, st, args, kw, ctx, node):
        if len(args) == 1 and isinstance(args[0], SFloat): return [(st, SBool(z3.And(z3.Not(F_FINITE(args[0].e)), z3.Not(F_NAN(args[0].e)))))]
        return None
    eng.py_calls["math.isfinite"] = m_isfinite; eng.py_calls["math.isnan"] = m_isnan; eng.py_calls["math.isinf"] = m_isinf
    prev_int = eng.py_calls.get("builtins.int")
    def b_int(e, st, args, kw, ctx, node):
        if len(args) == 1 and isinstance(args[0], SFloat) and not kw:
            f = args[0].e; outs = []
            inf = st.fork(); inf.pc += [z3.Not(F_FINITE(f)), z3.Not(F_NAN(f))]; nan = st.fork(); nan.pc.append(F_NAN(f)); ok = st.fork(); ok.pc += [F_FINITE(f), z3.Not(F_NAN(f))]
            for s2, v in ((inf, Raised("OverflowError", "int(inf)")), (nan, Raised("ValueError", "int(nan)")), (ok, SInt(INT_OF_F(f)))):
                if e.feasible(s2): outs.append((s2, v))
            return outs
        if len(args) == 1 and isinstance(args[0], SStr) and not kw:
            s_ = args[0].e; outs = []
            for st1, r in e.implicit_failure(st, ctx, "safe:int(str)", z3.InRe(s_, z3.Plus(z3.Range("0", "9"))), "ValueError", node):
                outs.append((st1, r if r is not None else SInt(z3.StrToInt(s_))))       # (optional sign / blanks / underscores would also parse: those paths are ValueError-free too)
            return outs
        return prev_int(e, st, args, kw, ctx, node) if prev_int else None
    eng.py_calls["builtins.int"] = b_int
    def dt_datetime(e, st, args, kw, ctx, node):
        if kw or len(args) != 6: raise Unsupported("datetime() form")
        Y, MO, D_, Hh, MI, S2 = [to_int(x) for x in args]
        dim = z3.If(z3.Or(MO == 4, MO == 6, MO == 9, MO == 11), 30, z3.If(MO == 2, z3.If(z3.And(Y % 4 == 0, z3.Or(Y % 100 != 0, Y % 400 == 0)), 29, 28), 31))
        ok = z3.And(Y >= 1, Y <= 9999, MO >= 1, MO <= 12, D_ >= 1, D_ <= dim, Hh >= 0, Hh <= 23, MI >= 0, MI <= 59, S2 >= 0, S2 <= 59)
        outs = []
        for st1, r in e.implicit_failure(st, ctx, "safe:datetime-range", ok, "ValueError", node): outs.append((st1, r if r is not None else ("adatetime", Y, MO, D_, Hh, MI, S2)))
        return outs
    eng.py_calls["datetime.datetime"] = dt_datetime
    def getattr_hook(st, base, attr, ctx, node):
        if isinstance(base, SOStr):
            if attr == "lower": return [(st, ("abstract", lambda e, st_, args, ctx_, node_, b=base: [(st_, SStr(LOWER(b.e)))]))]
        return None
    eng.getattr_hook = getattr_hook
    import pyvc.engine as E
    if not getattr(E, "_sostr_patched", False):
        _tb = E.to_bool
        def to_bool2(v):
            if isinstance(v, SOStr): return z3.And(z3.Not(v.isnone), z3.Length(v.e) > 0)
            return _tb(v)
        E.to_bool = to_bool2; E._sostr_patched = True
    def index_hook(st, base, idx, ctx, node):
        if isinstance(base, dict) and isinstance(idx, SStr) and all(isinstance(k, str) and isinstance(v, str) for k, v in base.items()):
            keys = list(base); outs = []
            miss = st.fork(); miss.pc += [idx.e != z3.StringVal(k) for k in keys]
            outs.append((miss, Raised("KeyError", "symbolic key")))
            hit = st.fork(); r = fresh("dictval", S_); hit.pc.append(z3.Or(*[z3.And(idx.e == z3.StringVal(k), r == z3.StringVal(base[k])) for k in keys]))
            outs.append((hit, SStr(r)))
            return outs
        return None
    eng.index_hook = index_hook
    eng.setitem_hook = lambda st, base, key, v, ctx, target: isinstance(base, dict)      # result dictionary with a symbolic key: not tracked here
    return eng

def p1text_obligations(eng):
    obls = []
    only_value_error = lambda what: (lambda st, args, exc, old, e: [(f"only ValueError may escape {what} ({exc.exc}: {exc.info})", z3.BoolVal(exc.exc in ("ValueError", "UnicodeDecodeError")))])
    # ---- DataSetValue.parse
    v = z3.String("value_text")
    o = eng.verify(D + "DataSetValue.parse", Contract(lambda e: [(State(), [("class", D + "DataSetValue"), SStr(v)])], lambda st, args, res, old, e: [("returns a DataSetValue", z3.BoolVal(isinstance(res, Ref)))],
                   raises=only_value_error("DataSetValue.parse"), fork_implicit=True))
    obls += o
    # ---- DataSet.parse_data_block: terminates for every text, only ValueError escapes
    q = D + "DataSet.parse_data_block"
    # loop variables by role (not by name): the inner `while True` of the nested helper carries one cursor over the helper's text parameter;
    # the outer `while` carries the position that its test reads; the line is the target of the enclosing `for`
    fn_pdb = eng.funcs[q][0]
    helpers = [n for n in ast.walk(fn_pdb) if isinstance(n, ast.FunctionDef) and n is not fn_pdb]
    whiles = sorted((n for n in ast.walk(fn_pdb) if isinstance(n, ast.While)), key=lambda n: n.lineno)
    inner = [w for w in whiles if any(w in list(ast.walk(h)) for h in helpers)]
    outer = [w for w in whiles if w not in inner]
    fors = [n for n in ast.walk(fn_pdb) if isinstance(n, ast.For) and any(w in list(ast.walk(n)) for w in outer)]
    if len(inner) != 1 or len(outer) != 1 or len(helpers) != 1 or not fors or not isinstance(fors[-1].target, ast.Name): raise Unsupported("parse_data_block: loop structure not recognised")
    helper = helpers[0]; LINE = helper.args.args[0].arg
    r_in = loop_roles(helper, inner[0]); cur = [c for c in r_in["carried"]]
    if len(cur) != 1: raise Unsupported(f"parse_data_block: inner loop carries {cur}, expected one cursor")
    CUR = cur[0]
    r_out = loop_roles(fn_pdb, outer[0]); test_names = {x.id for x in ast.walk(outer[0].test) if isinstance(x, ast.Name)}
    pos_names = [c for c in r_out["carried"] if c in test_names]
    if len(pos_names) != 1: raise Unsupported(f"parse_data_block: outer loop position not recognised ({r_out}, {test_names})")
    POS = pos_names[0]; DLINE = fors[-1].target.id
    def inv_inner(st, e):
        line = st.locals[LINE]; fp = to_int(st.locals[CUR])
        start = to_int(st.locals["$entry"][1])           # old(second parameter): where this data set was looked for
        return [("the cursor stays inside the line, at or after the position the helper was called with", z3.And(start >= 0, fp >= start, fp < z3.Length(line.e)))]
    def dec_inner(st, e): return z3.Length(st.locals[LINE].e) - to_int(st.locals[CUR])
    def inv_outer(st, e):
        v = st.locals[POS]
        if v is None: return []          # a 'no more data sets' marker other than -1
        pos = to_int(v); return [("position is -1 or inside the line", z3.And(pos >= -1, pos <= z3.Length(st.locals[DLINE].e)))]
    def dec_outer(st, e):
        v = st.locals[POS]
        if v is None: return z3.IntVal(0)
        pos = to_int(v); return z3.If(pos >= 0, z3.Length(st.locals[DLINE].e) - pos + 1, 0)
    def selector(qual, stmt, no):
        if qual != q: return None
        if stmt is outer[0]: return (inv_outer, dec_outer, {})
        if stmt is inner[0]: return (inv_inner, dec_inner, {})
        if isinstance(stmt, ast.For): return ((lambda st, e: []), None, {})
        return None
    eng.loop_spec_selector = selector
    data = z3.String("data_text")
    o = eng.verify(q, Contract(lambda e: [(State(), [("class", D + "DataSet"), SStr(data)])], lambda st, args, res, old, e: [("returns the list of data sets", z3.BoolVal(isinstance(res, (list, GhostList))))],
                   raises=only_value_error("parse_data_block"), fork_implicit=True))
    obls += o
    # ---- _parse_p1_datetime
    o = eng.verify(D + "_parse_p1_datetime", Contract(lambda e: [(State(), [SStr(z3.String("dt_text"))])], lambda st, args, res, old, e: [("returns a datetime", z3.BoolVal(isinstance(res, tuple) and res[0] == "adatetime"))],
                   raises=only_value_error("_parse_p1_datetime"), fork_implicit=True))
    obls += o
    # ---- _decode_parsed on one abstract data set (items are processed independently)
    def init_dp(e):
        for nvals in (0, 1, 2):
            st = State(); addr = SOStr(z3.Bool("addr_none"), z3.String("addr")); unit = SOStr(z3.Bool("unit_none"), z3.String("unit"))
            vals = [st.new_obj(D + "DataSetValue", {"value": SStr(z3.String(f"val{k}")), "unit": unit if k == 0 else None}) for k in range(nvals)]
            item = st.new_obj(D + "DataSet", {"address": addr, "values": vals})
            yield st, [[item]], f"{nvals} values"
    def apply_p1dt(e, st, args, ctx, node):
        ok = st.fork(); bad = st.fork(); t = fresh("p1dt_ok", B); ok.pc.append(t); bad.pc.append(z3.Not(t))
        return [(ok, ("adatetime",)), (bad, Raised("ValueError", "_parse_p1_datetime"))]
    saved = eng.contracts.get(D + "_parse_p1_datetime"); eng.contracts[D + "_parse_p1_datetime"] = Contract(apply=apply_p1dt)
    o = eng.verify(D + "_decode_parsed", Contract(init_dp, lambda st, args, res, old, e: [("returns a dictionary", z3.BoolVal(isinstance(res, dict)))], raises=only_value_error("_decode_parsed"), fork_implicit=True))
    obls += o
    # ---- entry points: parse_p1_readout_content / decode_p1_readout_content through the contracts above
    def apply_pdb(e, st, args, ctx, node):
        ok = st.fork(); bad = st.fork(); t = fresh("pdb_ok", B); ok.pc.append(t); bad.pc.append(z3.Not(t))
        ne = fresh("parsed_nonempty", B)
        return [(ok, GhostList("parsed", ne)), (bad, Raised("ValueError", "parse_data_block"))]
    eng.contracts[q] = Contract(apply=apply_pdb)
    def apply_dp(e, st, args, ctx, node):
        ok = st.fork(); bad = st.fork(); t = fresh("dp_ok", B); ok.pc.append(t); bad.pc.append(z3.Not(t))
        return [(ok, {}), (bad, Raised("ValueError", "_decode_parsed"))]
    eng.contracts[D + "_decode_parsed"] = Contract(apply=apply_dp)
    orig_decode = eng.prelude_methods["decode"]
    def m_decode(e, st, base, args, ctx, node):
        outs = []
        for st1, r in orig_decode(e, st, base, args, ctx, node):
            outs.append((st1, SStr(fresh("decoded", S_)) if isinstance(r, STxt) else r))
        return outs
    eng.prelude_methods["decode"] = m_decode
    content = SBytes(z3.Const("content", BYTE_ARR), z3.Int("content_n")); kq_ = z3.Int("kq__c")
    for name in ("parse_p1_readout_content", "decode_p1_readout_content"):
        def init_c(e):
            st = State(); st.pc.append(content.n >= 0); yield st, [content]
        o = eng.verify(D + name, Contract(init_c, (lambda name: lambda st, args, res, old, e: [(f"{name} returns its result type", z3.BoolVal(isinstance(res, (dict, list, GhostList)))),
                                                                                          (f"{name} returns only for pure ASCII content (C12: a payload with an octet >= 0x80 is refused with ValueError)", S.ALLASCII(content.arr, content.off, content.off + content.n))] +
                                                                                         ([("decode_p1_readout_content returns only for text: no control octet other than CR / LF (C12: every DLMS list starts with the array / structure tag 0x01 / 0x02 and is refused)",
                                                                                            z3.ForAll([kq_], z3.Implies(z3.And(0 <= kq_, kq_ < content.n), z3.Or(z3.UGE(content.at(kq_), 0x20), content.at(kq_) == 0x0A, content.at(kq_) == 0x0D))))] if name == "decode_p1_readout_content" else []))(name),
                       raises=only_value_error(name), fork_implicit=True))
        obls += o
    for o in obls: o.meta.update(replay="replay_p1text", strings=True)
    obls.append(Obligation("canary.find_can_return_a_position_before_start", [z3.Int("st0") >= 0, z3.Int("st0") <= z3.Length(data)], z3.IndexOf(data, z3.StringVal("("), z3.Int("st0")) > z3.Int("st0"), kind="canary", expect_refuted=True, use_axioms=False))
    return obls

def group_p1text(repo):
    eng = mk_engine(repo); return eng, p1text_obligations(eng), {}

# ----------------------------------------------------------------------------- C11: what _decode_parsed stores for one data set, and agreement of the entry points
def decode_mapping_obligations(eng):
    obls = []
    name_map = eng.consts.get("han.obis_map.obis_name_map")
    if not isinstance(name_map, dict) or not name_map: raise Unsupported("obis_name_map could not be evaluated from the source")
    from props import cosem_spec as SP
    # the table itself against the documented names
    obls.append(Obligation("han.obis_map.obis_name_map#post:OBIS C.D.E -> common field name table == documented table", [], z3.BoolVal(name_map == SP.NAMES), kind="post", func="han.obis_map",
                           meta={"replay": "replay_name_map"}))
    stores = []
    def setitem(st, base, key, v, ctx, target):
        if isinstance(base, dict): st.ghost["stores"] = st.ghost.get("stores", ()) + ((key, v),); return True
        return False
    eng.setitem_hook = setitem
    addr = z3.String("addr"); unit = z3.String("unit"); unit_none = z3.Bool("unit_none"); val = z3.String("val0")
    def init_dp(e):
        # two data sets: the first is arbitrary, the contract is about what is stored for the SECOND (every data set is decoded on its own:
        # nothing may leak from an earlier data set)
        st = State(); u = SOStr(unit_none, unit)
        first = st.new_obj(D + "DataSet", {"address": SStr(z3.String("addr_prev")), "values": [st.new_obj(D + "DataSetValue", {"value": SStr(z3.String("val_prev")), "unit": SOStr(z3.Bool("unit_prev_none"), z3.String("unit_prev"))})]})
        vals = [st.new_obj(D + "DataSetValue", {"value": SStr(val), "unit": u})]
        item = st.new_obj(D + "DataSet", {"address": SStr(addr), "values": vals})
        st.pc += [z3.Length(addr) > 0, z3.Length(z3.String("addr_prev")) > 0]
        yield st, [[first, item]], "second of two data sets"
    P1DT = z3.Function("p1_datetime_of", S_, I)
    def apply_p1dt(e, st, args, ctx, node):
        s_ = to_str(args[0]); ok = st.fork(); bad = st.fork(); t = z3.Function("p1_datetime_ok", S_, B)(s_); ok.pc.append(t); bad.pc.append(z3.Not(t))
        return [(ok, ("adatetime_of", s_)), (bad, Raised("ValueError", "_parse_p1_datetime"))]
    eng.contracts[D + "_parse_p1_datetime"] = Contract(apply=apply_p1dt)
    cde = CDR(addr)
    lu = LOWER(unit); has_unit = z3.And(z3.Not(unit_none), z3.Length(unit) > 0)
    in_set = lambda names: z3.And(has_unit, z3.Or(*[lu == z3.StringVal(n) for n in names]))
    def post_dp(st, args, res, old, e):
        stores_ = st.ghost.get("stores", ())
        yield "exactly one entry is stored per single-valued data set", z3.BoolVal(len(stores_) == 2)
        if len(stores_) != 2: return
        key, v = stores_[1]
        known = z3.Or(*[cde == z3.StringVal(k) for k in name_map])
        yield "key == common field name of C.D.E, or C.D.E itself when unknown", z3.And(z3.Implies(known, z3.Or(*[z3.And(cde == z3.StringVal(k), to_str(key) == z3.StringVal(nm)) for k, nm in name_map.items()])),
                                                                                      z3.Implies(z3.Not(known), to_str(key) == cde))
        plain = in_set(("v", "a", "var", "varh")); kilo = in_set(("kw", "kwh", "kvar", "kvarh"))
        if isinstance(v, SFloat): yield "V / A / var / varh (any letter case): the transmitted number", z3.And(plain, v.e == FLOAT_V(val))
        elif isinstance(v, SInt): yield "kW / kWh / kvar / kvarh (any letter case): int(number x 1000)", z3.And(kilo, z3.Not(plain), v.e == INT_OF_F(F_MUL(FLOAT_V(val), F_OF_INT(z3.IntVal(1000)))))
        elif isinstance(v, tuple) and v and v[0] == "adatetime_of": yield "the clock (C.D.E == 1.0.0, no numeric unit) is the parsed local date-time", z3.And(z3.Not(plain), z3.Not(kilo), cde == z3.StringVal("1.0.0"), v[1] == val)
        elif isinstance(v, SStr): yield "any other value verbatim", z3.And(z3.Not(plain), z3.Not(kilo), cde != z3.StringVal("1.0.0"), v.e == val)
        else: yield "value has one of the four specified forms", z3.BoolVal(False)
    o = eng.verify(D + "_decode_parsed", Contract(init_dp, post_dp, raises=lambda st, args, exc, old, e: [(f"only ValueError ({exc.exc})", z3.BoolVal(exc.exc == "ValueError"))], fork_implicit=True))
    for x in o: x.meta.update(replay="replay_p1decode", strings=True)
    obls += o
    # ---- entry points agree: both are _decode_parsed(parse_data_block(text of the payload))
    PARSED = z3.Function("parse_data_block_result", S_, I); PARSED_NONEMPTY = z3.Function("parse_nonempty", S_, B); DECODED = z3.Function("decode_parsed_result", I, I)
    def apply_pdb(e, st, args, ctx, node):
        s_ = to_str(args[-1]); ok = st.fork(); bad = st.fork(); t = z3.Function("parse_ok", S_, B)(s_); ok.pc.append(t); bad.pc.append(z3.Not(t))
        gl = GhostList("parsed", PARSED_NONEMPTY(s_)); gl.token = PARSED(s_)
        return [(ok, gl), (bad, Raised("ValueError", "parse_data_block"))]
    eng.contracts[D + "DataSet.parse_data_block"] = Contract(apply=apply_pdb)
    def apply_dp(e, st, args, ctx, node):
        p_ = args[0]
        if not hasattr(p_, "token"): raise Unsupported("_decode_parsed argument is not the parse result")
        ok = st.fork(); bad = st.fork(); t = z3.Function("decode_ok", I, B)(p_.token); ok.pc.append(t); bad.pc.append(z3.Not(t))
        return [(ok, {"$decoded_from": DECODED(p_.token)}), (bad, Raised("ValueError", "_decode_parsed"))]
    eng.contracts[D + "_decode_parsed"] = Contract(apply=apply_dp)
    TEXT = z3.Function("ascii_text_of", BYTE_ARR, I, I, S_)
    def m_decode(e, st, base, args, ctx, node):
        outs = []
        for st1, r in e.implicit_failure(st, ctx, "safe:decode-ascii", S.ALLASCII(base.arr, base.off, base.off + base.n), "UnicodeDecodeError", node):
            outs.append((st1, r if r is not None else SStr(TEXT(base.arr, base.off, base.off + base.n))))
        return outs
    eng.prelude_methods["decode"] = m_decode
    content = SBytes(z3.Const("content", BYTE_ARR), z3.Int("content_n")); kq_ = z3.Int("kq__c"); text = TEXT(content.arr, content.off, content.off + content.n)
    def init_c(e):
        st = State(); st.pc.append(content.n >= 0); yield st, [content]
    o = eng.verify(D + "decode_p1_readout_content", Contract(init_c, lambda st, args, res, old, e: [("result == _decode_parsed(parse_data_block(ascii text of the content)), which is non-empty",
                   z3.And(z3.BoolVal(isinstance(res, dict) and set(res) == {"$decoded_from"}), res["$decoded_from"] == DECODED(PARSED(text)), PARSED_NONEMPTY(text)) if isinstance(res, dict) and "$decoded_from" in res else z3.BoolVal(False))],
                   raises=lambda st, args, exc, old, e: [(f"only ValueError ({exc.exc})", z3.BoolVal(exc.exc in ("ValueError", "UnicodeDecodeError")))], fork_implicit=True))
    obls += o
    # decode_p1_readout(readout): same dictionary from readout.payload, plus manufacturer id / type id of the identification line
    def getattr_hook(st, base, attr, ctx, node):
        if isinstance(base, tuple) and base and base[0] == "areadout":
            if attr == "payload": return [(st, content)]
            if attr == "identification_line":
                ok = st.fork(); bad = st.fork(); t = z3.Bool("ident_ok"); ok.pc.append(t); bad.pc.append(z3.Not(t))
                return [(ok, ("aident",)), (bad, Raised("ValueError", "identification_line"))]
        if isinstance(base, tuple) and base == ("aident",):
            if attr == "manufacturer_id": return [(st, SStr(z3.String("ident_manid")))]
            if attr == "identification": return [(st, SOStr(z3.Bool("ident_id_none"), z3.String("ident_id")))]
        if isinstance(base, SOStr) and attr == "lower": return [(st, ("abstract", lambda e, st_, args, ctx_, node_, b=base: [(st_, SStr(LOWER(b.e)))]))]
        return None
    eng.getattr_hook = getattr_hook
    eng.setitem_hook = lambda st, base, key, v, ctx, target: (base.__setitem__(key, v) or True) if isinstance(base, dict) and isinstance(key, str) else False
    ocmp = eng.compare
    def compare(op, a, b, st=None, ctx=None, node=None):
        if isinstance(a, SOStr) and b is None and isinstance(op, (ast.Is, ast.IsNot)): return SBool(a.isnone if isinstance(op, ast.Is) else z3.Not(a.isnone))
        return ocmp(op, a, b, st, ctx, node)
    eng.compare = compare
    def post_ro(st, args, res, old, e):
        if not isinstance(res, dict) or "$decoded_from" not in res: yield "result is the decoded dictionary", z3.BoolVal(False); return
        yield "same data-block dictionary as decode_p1_readout_content(readout.payload) (no non-emptiness requirement)", res["$decoded_from"] == DECODED(PARSED(text))
        yield "adds exactly meter_manufacturer_id (always) and meter_type_id (when the identification line has an id)", z3.BoolVal(set(res) - {"$decoded_from", "meter_type_id"} == {"meter_manufacturer_id"})
        if "meter_manufacturer_id" in res: yield "meter_manufacturer_id is the MANID group", to_str(res["meter_manufacturer_id"]) == z3.String("ident_manid")
        yield "meter_type_id is the ID group when present", (z3.And(z3.Not(z3.Bool("ident_id_none")), res["meter_type_id"].e == z3.String("ident_id")) if "meter_type_id" in res else z3.Bool("ident_id_none"))
    o = eng.verify(D + "decode_p1_readout", Contract(lambda e: [(State(), [("areadout",)])], post_ro,
                   raises=lambda st, args, exc, old, e: [(f"only ValueError ({exc.exc})", z3.BoolVal(exc.exc in ("ValueError", "UnicodeDecodeError")))], fork_implicit=True))
    obls += o
    eng.compare = ocmp
    for x in obls:
        if not x.meta.get("replay"): x.meta.update(replay="replay_p1decode", strings=True)
    return obls

def group_p1decode(repo):
    eng = mk_engine(repo); return eng, decode_mapping_obligations(eng), {}
