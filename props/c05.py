"""C05 — P1: every readout on a clean stream is delivered once, however it is chunked."""
from props import hdlc_model as M, dlde_model as DM
from pyvc import run

def build(repo, tier, seed):
    r = M.groups_result([("p1reader", DM.group_p1reader, (repo,)), ("readout", DM.group_readout, (repo,))],
                        select=lambda oid: "ModeDReader" in oid or "is_valid" in oid or "__init__" in oid or "_ident_pattern" in oid)
    r.functions = sorted(set(DM.P1_FUNCS) | {o.func for o in r.obligations if o.func})
    r.level = "other"
    r.explanation = ("C05: proved deductively, for every state and chunk: the P1 reader's buffer/line-step contracts with a ghost input stream - unconsumed input is the tail of the stream, "
                     "collected octets are a contiguous stream segment starting with a complete ASCII identification line, every returned readout is byte-identical to a contiguous segment "
                     "from an identification line to a line starting with '!', no complete line is left unconsumed, sizes stay within the bound (so the guard cannot trip inside a readout "
                     "shorter than the bound), the loop terminates; DataReadout.is_valid postcondition (iv) gives validity of well-formed readouts. "
                     "The whole-history composition (every readout of a clean stream exactly once, any chunking) is run as a BOUNDED stand-in on the real reader.")
    r.not_decided = ["lemma clean_p1_stream is bounded, not proved"]
    b = run.rt_call("C05", "clean_stream_check", {"seed": seed, "n": 150 if tier == "quick" else 3000})
    r.bounded.append(b if "name" in b else {"name": "clean_stream_check", "error": b.get("error", b)})
    return r
