"""C05 — P1: every readout on a clean stream is delivered once, however it is chunked."""
from props import hdlc_model as M, dlde_model as DM, clean_p1 as CP
from pyvc import run

def build(repo, tier, seed):
    r = M.groups_result([("p1reader", DM.group_p1reader, (repo,)), ("readout", DM.group_readout, (repo,)), ("clean p1 stream", CP.group_clean_p1, (repo,))],
                        select=lambda oid: "ModeDReader" in oid or "is_valid" in oid or "__init__" in oid or "_ident_pattern" in oid)
    r.functions = sorted(set(DM.P1_FUNCS) | {o.func for o in r.obligations if o.func})
    r.level = "proof"
    r.explanation = ("C05: (1) for every state and chunk: the P1 reader's buffer/line-step contracts with a ghost input stream - unconsumed input is the tail of the stream, collected octets are a contiguous stream "
                     "segment starting with a complete ASCII identification line, every returned readout is byte-identical to a contiguous segment from an identification line to a line starting with '!', no complete line is "
                     "left unconsumed, sizes stay within the bound, the loop terminates; DataReadout.is_valid postcondition (iv) gives validity of well-formed readouts. (2) The clean-stream lemma is a second contract of the "
                     "real ModeDReader.read() (props/clean_p1.py), proved on its real body: on a stream that from A0 on consists of well-formed readouts back to back (described line by line with ghost functions in_readout / "
                     "readout_start / readouts_before of the line starts), with STATE(g) = 'the unconsumed octets are the line in progress, hunt mode iff not inside a readout, the collected octets are the stream since the "
                     "readout started', read(chunk) takes STATE(g) to STATE(g+len(chunk)) and returns exactly one DataReadout per end line consumed, in order, byte-identical to the stream from its identification line to the "
                     "end of its end line; the length guard never trips. A new reader inside the tail of a readout (no '/' in the tail) drops everything up to A0 and reaches STATE there. Same predicate before and after each "
                     "call, so the calls compose for every splitting (sequential composition). Unbounded in the number of readouts, lines and chunks; each readout at most 8191 octets.")
    r.assumptions = ["clean P1 stream = the hypotheses CLEAN(p) of props/clean_p1.py at every line start p >= A0 (a line outside a readout is an ASCII identification line; inside, a line starting with '!' ends the readout; "
                     "every readout and identification line fits in 8191 octets; the transmission ends with a complete line; the leading tail holds no '/'). The bounded run p1_ideal_check confirms on every generated clean "
                     "stream that these hypotheses hold for it and that the real reader meets the contract; cover canaries show every kind of line is reachable under them.",
                     "validity of the returned readouts is C04's contract applied to the returned octets (well-formed readouts carry no '!' before their end line and a correct or absent checksum)",
                     "the composition over calls (same predicate before and after each call) is the sequential-composition rule, applied by hand"]
    r.not_decided = []
    b = run.rt_call("C05", "clean_stream_check", {"seed": seed, "n": 150 if tier == "quick" else 3000})
    r.bounded.append(b if "name" in b else {"name": "clean_stream_check", "error": b.get("error", b)})
    b = run.rt_call("C05", "p1_ideal_check", {"seed": seed, "n": 150 if tier == "quick" else 3000})
    r.bounded.append(b if "name" in b else {"name": "p1_ideal_check", "error": b.get("error", b)})
    return r
