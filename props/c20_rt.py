import itertools, random, re
from han import obis
def spec_reduced(g):
    A, B, C, D, E, F = g
    return (f"{A}-" if A else "") + (f"{B}:" if B else "") + f"{C}.{D}" + (f".{E}" if E else "") + (f"*{F}" if F else "")
def written(g, presence):
    A, B, C, D, E, F = g; pa, pb, pe, pf = presence
    return (f"{A}-" if pa else "") + (f"{B}:" if pb else "") + f"{C}.{D}" + (f".{E}" if pe else "") + (f"*{F}" if pf else "")
def replay_reduced(p):
    g = p["witness"].get("groups"); 
    if g is None: return {"violated": False, "inconclusive": True}
    o = obis.Obis(tuple(g)); got = o.to_reduced_str(); exp = spec_reduced(g)
    cdr = f"{g[2]}.{g[3]}.{g[4]}"
    bad = got != exp or o.to_group_cdr_str() != cdr
    return {"violated": bad, "detail": f"Obis({tuple(g)}).to_reduced_str() == {got!r}, specified {exp!r}; cdr {o.to_group_cdr_str()!r} / {cdr!r}"}
def replay_eq(p):
    w = p["witness"]; g, h = w.get("groups"), w.get("groups2")
    if g is None or h is None: return {"violated": False, "inconclusive": True}
    a, b = obis.Obis(tuple(g)), obis.Obis(tuple(h)); eq = a == b
    bad = eq != (tuple(g) == tuple(h)) or (tuple(g) == tuple(h) and hash(a) != hash(b))
    return {"violated": bad, "detail": f"Obis({tuple(g)}) == Obis({tuple(h)}) -> {eq}"}
def replay_parse(p): 
    r = parse_roundtrip({"rand": 3000}); return {"violated": bool(r["violations"]), "detail": r["violations"][:1], "inconclusive": not r["violations"]}
def replay_pattern(p):
    r = parse_roundtrip({"rand": 3000}); return {"violated": bool(r["violations"]), "detail": r["violations"][:1], "inconclusive": not r["violations"]}
def parse_roundtrip(p):
    rnd = random.Random(p.get("seed", 0)); bad = []; ev = 0; distinct = set()
    vals = [0, 1, 9, 10, 99, 100, 255]
    def check_parse(text, exp):
        nonlocal ev
        ev += 1
        try: got = obis.to_obis_tupple(text)
        except ValueError: got = "ValueError"
        if got != exp: bad.append({"text": text, "parsed": repr(got), "expected": repr(exp)})
    for presence in itertools.product([False, True], repeat=4):
        pool = list(itertools.product(vals, repeat=6)); rnd.shuffle(pool)
        for g in pool[:400] + [tuple(rnd.randrange(256) for _ in range(6)) for _ in range(p.get("rand", 2000) // 16)]:
            pa, pb, pe, pf = presence
            exp = (g[0] if pa else None, g[1] if pb else None, g[2], g[3], g[4] if pe else None, g[5] if pf else None)
            check_parse(written(g, presence), exp); distinct.add((presence, g))
            if bad: break
            # round trip: format then parse gives back the groups when optional groups are absent or non-zero
            gg = tuple((None if (k in (0, 1, 4, 5) and not presence[(0, 1, None, None, 2, 3)[k]]) else v) for k, v in enumerate(g))
            if all(v is None or v != 0 or k in (2, 3) for k, v in enumerate(gg)):
                ev += 1; o = obis.Obis(gg)
                try: back = obis.to_obis_tupple(o.to_reduced_str())
                except ValueError: back = "ValueError"
                if back != gg: bad.append({"groups": repr(gg), "formatted": o.to_reduced_str(), "parsed_back": repr(back)})
            if bad: break
        if bad: break
    for g in [tuple(rnd.randrange(256) for _ in range(6)) for _ in range(300)]:
        check_parse(".".join(str(v) for v in g), g)
        check_parse(".".join(str(v) for v in g[:5]) + ".", g[:5] + (None,))
        if bad: break
    for t in ["", "abc", "1-2:", "1:2-3", "x.y", "-", ". .", "12", "1 .2", "a1b2", "*5", "1-1:", "1,8,0"]:
        if not re.search(r"\d\.\d|\d\.$|^\.\d|\d\.", t) : check_parse(t, "ValueError")
    return {"name": "parse / round trip conformance of the regex capture groups", "bound": "16 presence patterns x (400 boundary-value tuples + random tuples), dotted forms, malformed strings", "evaluations": ev,
            "distinct_nontrivial": len(distinct), "violations": bad[:2]}

def bounded_search(p):
    """used only when the deductive side is undecided: formatting, equality / hash and parsing of OBIS codes on boundary values"""
    rnd = random.Random(p.get("seed", 0)); bad = []; ev = 0
    vals = [None, 0, 1, 9, 99, 254, 255]
    pool = [tuple(rnd.choice(vals) if k in (0, 1, 4, 5) else rnd.choice([0, 1, 9, 255]) for k in range(6)) for _ in range(400)]
    for g in pool:
        ev += 1; r = replay_reduced({"witness": {"groups": [v if v is not None else 0 for v in g]}})
        if r.get("violated"): bad.append(r["detail"]); break
    if not bad:
        for g in pool[:120]:
            for h in pool[:120]:
                ev += 1; a, b = obis.Obis(g), obis.Obis(h)
                if (a == b) != (g == h) or (g == h and hash(a) != hash(b)) or (a == obis.Obis(g).to_reduced_str()) is None:
                    bad.append(f"Obis({g}) == Obis({h}) -> {a == b}"); break
            if bad: break
    if not bad:          # neighbours: one optional group switched between absent and a boundary value
        for g in pool[:300]:
            for k in (0, 1, 4, 5):
                for v in (None, 0, 255):
                    h = g[:k] + (v,) + g[k + 1:]; ev += 1; a, b = obis.Obis(g), obis.Obis(h)
                    if (a == b) != (g == h) or (a == b and hash(a) != hash(b)): bad.append(f"Obis({g}) == Obis({h}) -> {a == b}"); break
                if bad: break
            if bad: break
    if not bad:
        r = parse_roundtrip({"seed": p.get("seed", 0), "rand": 1500}); ev += r["evaluations"]
        bad = r["violations"][:1]
    return {"name": "bounded search: OBIS formatting, equality and parsing on boundary values", "bound": "400 group tuples over (absent, 0, 1, 9, 99, 254, 255), 120 x 120 equality pairs, parse / round trip conformance", "evaluations": ev, "distinct_nontrivial": ev, "violations": bad[:1]}
