from props.proto_rt import *
