from props.proto_rt import *

# ----------------------------------------------------------------------------- last sentence of C13: clean streams through the real protocols with real readers
def _run_protocol(cands, chunks, payload_proto=True):
    import asyncio
    from han import meter_connection as mc
    loop = asyncio.new_event_loop(); asyncio.set_event_loop(loop)
    try:
        q = asyncio.Queue(); proto = (mc.SmartMeterMessagePayloadProtocol if payload_proto else mc.SmartMeterMessageProtocol)(q, cands)
        for ch in chunks: proto.data_received(ch)
        got = []
        while not q.empty(): got.append(q.get_nowait())
        return got
    finally:
        loop.close()

def _candidates(order, cfg):
    from han import hdlc, dlde
    return [hdlc.HdlcFrameReader(*cfg), dlde.ModeDReader()] if order == "HP" else [dlde.ModeDReader(), hdlc.HdlcFrameReader(*cfg)] if order == "PH" else [hdlc.HdlcFrameReader(*cfg)] if order == "H" else [dlde.ModeDReader()]

def clean_stream_selection(p):
    """bounded: clean HDLC streams (frames whose payload holds no '/': see the known finding for the excluded case) and clean P1 streams through both protocol classes with candidate
    lists [HDLC], [P1], [HDLC, P1], [P1, HDLC]: the queue receives every message's non-empty payload (message protocol: every message)"""
    import random
    from props.c02_rt import gen_frame
    from props.c16_rt import stuff
    from props import spec_py as sp
    rnd = random.Random(p.get("seed", 0)); n = p.get("n", 120); ev = 0; bad = []
    for it in range(n):
        cfg = (bool(it & 1), bool(it & 2)); hd = it % 3 != 0
        if hd:
            frames = []
            while len(frames) < rnd.randrange(1, 5):
                fr, meta = gen_frame(rnd, cfg)
                if b"/" not in meta["info"]: frames.append((fr, meta))
            wire = b"\x7e" * rnd.randrange(1, 3)
            for fr, _ in frames: wire += (stuff(fr) if cfg[0] else fr) + b"\x7e" * rnd.randrange(1, 3)
            want = [m["info"] for _, m in frames if m["info"]]; orders = ("H", "HP", "PH")
        else:
            ros = []
            for _ in range(rnd.randrange(1, 5)):
                body = rnd.choice([b"/AUX5UXXXXXXXXXXXXXXX", b"/KFM5KAIFA-METER", b"/ABC5"]) + b"\r\n\r\n" + b"".join(rnd.choice([b"1-0:1.8.0(00006678.394*kWh)", b"0-0:1.0.0(210217184019W)"]) + b"\r\n" for _ in range(rnd.randrange(0, 6))) + b"!"
                ros.append(body + (b"%04X" % sp.crc16_arc(body)) + b"\r\n")
            wire = b"".join(ros); orders = ("P", "HP", "PH")
            from han import dlde
            want = [dlde.DataReadout(r).payload for r in ros]; want = [w for w in want if w]
        cuts = sorted(rnd.sample(range(len(wire) + 1), min(len(wire) + 1, rnd.randrange(0, 6)))); chunks = [wire[a:b] for a, b in zip([0] + cuts, cuts + [len(wire)])]
        for order in orders:
            ev += 1; got = _run_protocol(_candidates(order, cfg), chunks, True)
            if got != want:
                bad.append({"stream": "HDLC" if hd else "P1", "cfg": list(cfg), "candidates": order, "cuts": cuts, "wire": wire.hex()[:240], "queue": [g.hex()[:40] for g in got][:4], "expected": [w.hex()[:40] for w in want][:4]}); break
        if bad: break
    return {"name": "clean streams through the real protocols and readers, every candidate order", "bound": f"{n} generated clean streams (HDLC frames without '/' in the payload, four configurations; P1 readouts) x candidate lists x random chunkings",
            "evaluations": ev, "distinct_nontrivial": ev, "violations": bad[:2]}

def selection_known_finding(p):
    """the known counterexample to the last sentence of C13: a clean HDLC stream whose first frame carries a complete valid P1 readout as its payload"""
    from props import spec_py as sp
    ro = b"/ABC5\r\n\r\n1-0:1.8.0(1*kWh)\r\n!"; ro += (b"%04X" % sp.crc16_arc(ro)) + b"\r\n"
    def frame(info):
        ln = 2 + 1 + 1 + 1 + 2 + len(info) + 2; hdr = bytes([0xA0 | (ln >> 8), ln & 0xFF]) + b"\x03\x21\x13"; h = sp.fcs16(hdr); fr = hdr + bytes([h & 0xFF, h >> 8]) + info; f = sp.fcs16(fr); return fr + bytes([f & 0xFF, f >> 8])
    f1, f2 = frame(ro), frame(b"\xe6\xe7\x00\x0fhello"); wire = b"\x7e" + f1 + b"\x7e" + f2 + b"\x7e"; want = [ro, b"\xe6\xe7\x00\x0fhello"]; bad = []; ev = 0
    for order, cut in (("PH", None), ("HP", len(f1) - 1)):
        chunks = [wire] if cut is None else [wire[:cut], wire[cut:]]; ev += 1
        got = _run_protocol(_candidates(order, (False, True)), chunks, True)
        if got != want: bad.append({"candidates": order, "cut": cut, "wire": wire.hex(), "queue": [g.decode("latin1") for g in got], "expected": [w.decode("latin1") for w in want]})
    return {"name": "frame carrying a P1 readout (known finding)", "bound": "one stream, candidate orders [P1, HDLC] (one call) and [HDLC, P1] (cut inside the first frame)", "evaluations": ev, "distinct_nontrivial": ev, "violations": bad[:1]}
