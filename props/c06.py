"""C06 — HDLC reader output does not depend on how the byte stream is chunked."""
import z3
from props import hdlc_model as M
from pyvc.engine import Obligation
from pyvc import run

KEEP = ("T1 ", "T2 ", "T3 ", "T4 ", "T5 ", "T6 ", "T7 ", "T8 ", "T9 ", "T10 ", "consumes at least", "every octet of the chunk", "unstuff(raw)", "octets == raw", "no pending escape", "contiguous", "tail of the stream",
        "returned", "pre:", "inv-entry", "inv-keep", "dec#", "stream length unchanged")
def fold_split_group(repo):
    """generic lemma: if one call consumes its chunk octet by octet through a step function (state x octet -> state x output), then feeding a+b in one call
    equals feeding a and then b.  STEP is uninterpreted: the lemma holds for every step function, in particular the one the T-clauses pin down."""
    from pyvc.engine import Engine, BYTE_ARR
    eng = Engine({})
    St = z3.DeclareSort("ReaderState"); I = z3.IntSort()
    STEP = z3.Function("STEP", St, z3.BitVecSort(8), St)
    RUN = z3.RecFunction("RUN", St, BYTE_ARR, I, I, St)            # state after consuming stream[lo:hi]
    s, a, lo, hi, mid = z3.Const("s", St), z3.Const("strm", BYTE_ARR), z3.Int("lo"), z3.Int("hi"), z3.Int("mid")
    z3.RecAddDefinition(RUN, [s, a, lo, hi], z3.If(hi <= lo, s, STEP(RUN(s, a, lo, hi - 1), a[hi - 1])))
    L = lambda h_: RUN(RUN(s, a, lo, mid), a, mid, h_) == RUN(s, a, lo, h_)
    obls = [Obligation("lemma.fold_split#base: RUN(RUN(s, stream[lo:mid]), stream[mid:mid]) == RUN(s, stream[lo:mid])", [lo <= mid, hi == mid], L(hi), use_axioms=False, kind="lemma"),
            Obligation("lemma.fold_split#step: one more octet after the cut", [lo <= mid, hi > mid, L(hi - 1)], L(hi), use_axioms=False, kind="lemma")]
    return eng, obls, {}

def build(repo, tier, seed):
    from props import ideal_hdlc as ID
    tasks = M.hdlc_tasks(repo, None, True) + [("fold_split", fold_split_group, (repo,))] + [(f"ideal receiver {cfg}", ID.group_ideal, (repo, cfg)) for cfg in M.CONFIGS]
    r = M.groups_result(tasks, select=None)
    r.functions = sorted(M.READER_FUNCS)
    r.level = "proof"
    r.explanation = ("C06: proved from the real source, four configurations, for EVERY byte stream: (1) _read_next's contract: reader invariant and the exact transition clauses T1-T14 (effect of the next octet on mode, frame array and length, "
                     "raw length, pending escape, completion; where the read position is after a discard); (2) read() against the ideal receiver (props/ideal_hdlc.py): ghost functions of the stream position, defined by recurrence on the "
                     "position alone (the T-clauses read as definitions, plus 'a new empty frame after a completed one'), give what a receiver that reads the stream octet by octet holds at p and how many frames it has completed. "
                     "With STATE(g) = 'the reader's mode, frame array, length, pending escape and raw length are the ideal receiver's at g', read(chunk) takes STATE(g) (nothing unconsumed) to STATE(g+len(chunk)) and returns exactly the ideal "
                     "receiver's completions inside the chunk, in order, with its octets. The ideal receiver depends on the stream only, so any two splittings return the same frames (sequential composition of the contract; validity and payload "
                     "are functions of the octets by the frame contracts of C01). Hunt-mode skipping is covered by an induction lemma (the ideal receiver keeps hunting and completes nothing until the next flag). "
                     "The generic fold-split lemma and the bounded differential runs are kept as cross-checks.")
    r.assumptions = ["the ideal receiver's recurrences are definitions (total, one successor state per state and octet): nothing is assumed about the stream", "chunks are consecutive segments of one stream (ghost array G)",
                     "the composition over calls (same predicate before and after each call) is the sequential-composition rule, applied by hand"]
    r.not_decided = []
    b = run.rt_call("C06", "chunk_independence", {"seed": seed, "maxlen": 7 if tier == "quick" else 9, "rand": 600 if tier == "quick" else 20000})
    r.bounded.append(b if "name" in b else {"name": "chunk_independence", "error": b.get("error", b)})
    b = run.rt_call("C06", "ideal_receiver_check", {"seed": seed, "n": 400 if tier == "quick" else 8000})
    r.bounded.append(b if "name" in b else {"name": "ideal_receiver_check", "error": b.get("error", b)})
    return r
