"""C06 — HDLC reader output does not depend on how the byte stream is chunked."""
import z3
from props import hdlc_model as M
from pyvc.engine import Obligation
from pyvc import run

KEEP = ("T1 ", "T2 ", "T3 ", "T4 ", "T5 ", "T6 ", "T7 ", "T8 ", "T9 ", "T10 ", "consumes at least", "every octet of the chunk", "unstuff(raw)", "octets == raw", "no pending escape", "contiguous", "tail of the stream",
        "returned", "pre:", "inv-entry", "inv-keep", "dec#", "stream length unchanged")
def fold_split_group(repo):
    """generic lemma: if one call consumes its chunk octet by octet through a step function (state x octet -> state x output), then feeding a+b in one call
    equals feeding a and then b.  STEP is uninterpreted: the lemma holds for every step function, in particular the one the T-clauses pin down."""
    from pyvc.engine import Engine, BYTE_ARR
    eng = Engine({})
    St = z3.DeclareSort("ReaderState"); I = z3.IntSort()
    STEP = z3.Function("STEP", St, z3.BitVecSort(8), St)
    RUN = z3.RecFunction("RUN", St, BYTE_ARR, I, I, St)            # state after consuming stream[lo:hi]
    s, a, lo, hi, mid = z3.Const("s", St), z3.Const("strm", BYTE_ARR), z3.Int("lo"), z3.Int("hi"), z3.Int("mid")
    z3.RecAddDefinition(RUN, [s, a, lo, hi], z3.If(hi <= lo, s, STEP(RUN(s, a, lo, hi - 1), a[hi - 1])))
    L = lambda h_: RUN(RUN(s, a, lo, mid), a, mid, h_) == RUN(s, a, lo, h_)
    obls = [Obligation("lemma.fold_split#base: RUN(RUN(s, stream[lo:mid]), stream[mid:mid]) == RUN(s, stream[lo:mid])", [lo <= mid, hi == mid], L(hi), use_axioms=False, kind="lemma"),
            Obligation("lemma.fold_split#step: one more octet after the cut", [lo <= mid, hi > mid, L(hi - 1)], L(hi), use_axioms=False, kind="lemma")]
    return eng, obls, {}

def build(repo, tier, seed):
    tasks = M.hdlc_tasks(repo, None, True) + [("fold_split", fold_split_group, (repo,))]
    r = M.groups_result(tasks, select=None)
    r.functions = sorted(M.READER_FUNCS)
    r.level = "other"
    r.explanation = ("C06: proved from the real source, four configurations: (a) read() is only entered and left with nothing unconsumed, so no state hides in the buffer; (b) every loop iteration is one _read_next "
                     "step whose effect on (mode, frame octets, raw octets, pending escape) and whether a frame completes is given case by case by clauses T1-T10 as a function of that state and the next octet only; "
                     "(c) hunt-mode trimming skips non-flag octets, which T1 shows to be no-ops; (d) the frames appended to the result are exactly the completed ones; (e) the state is tied to the ghost input stream "
                     "(raw == stream segment after the last flag, octets == unstuff(raw)), i.e. it is a function of the consumed prefix; (f) the generic fold-split lemma over an uninterpreted step function. "
                     "The composition of (a)-(f) into 'any two chunkings give the same frames' is an induction on the stream that is argued in DESIGN.md, not mechanised; a BOUNDED exhaustive differential run on the real reader "
                     "(all streams up to a small length over a reduced alphabet x all cut sets) stands in for it. Hence level 'other'.")
    r.not_decided = ["the final induction composing the per-step contracts into chunk independence is not mechanised (bounded differential stand-in)"]
    b = run.rt_call("C06", "chunk_independence", {"seed": seed, "maxlen": 7 if tier == "quick" else 9, "rand": 600 if tier == "quick" else 20000})
    r.bounded.append(b if "name" in b else {"name": "chunk_independence", "error": b.get("error", b)})
    return r
