"""C01 run-time side: replay solver models on the real HdlcFrame / HdlcFrameHeader."""
from han import hdlc
from props import spec_py as sp

def mk(octets):
    f = hdlc.HdlcFrame()
    for b in octets: f.append(b)
    return f
def check_frame(f, a):
    """-> list of contract clauses the real frame violates"""
    a = bytes(a); n = len(a); bad = []
    hd = f.header; cp = sp.ctrl_pos(a)
    def chk(name, got, exp):
        if got != exp: bad.append(f"{name}: got {got!r}, contract {exp!r}")
    chk("len", len(f), n); chk("as_bytes", f.as_bytes, a)
    chk("running FCS", f._ffc._crc_value, sp.fcs_fold(a)); chk("cached control position", hd._control_position, cp)
    chk("is_good_ffc", f.is_good_ffc, sp.fcs_fold(a) == 0xF0B8)
    chk("is_expected_length", f.is_expected_length, n >= 2 and sp.len_field(a) == n)
    chk("is_valid", f.is_valid, sp.valid_frame(a))
    chk("payload", f.payload, a[cp + 3:n - 2] if cp is not None and n > cp + 3 else None)
    chk("frame_check_sequence", f.frame_check_sequence, (a[n - 2] << 8 | a[n - 1]) if cp is not None and n >= cp + 3 else None)
    chk("frame_format", hd.frame_format, (a[0] << 8 | a[1]) if n >= 2 else None)
    chk("frame_length", hd.frame_length, sp.len_field(a) if n >= 2 else None)
    chk("frame_format_type", hd.frame_format_type, (a[0] >> 4) if n >= 2 else None)
    chk("segmentation", hd.segmentation, bool(a[0] & 8) if n >= 2 else None)
    e1 = sp.first_odd(a, 2, n) if n > 2 else n
    dst = a[2:e1 + 1] if n > 2 and e1 < n else None
    chk("destination_address", hd.destination_address, dst)
    e2 = sp.first_odd(a, e1 + 1, n) if dst is not None else n
    src = a[e1 + 1:e2 + 1] if dst is not None and e1 + 1 < n and e2 < n else None
    chk("source_address", hd.source_address, src)
    chk("control", hd.control, a[cp] if cp is not None and n > cp else None)
    chk("header_check_sequence", hd.header_check_sequence, (a[cp + 1] << 8 | a[cp + 2]) if cp is not None and n > cp + 2 else None)
    chk("information_position", hd.information_position, cp + 3 if cp is not None else None)
    return bad
def replay_frame(p):
    a = p["witness"].get("octets", []); bad = check_frame(mk(a), a)
    return {"violated": bool(bad), "detail": {"octets": bytes(a).hex(), "broken": bad[:4]}}
def replay_frame_append(p):
    w = p["witness"]; a = list(w.get("octets", [])) + [w.get("byte", 0)]
    bad = check_frame(mk(a[:-1]), a[:-1]) + check_frame(mk(a), a)
    return {"violated": bool(bad), "detail": {"octets": bytes(a).hex(), "broken": bad[:4]}}
def replay_get_address(p):
    w = p["witness"]; a = bytes(w.get("octets", [])); pos = w.get("position", 2); f = mk(a); n = len(a)
    got = f.header._get_address(pos); e = sp.first_odd(a, pos, n) if pos < n else n
    exp = a[pos:e + 1] if pos < n and e < n else None
    return {"violated": got != exp, "detail": f"_get_address({pos}) on {a.hex()} -> {got!r}, contract {exp!r}"}
def replay_read_next(p):
    from props import hdlc_rt; return hdlc_rt.replay_read_next(p)
def replay_read(p):
    from props import hdlc_rt; return hdlc_rt.replay_read(p)

def history_search(p):
    """bounded search for a frame (built octet by octet, as the reader builds it) or a reader history that breaks the frame contract; used to
    confirm models that depend on a field the contract does not constrain (e.g. a cached verdict)"""
    import random
    from props.c02_rt import gen_frame
    rnd = random.Random(p.get("seed", 0)); ev = 0
    for _ in range(p.get("n", 1500)):
        fr, _f = gen_frame(rnd, (True, False)); a = bytearray(fr); c = rnd.random()
        if c < 0.45 and len(a) > 9: a[rnd.randrange(7, len(a))] ^= 1 << rnd.randrange(8)        # good header, damaged information field / FCS
        elif c < 0.6: a[rnd.randrange(len(a))] ^= 1 << rnd.randrange(8)
        elif c < 0.7: a = a[:rnd.randrange(len(a))]
        ev += 1; bad = check_frame(mk(a), a)
        if bad: return {"violated": True, "detail": {"octets": bytes(a).hex(), "broken": bad[:4]}, "found_by": "bounded search over generated frames"}
        f = hdlc.HdlcFrame()                                                                      # the same frame with every property read after every octet
        for k, b in enumerate(a):
            f.append(b); bad = check_frame(f, a[:k + 1])
            if bad: return {"violated": True, "detail": {"octets": bytes(a[:k + 1]).hex(), "history": "every accessor read after every append", "broken": bad[:4]}, "found_by": "bounded search over generated frames"}
    from props import hdlc_rt
    r = hdlc_rt.fallback_search(p, "over-approximated state")
    if r.get("violated"): return r
    return {"violated": False, "evaluations": ev, "detail": "no generated frame or reader history breaks the frame contract"}

def bounded_search(p):
    """used only when the deductive side is undecided: generated frames (accessor contracts after every append), reader histories, chunkings against the reference receiver"""
    r = history_search({"seed": p.get("seed", 0), "n": p.get("n", 1200)})
    if r.get("violated"): return {"name": "bounded search: frames and reader histories on the real code", "bound": "generated frames x every accessor after every append; generated reader histories", "evaluations": p.get("n", 1200), "distinct_nontrivial": 1, "violations": [r["detail"]]}
    from props import c06_rt
    for f, a in ((c06_rt.ideal_receiver_check, {"seed": p.get("seed", 0), "n": 400}), (c06_rt.chunk_independence, {"seed": p.get("seed", 0), "maxlen": 6, "rand": 400})):
        b = f(a)
        if b.get("violations"): return {"name": "bounded search: frames and reader histories on the real code", "bound": b.get("bound"), "evaluations": b.get("evaluations", 0), "distinct_nontrivial": 1, "violations": b["violations"][:1]}
    return {"name": "bounded search: frames and reader histories on the real code", "bound": "generated frames, reader histories, chunkings against the reference receiver", "evaluations": p.get("n", 1200), "distinct_nontrivial": p.get("n", 1200), "violations": []}
