"""C11 — P1 readouts parse into the transmitted data sets and decode with exact units."""
from props import hdlc_model as M, p1text_model as PM
from pyvc import run

def build(repo, tier, seed):
    r = M.groups_result([("p1decode", PM.group_p1decode, (repo,)), ("p1text", PM.group_p1text, (repo,))])
    r.functions = ["han.dlde." + x for x in ("_decode_parsed", "decode_p1_readout_content", "decode_p1_readout", "parse_p1_readout_content", "DataSet.parse_data_block", "DataSetValue.parse", "_parse_p1_datetime")] + ["han.obis_map (table)"]
    r.level = "other"
    r.assumptions = ["Obis.from_string / to_group_cdr_str through their contracts (C20): abstract functions of the address text", "float(str) is correctly rounded; str.lower / split / strip are abstract string functions",
                     "identification-line capture groups MANID / ID: re priority semantics (bounded conformance)"]
    r.explanation = ("C11: proved from the real source: what _decode_parsed stores for an arbitrary single-valued data set - key == common name of C.D.E (table checked against the documented one) or C.D.E, "
                     "V/A/var/varh in any letter case -> float(value), kW/kWh/kvar/kvarh -> int(float(value) x 1000), the clock (1.0.0) -> the parsed date-time, anything else verbatim; only ValueError escapes; "
                     "decode_p1_readout_content == _decode_parsed(parse_data_block(text)) with a non-empty parse, decode_p1_readout == the same dictionary plus exactly meter_manufacturer_id / meter_type_id from the identification line "
                     "(AutoDecoder's agreement is C12); termination and exception classes of the parser (shared with C15). "
                     "BOUNDED on the real code: parse_data_block against the IEC 62056-21 data-block grammar (generated blocks), the capture groups of the identification line, and the float clause "
                     "n-1 <= int(float(v) x 1000) <= n (sweep of three-decimal values; it is false above ~10^14, recorded as a known finding). Hence 'other'.")
    r.not_decided = ["parse_data_block == grammar parse for all texts: bounded", "float clause: bounded sweep; counterexamples exist for magnitudes above 2^47 (known finding)"]
    for fn, arg in (("parse_conformance", {"seed": seed, "n": 1500 if tier == "quick" else 40000}), ("float_clause_sweep", {"seed": seed, "upto": 300000 if tier == "quick" else 10000000}), ("float_clause_large", {})):
        b = run.rt_call("C11", fn, arg, timeout=3000)
        r.bounded.append(b if "name" in b else {"name": fn, "error": b.get("error", b)})
    return r
