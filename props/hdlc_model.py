"""Shared contracts for han/hdlc.py (+ han/fastframecheck.py): frame invariant, accessor contracts, reader invariant.
Used by C01, C02, C06, C14, C16, C19."""
import ast, z3
from pyvc.engine import *
from pyvc import speclib as S
from props.c03 import next_contract, fit

H = "han.hdlc."; FQ = "han.fastframecheck.FastFrameCheckSequence16."
I = z3.IntSort()
# ghost: the array that represents the octets of a frame created while the reader is at stream position p.  Only the first len(frame) entries of a
# frame's array mean anything, so which array stands for an empty frame is a free choice of representation; naming it as a function of the position lets a
# lemma pick it (clean-stream lemma: the array of the frame that is about to arrive).  Uninterpreted everywhere else.
NEWARR = z3.Function("new_frame_array", I, BYTE_ARR)

def mk_engine(repo):
    eng = Engine({"han.fastframecheck": f"{repo}/han/fastframecheck.py", "han.common": f"{repo}/han/common.py", "han.hdlc": f"{repo}/han/hdlc.py"})
    eng.reveal_defs.append(S.FCS16_BIT_REVEAL); eng.refute_defs.append(S.FOLD_REFUTE)
    eng.contracts[FQ + "_next"] = next_contract()
    eng.prelude_methods["hex"] = lambda e, st, base, args, ctx, node: [(st, SStr(fresh("hex", z3.StringSort())))]
    eng.prelude_methods["find"] = bytes_find
    eng.prelude_methods["lstrip"] = bytes_lstrip
    eng.instantiators = list(getattr(eng, "instantiators", [])) + [S.lskipv_instantiator]
    return eng

def bytes_lstrip(e, st, base, args, ctx, node):
    """assumed contract of bytes.lstrip(<one octet>): the view without its leading run of that octet"""
    if len(args) != 1 or not isinstance(args[0], SBytes) or not (z3.is_int_value(z3.simplify(args[0].n)) and z3.simplify(args[0].n).as_long() == 1): raise Unsupported("lstrip: only lstrip(<single octet>) is modelled")
    k = S.LSKIPV(base.arr, args[0].at(0), base.off, base.off + base.n)
    st.pc.append(z3.And(k >= base.off, k <= base.off + base.n))
    return [(st, SBytes(base.arr, z3.simplify(base.off + base.n - k), k))]

def bytes_find(e, st, base, args, ctx, node):
    """assumed contract of bytearray.find(byte) on an offset view: index of the first occurrence, -1 when absent (stated for 0x7E via flag_idx)"""
    x = args[0]
    if not (isinstance(x, int) and x == 0x7E) or len(args) != 1: raise Unsupported("find: only find(0x7E) is modelled")
    o = base.off; fi = S.FI(base.arr, o, o + base.n)
    r = fresh("find", I)
    st.pc.append(r == z3.If(fi < o + base.n, fi - o, -1))
    return [(st, SInt(r))]

# ----------------------------------------------------------------------------- frames
def mk_frame(st, tag="", inv=True, eng=None):
    """a symbolic HdlcFrame satisfying frame_inv: the cached header fields and the running FCS are functions of the octets"""
    arr = z3.Const("data" + tag, BYTE_ARR); nn = z3.Int("n" + tag)
    if eng is not None and not any(str(v) == str(nn) for v in eng.len_vars): eng.len_vars.append(nn)
    st.pc += [nn >= 0]
    crc = z3.BitVec("crc" + tag, 16)
    ffc = st.new_obj(FQ[:-1], {"_crc_value": SBV(crc)})
    fr = st.new_obj(H + "HdlcFrame", {"_frame_data": SBytes(arr, nn), "_ffc": ffc, "_escape_next": False})
    if inv:
        st.pc.append(crc == S.FOLD(arr, 0, nn))
        cp = SOpt(S.CP(arr, nn) == -1, S.CP(arr, nn))
    else:
        cp = SOpt(z3.Bool("cpnone" + tag), z3.Int("cp" + tag))
    hd = st.new_obj(H + "HdlcFrameHeader", {"_frame": fr, "_control_position": cp, "_is_header_good": SOpt(z3.Bool("hgn" + tag), z3.Int("hg" + tag))})
    st.setf(fr, "_header", hd)
    return fr, hd, ffc, arr, nn

def frame_parts(st, fr):
    return st.getf(fr, "_frame_data"), st.getf(fr, "_ffc"), st.getf(fr, "_header")

def frame_inv_goals(st, fr):
    d, ffc, hd = frame_parts(st, fr)
    crc, ok = fit(st.getf(ffc, "_crc_value"), 16)
    yield "running FCS register == fcs_fold(octets)", z3.And(ok, crc == S.FOLD(d.arr, d.off, d.off + d.n))
    cpv = st.getf(hd, "_control_position")
    cps = S.CP(d.arr, d.n)
    yield "cached control position == ctrl_pos(octets)", z3.And(is_none_z3(cpv) == (cps == -1), z3.Implies(z3.Not(is_none_z3(cpv)), int_nochk(cpv) == cps))
    yield "header back-reference", z3.BoolVal(st.getf(hd, "_frame") == fr)
    yield "octet view starts at 0", d.off == 0
def frame_inv_z3(st, fr):
    return z3.And(*[g for _, g in frame_inv_goals(st, fr)], st.getf(fr, "_frame_data").n >= 0)

def octets_witness(arr, nn, extra=()):
    def w(m):
        k = m.eval(nn, model_completion=True).as_long()
        d = {"octets": [m.eval(arr[q], model_completion=True).as_long() for q in range(max(0, min(k, 4096)))]}
        for name, term in extra: d[name] = m.eval(term, model_completion=True).as_long()
        return d
    return w

def get_address_contract(eng):
    def init_ga(e):
        st = State(); fr, hd, ffc, arr, nn = mk_frame(st, inv=False, eng=e)
        pos = z3.Int("position"); st.pc += [pos >= 0]
        yield st, [hd, SInt(pos)]
    # loop variables by role: the index the loop steps (for-target, or the variable a while loop increments), the bytearray the body appends to
    q_ga = H + "HdlcFrameHeader._get_address"; fn_ga = eng.funcs[q_ga][0]
    loops_ga = [x for x in ast.walk(fn_ga) if isinstance(x, (ast.For, ast.While))]
    if len(loops_ga) != 1: raise Unsupported("_get_address: expected exactly one loop")
    IDX = loop_roles(fn_ga, loops_ga[0])["index"]
    apps = sorted({x.func.value.id for x in ast.walk(loops_ga[0]) if isinstance(x, ast.Call) and isinstance(x.func, ast.Attribute) and x.func.attr == "append" and isinstance(x.func.value, ast.Name)})
    if IDX is None or len(apps) != 1: raise Unsupported(f"_get_address: loop roles not recognised (index {IDX}, appended {apps})")
    ADR = apps[0]
    def inv_ga(st, e):
        hd = st.locals["$entry"][0]; d = st.getf(st.getf(hd, "_frame"), "_frame_data"); pos = to_int(st.locals["$entry"][1]); ii = to_int(st.locals[IDX])
        adr = st.locals[ADR]; k = z3.Int("k__i")
        return z3.And(pos <= ii, S.FO(d.arr, pos, d.n) == S.FO(d.arr, ii, d.n), adr.n == ii - pos, adr.off == 0,
                      z3.ForAll([k], z3.Implies(z3.And(0 <= k, k < adr.n), adr.at(k) == d.at(pos + k))))
    def dec_ga(st, e):
        hd = st.locals["$entry"][0]; d = st.getf(st.getf(hd, "_frame"), "_frame_data"); return d.n - to_int(st.locals[IDX])
    eng.loop_specs[(H + "HdlcFrameHeader._get_address", 0)] = (inv_ga, dec_ga, {})
    def post_ga(st, args, res, old, e):
        hd, pos = args; d = st.getf(st.getf(hd, "_frame"), "_frame_data"); fo = S.FO(d.arr, pos.e, d.n)
        none_c = z3.Or(d.n <= pos.e, fo >= d.n)
        if res is None: yield "None iff no terminated address from position", none_c
        else:
            k = z3.Int("k__p")
            yield "bytes iff there is an octet with the extension bit set", z3.Not(none_c)
            yield "len == first_odd - position + 1", res.n == fo - pos.e + 1
            yield "content == octets[position : first_odd+1]", z3.ForAll([k], z3.Implies(z3.And(0 <= k, k < res.n), res.at(k) == d.at(pos.e + k)))
    def apply_ga(e, st, args, ctx, node):
        href, pos = args; fr = st.getf(href, "_frame"); d = st.getf(fr, "_frame_data")
        pe = to_int(pos); fo = S.FO(d.arr, pe, d.n)
        none_c = z3.Or(d.n <= pe, fo >= d.n)
        s_none = st.fork(); s_none.pc.append(none_c)
        s_some = st.fork(); s_some.pc.append(z3.Not(none_c))
        # the address is a slice of the frame octets: an offset view on the same array (no fresh array, no quantifier)
        return [(s_none, None), (s_some, SBytes(d.arr, z3.simplify(fo - pe + 1), z3.simplify(d.off + pe)))]
    return Contract(init_ga, post_ga, apply_ga)

def frame_obligations(eng, want=("lemmas", "get_address", "init", "append", "valid", "accessors")):
    """C01 items 1-4"""
    obls = []
    lem, ax = S.hdlc_lemmas(Obligation)
    if "lemmas" in want: obls += lem
    eng.prelude_axioms += [ax["fold_frame"], ax["fo_append"], ax["fo_bounds"], ax["fi_bounds"], ax["residue"]]
    c_ga = get_address_contract(eng)
    if "get_address" in want:
        o = eng.verify(H + "HdlcFrameHeader._get_address", c_ga)
        arr, nn = z3.Const("data", BYTE_ARR), z3.Int("n")
        for x in o: x.meta.update(replay="replay_get_address", witness=octets_witness(arr, nn, [("position", z3.Int("position"))]))
        obls += o
    eng.contracts[H + "HdlcFrameHeader._get_address"] = c_ga
    arr, nn = z3.Const("data", BYTE_ARR), z3.Int("n")
    # ---- __init__ establishes the invariant
    if "init" in want:
        def init_init(e):
            st = State(); ref = st.new_obj(H + "HdlcFrame", {}); yield st, [ref]
        def post_init(st, args, res, old, e):
            yield "no octets", st.getf(args[0], "_frame_data").n == 0
            yield from frame_inv_goals(st, args[0])
        o = eng.verify(H + "HdlcFrame.__init__", Contract(init_init, post_init))
        for x in o: x.meta.update(replay="replay_frame", witness=lambda m: {"octets": []})
        obls += o
    # ---- append preserves it
    if "append" in want:
        def init_append(e):
            st = State(); fr, hd, ffc, a_, n_ = mk_frame(st, eng=e); yield st, [fr, SBV(z3.BitVec("byte", 8))]
        def snap_append(st, args, e):
            d = st.getf(args[0], "_frame_data"); return (d.arr, d.n)
        def post_append(st, args, res, old, e):
            fr, byte = args; d = st.getf(fr, "_frame_data"); arr0, n0 = old
            yield "octets' == octets + [byte]", z3.And(d.n == n0 + 1, d.arr == z3.Store(arr0, n0, byte.e))
            yield from frame_inv_goals(st, fr)
        o = eng.verify(H + "HdlcFrame.append", Contract(init_append, post_append, snapshot=snap_append))
        for x in o: x.meta.update(replay="replay_frame_append", witness=octets_witness(arr, nn, [("byte", z3.BitVec("byte", 8))]))
        obls += o
    def init_prop(e):
        st = State(); fr, hd, ffc, a_, n_ = mk_frame(st, eng=e); yield st, [fr]
    def init_hprop(e):
        st = State(); fr, hd, ffc, a_, n_ = mk_frame(st, eng=e); yield st, [hd]
    cp = S.CP(arr, nn); k = z3.Int("k__q")
    def opt_eq(res, cond_some, val):
        """result is None iff not cond_some, else equals val (z3 Int)"""
        if res is None: return z3.Not(cond_some)
        if isinstance(res, SOpt): return z3.And(res.isnone == z3.Not(cond_some), z3.Implies(cond_some, res.val == (z3.BV2Int(val) if z3.is_bv(val) else val)))
        if z3.is_bv(val):
            r, ok = fit(res, val.size()); return z3.And(cond_some, ok, r == val)
        return z3.And(cond_some, to_int(res) == val)
    def bytes_eq(res, cond_some, off, ln):
        if res is None: return z3.Not(cond_some)
        if not isinstance(res, SBytes): return z3.BoolVal(False)
        return z3.And(cond_some, res.n == ln, z3.ForAll([k], z3.Implies(z3.And(0 <= k, k < res.n), res.at(k) == arr[off + k])))
    b = lambda q: z3.BV2Int(arr[q])
    if "valid" in want:
        specs = [
            ("HdlcFrame.is_good_ffc", init_prop, lambda res: [("result == (fcs_fold(octets) == 0xF0B8)", to_bool(res) == (S.FOLD(arr, 0, nn) == 0xF0B8))]),
            ("HdlcFrame.is_expected_length", init_prop, lambda res: [("result == (n >= 2 and length field == n)", to_bool(res) == z3.And(nn >= 2, z3.BV2Int(S.len_field(arr)) == nn))]),
            ("HdlcFrame.is_valid", init_prop, lambda res: [("is_valid == valid_frame(octets)  [statement of C01]", to_bool(res) == S.valid_frame(arr, nn))]),
        ]
    else: specs = []
    if "accessors" in want:
        e1 = S.FO(arr, 2, nn); e2 = S.FO(arr, e1 + 1, nn)
        specs += [
            ("HdlcFrame.message_type", init_prop, lambda res: [("a message type is returned", z3.BoolVal(res is not None))]),
            ("HdlcFrame.__len__", init_prop, lambda res: [("result == number of octets", to_int(res) == nn)]),
            ("HdlcFrame.as_bytes", init_prop, lambda res: [("result == octets", bytes_eq(res, z3.BoolVal(True), 0, nn))]),
            ("HdlcFrame.payload", init_prop, lambda res: [("result == octets[cp+3 : n-2] when n > cp+3, else None", bytes_eq(res, z3.And(cp != -1, nn > cp + 3), cp + 3, z3.If(nn - 2 > cp + 3, nn - 2 - (cp + 3), 0)))]),
            ("HdlcFrame.frame_check_sequence", init_prop, lambda res: [("result == octets[n-2]<<8 | octets[n-1] when the header is complete, else None", opt_eq(res, z3.And(cp != -1, nn >= cp + 3), z3.Concat(arr[nn - 2], arr[nn - 1])))]),
            ("HdlcFrame.header", init_prop, lambda res: [("result is the frame's header", z3.BoolVal(isinstance(res, Ref)))]),
            ("HdlcFrameHeader.frame_format", init_hprop, lambda res: [("result == octets[0]<<8 | octets[1]", opt_eq(res, nn >= 2, z3.Concat(arr[0], arr[1])))]),
            ("HdlcFrameHeader.frame_length", init_hprop, lambda res: [("result == 11-bit length sub-field", opt_eq(res, nn >= 2, S.len_field(arr)))]),
            ("HdlcFrameHeader.frame_format_type", init_hprop, lambda res: [("result == top four bits of octet 0", opt_eq(res, nn >= 2, z3.Extract(7, 4, arr[0])))]),
            ("HdlcFrameHeader.segmentation", init_hprop, lambda res: [("result == bit 11 of the format field", (lambda r: z3.Not(nn >= 2) if r is None else z3.And(nn >= 2, to_bool(r) == (z3.Extract(3, 3, arr[0]) == 1)))(res))]),
            ("HdlcFrameHeader.destination_address", init_hprop, lambda res: [("result == octets[2 : first_odd(2)+1]", bytes_eq(res, z3.And(nn > 2, e1 < nn), 2, e1 - 1))]),
            ("HdlcFrameHeader.source_address", init_hprop, lambda res: [("result == octets[first_odd(2)+1 : second first_odd +1]", bytes_eq(res, z3.And(nn > 2, e1 < nn, e1 + 1 < nn, e2 < nn), e1 + 1, e2 - e1))]),
            ("HdlcFrameHeader.control", init_hprop, lambda res: [("result == octets[cp]", opt_eq(res, z3.And(cp != -1, nn > cp), arr[cp]))]),
            ("HdlcFrameHeader.header_check_sequence", init_hprop, lambda res: [("result == octets[cp+1]<<8 | octets[cp+2]", opt_eq(res, z3.And(cp != -1, nn > cp + 2), z3.Concat(arr[cp + 1], arr[cp + 2])))]),
            ("HdlcFrameHeader.information_position", init_hprop, lambda res: [("result == cp + 3", opt_eq(res, cp != -1, cp + 3))]),
            ("HdlcFrameHeader._get_control_field_position", init_hprop, lambda res: [("result == ctrl_pos(octets)", opt_eq(res, z3.And(nn > 2, e1 < nn, e1 + 1 < nn, e2 < nn), e2 + 1))]),
        ]
    for name, init, post in specs:
        c = Contract(init, (lambda post: lambda st, args, res, old, e: post(res))(post))
        o = eng.verify(H + name, c)
        for x in o: x.meta.update(replay="replay_frame", witness=octets_witness(arr, nn))
        obls += o
    # must-fail canaries (vacuity / soundness guard)
    obls.append(Obligation("canary.payload_off_by_one", [nn >= 0, cp != -1, nn > cp + 4], arr[cp + 3] == arr[cp + 4], kind="canary", expect_refuted=True))
    obls.append(Obligation("canary.valid_frame_without_length_check", [nn >= 2, S.FOLD(arr, 0, nn) == 0xF0B8], S.valid_frame(arr, nn), kind="canary", expect_refuted=True))
    return obls

# ----------------------------------------------------------------------------- reader
CONFIGS = [(False, False), (False, True), (True, False), (True, True)]
R = H + "HdlcFrameReader."
G = z3.Const("G", BYTE_ARR)     # ghost: the whole input stream; the chunks given to read() are its consecutive segments
def cfg_label(cfg, in_frame): return f"stuff={int(cfg[0])},abort={int(cfg[1])},{'frame' if in_frame else 'hunt'}"

def mk_reader(st, cfg, in_frame, tag="", eng=None):
    bn = z3.Int("bn" + tag); bpos = z3.Int("bpos" + tag)
    rarr = z3.Const("raw" + tag, BYTE_ARR); rn = z3.Int("rn" + tag); esc = z3.Bool("esc" + tag)
    gt = z3.Int("g_total" + tag); gle = z3.Int("g_last_end" + tag)
    if eng is not None:
        for v in (bn, rn, gt):
            if not any(str(v) == str(x) for x in eng.len_vars): eng.len_vars.append(v)
    # ghost representation of "the unconsumed input is the tail of the stream received so far": the buffer is a view on G ending at g_total
    buf = st.new_obj(H + "_ReaderBuffer", {"_buffer": SBytes(G, bn, gt - bn), "_buffer_pos": SInt(bpos)})
    rd = st.new_obj(R[:-1], {"_use_octet_stuffing": cfg[0], "_use_abort_sequence": cfg[1], "_unescape_next": SBool(esc),
                             "_buffer": buf, "_raw_frame_data": SBytes(rarr, rn), "_frame": None, "$g_total": SInt(gt), "$g_last_end": SInt(gle)})
    if in_frame:
        fr, hd, ffc, arr, nn = mk_frame(st, tag=tag, inv=True, eng=eng)
        st.setf(rd, "_frame", fr)
    return rd, buf

def reader_view(st, rd):
    buf = st.getf(rd, "_buffer"); b = st.getf(buf, "_buffer"); bp = to_int(st.getf(buf, "_buffer_pos"))
    raw = st.getf(rd, "_raw_frame_data"); esc = to_bool(st.getf(rd, "_unescape_next")); fr = st.getf(rd, "_frame")
    gt = to_int(st.getf(rd, "$g_total")); gle = to_int(st.getf(rd, "$g_last_end"))
    pl = b.n - bp
    return dict(buf=buf, b=b, bp=bp, raw=raw, esc=esc, fr=fr, gt=gt, gle=gle, pl=pl, gp=gt - pl)

def reader_inv(st, rd, completed=False, allow_overlong=False):
    """list of (name, z3 Bool).  completed=True: the state right after _read_next returned True (closing flag consumed, frame still current)"""
    v = reader_view(st, rd); k = z3.Int("k__r"); cfg0 = st.getf(rd, "_use_octet_stuffing")
    b, bp, raw, esc, fr, gt, gle, pl, gp = v["b"], v["bp"], v["raw"], v["esc"], v["fr"], v["gt"], v["gle"], v["pl"], v["gp"]
    goals = [("buffer position in range", z3.And(bp >= 0, bp <= b.n, b.n >= 0)),
             ("C19: len(raw frame data) <= 2*2048+1", z3.And(raw.n >= 0, raw.n <= 4097)),
             ("ghost: unconsumed input is the tail of the stream received so far", z3.And(gt >= pl, z3.Or(pl == 0, z3.And(z3.BoolVal(b.arr.eq(G)), b.off + b.n == gt)))),
             ("ghost: last returned frame ended inside the consumed stream", z3.And(gle >= -1, gle < gp))]
    if fr is None:
        goals.append(("hunt mode => no pending escape", z3.Not(esc)))
        return goals
    d, ffc, hd = frame_parts(st, fr)
    goals.append(("frame_inv(current frame)", frame_inv_z3(st, fr)))
    if not allow_overlong: goals.append(("len(octets) <= 2047", d.n <= 2047))
    goals.append(("raw view starts at 0", z3.And(raw.off == 0, raw.n >= 0)))
    if not cfg0:
        goals.append(("octets == raw (no stuffing)", z3.And(d.n == raw.n, z3.ForAll([k], z3.Implies(z3.And(0 <= k, k < d.n), d.at(k) == raw.at(k))))))
        goals.append(("no pending escape without stuffing", z3.Not(esc)))
    else:
        goals.append(("(len(octets), pending escape) == unstuff(raw)", z3.And(d.n == S.CNT(raw.arr, raw.n), esc == S.ESC(raw.arr, raw.n))))
        goals.append(("octets == unstuff(raw) content", z3.ForAll([k], z3.Implies(z3.And(0 <= k, k < d.n), d.at(k) == S.U(raw.arr, raw.n, k)))))
    e = gp - 1 if completed else gp            # index just after the raw octets of the current frame
    s0 = e - raw.n                            # index of its first raw octet
    goals.append(("ghost: raw octets are contiguous in the stream, right after a flag", z3.And(s0 >= 1, G[s0 - 1] == 0x7E,
                  z3.ForAll([k], z3.Implies(z3.And(0 <= k, k < raw.n), raw.at(k) == G[s0 + k])))))
    goals.append(("ghost: current frame starts after the end of the last returned frame", s0 - 1 >= gle))
    if completed: goals.append(("ghost: closing flag", G[e] == 0x7E))
    return goals

def assume_inv(st, rd, **kw):
    for _, g in reader_inv(st, rd, **kw): st.pc.append(g)

def reader_witness(eng, cfg, in_frame, tag="", extra=()):
    def w(m):
        ev = lambda t: m.eval(t, model_completion=True)
        def arr_bytes(arr, n, off=0, cap=6000): return [ev(arr[off + q]).as_long() for q in range(max(0, min(n, cap)))]
        bn = ev(z3.Int("bn" + tag)).as_long(); rn = ev(z3.Int("rn" + tag)).as_long(); gt = ev(z3.Int("g_total" + tag)).as_long()
        d = {"cfg": list(cfg), "in_frame": in_frame, "buffer": arr_bytes(G, bn, gt - bn), "pos": ev(z3.Int("bpos" + tag)).as_long(),
             "raw": arr_bytes(z3.Const("raw" + tag, BYTE_ARR), rn), "esc": z3.is_true(ev(z3.Bool("esc" + tag))),
             "g_total": gt, "g_last_end": ev(z3.Int("g_last_end" + tag)).as_long(), "G": arr_bytes(G, gt + 4)}
        if in_frame:
            nn = ev(z3.Int("n" + tag)).as_long(); d["octets"] = arr_bytes(z3.Const("data" + tag, BYTE_ARR), nn)
        for name, term in extra:
            x = ev(term); d[name] = x.as_long() if hasattr(x, "as_long") else str(x)
        return d
    return w

def install_reader_contracts(eng):
    """call-site forms used inside the reader: HdlcFrame.__init__ / append through their contracts (proved in frame_obligations)"""
    def apply_append(e, st, args, ctx, node):
        fr, byte = args; d, ffc, hd = frame_parts(st, fr)
        ctx.oblige(st, "pre:HdlcFrame.append(frame_inv)", frame_inv_z3(st, fr), node)
        be, okb = fit(byte, 8)
        ctx.oblige(st, "pre:HdlcFrame.append(0<=byte<=255)", okb, node)
        arr2 = z3.Store(d.arr, d.n, be); n2 = z3.simplify(d.n + 1)
        crc2 = fresh("crc", S.BV16); st.pc.append(crc2 == S.FOLD(arr2, 0, n2))
        st.setf(fr, "_frame_data", SBytes(arr2, n2)); st.setf(ffc, "_crc_value", SBV(crc2))
        st.setf(hd, "_control_position", SOpt(S.CP(arr2, n2) == -1, S.CP(arr2, n2)))
        st.setf(hd, "_is_header_good", SOpt(fresh("hgn", z3.BoolSort()), fresh("hg", I)))
        return [(st, None)]
    eng.contracts[H + "HdlcFrame.append"] = Contract(apply=apply_append)
    def apply_frame_init(e, st, args, ctx, node):
        fr = args[0]; readers = [Ref(oid) for oid, (c, f) in st.heap.items() if c == R[:-1]]
        arr = NEWARR(reader_view(st, readers[0])["gp"]) if len(readers) == 1 else fresh("fdata", BYTE_ARR)
        ffc = st.new_obj(FQ[:-1], {"_crc_value": SBV(z3.BitVecVal(0xFFFF, 16))})
        hd = st.new_obj(H + "HdlcFrameHeader", {"_frame": fr, "_control_position": None, "_is_header_good": None})
        st.heap[fr.oid][1].update({"_frame_data": SBytes(arr, 0), "_ffc": ffc, "_escape_next": False, "_header": hd})
        return [(st, None)]
    eng.contracts[H + "HdlcFrame.__init__"] = Contract(apply=apply_frame_init)
    def apply_extend(e, st, args, ctx, node):
        """_ReaderBuffer.extend(chunk) where (ghost) chunk == G[g_total_before : g_total_before + len(chunk)]: the view on G grows"""
        buf, ch = args; b = st.getf(buf, "_buffer")
        if not (isinstance(ch, SBytes) and st.ghost.get("chunk_is_stream_segment") is not None): raise Unsupported("extend outside read()")
        gt_before, gt_after = st.ghost["chunk_is_stream_segment"]
        ctx.oblige(st, "pre:extend(the whole chunk is buffered: no octet of the stream is dropped or reordered)", z3.And(z3.BoolVal(ch.arr.eq(G)), ch.off == gt_before, ch.off + ch.n == gt_after), node)
        if z3.is_int_value(z3.simplify(b.n)) and z3.simplify(b.n).as_long() == 0:
            st.setf(buf, "_buffer", SBytes(G, ch.n, gt_before))
        else:
            ctx.oblige(st, "pre:extend(buffer view ends at the stream position)", z3.And(z3.BoolVal(b.arr.eq(G)), b.off + b.n == gt_before), node)
            st.setf(buf, "_buffer", SBytes(G, z3.simplify(b.n + ch.n), b.off))
        return [(st, None)]
    eng.contracts[H + "_ReaderBuffer.extend"] = Contract(apply=apply_extend)

def reader_obligations(eng, configs=CONFIGS, methods=("_read_next", "read"), ghost=True):
    """reader invariant preserved by _read_next (private helpers inlined) and by read() (which uses _read_next through its contract)"""
    obls = []
    l1, a1 = S.unstuff_lemmas(Obligation); l2, a2 = S.unstuff_content_lemmas(Obligation)
    obls += l1 + l2
    eng.prelude_axioms += [a1["unstuff_frame"], a1["cnt_bounds"], a2["unstuffed_at_frame"], a2["raw_length_bound"]]
    eng.instantiators = list(getattr(eng, "instantiators", [])) + [S.cnt_instantiator]
    install_reader_contracts(eng)
    fn_rn, mod, cls = eng.funcs[R + "_read_next"]
    # ---------------- _read_next: requires reader_inv and one unconsumed octet
    def post_read_next(st1, rd, val, old):
        v = reader_view(st1, rd); c = z3.simplify(to_bool(val))
        res = []
        if z3.is_true(c):
            res.append(("returns True only with a current frame", z3.BoolVal(v["fr"] is not None)))
            if v["fr"] is not None: res += reader_inv(st1, rd, completed=True)
        elif z3.is_false(c): res += reader_inv(st1, rd)
        else: raise Unsupported("_read_next result is not a definite bool on this path")
        res.append(("consumes at least one octet (termination measure of read's loop)", z3.And(v["pl"] <= old["pl"] - 1, v["pl"] >= 0)))
        res.append(("ghost stream length unchanged", z3.And(v["gt"] == old["gt"], v["gle"] == old["gle"])))
        if v["fr"] is not None: res.append(("exactly one octet is consumed while the reader stays in a frame", v["pl"] == old["pl"] - 1))
        return res
    def transition_goals(cfg, in_frame, old, st1, rd, val):
        """exact transition of the reader on the next input octet c, case by case (this is what makes the step a function of
        (frame octets, raw octets, pending escape, mode) and c only: C06; and what the clean-stream / resync lemmas of C02 / C16 use)"""
        stuffing, abort = cfg; c = old["c"]; flag = c == 0x7E
        v = reader_view(st1, rd); fr1 = v["fr"]; res = z3.simplify(to_bool(val)); is_true = z3.is_true(res)
        hunt1 = z3.BoolVal(fr1 is None)
        def frame_is(n_expr, rn_expr):
            if fr1 is None: return z3.BoolVal(False)
            d1 = st1.getf(fr1, "_frame_data"); return z3.And(d1.n == n_expr, v["raw"].n == rn_expr)
        goals = []
        if fr1 is None:
            # T14: where the read position is once the reader hunts: a discarded frame skips to the next flag (or the end of the buffered input), a non-flag octet in hunt mode is just consumed
            goals.append(("T14 hunt mode afterwards: a discard skips to the next flag or the end of the input; a non-flag octet while hunting is consumed",
                          (v["gp"] == S.FI(G, old["gp"] + 1, old["gt"])) if in_frame else z3.Implies(z3.Not(flag), v["gp"] == old["gp"] + 1)))
        if not in_frame:
            goals.append(("T1 hunt mode, not a flag: stays in hunt mode, nothing completes", z3.Implies(z3.Not(flag), z3.And(hunt1, z3.BoolVal(not is_true)))))
            goals.append(("T2 hunt mode, flag: a new empty frame starts", z3.Implies(flag, z3.And(frame_is(0, 0), z3.BoolVal(not is_true)))))
            if fr1 is not None:
                goals.append(("T13 the new frame is represented by the array named after the read position", z3.And(st1.getf(fr1, "_frame_data").arr == NEWARR(v["gp"]), z3.Not(v["esc"]))))
            return goals
        n, rn, cp, arr, raw = old["n"], old["rn"], old["cp"], old["arr"], old["raw"]
        hcs = z3.And(cp != -1, n > cp + 2)
        aborted = z3.And(z3.BoolVal(abort), rn > 1, raw[rn - 1] == 0x7D)
        exp_len = z3.And(n >= 2, z3.BV2Int(S.len_field(arr)) == n)
        goals.append(("T3 flag on an empty frame: the frame restarts (inter-frame fill)", z3.Implies(z3.And(flag, n == 0), z3.And(frame_is(0, 0), z3.BoolVal(not is_true)))))
        goals.append(("T4 flag before the header check sequence is complete: discard, hunt mode", z3.Implies(z3.And(flag, n > 0, z3.Not(hcs)), z3.And(hunt1, z3.BoolVal(not is_true)))))
        goals.append(("T5 abort sequence (escape octet directly before the flag, abort detection on): discard, hunt mode", z3.Implies(z3.And(flag, n > 0, hcs, aborted), z3.And(hunt1, z3.BoolVal(not is_true)))))
        if stuffing:
            goals.append(("T6 octet stuffing: any other flag completes the frame, octets unchanged", z3.Implies(z3.And(flag, n > 0, hcs, z3.Not(aborted)), z3.And(z3.BoolVal(is_true), frame_is(n, rn)))))
        else:
            goals.append(("T7 no stuffing: a flag at the announced length completes the frame, octets unchanged", z3.Implies(z3.And(flag, n > 0, hcs, z3.Not(aborted), exp_len), z3.And(z3.BoolVal(is_true), frame_is(n, rn)))))
            goals.append(("T8 no stuffing: a flag elsewhere is frame data (over-long frames are discarded)", z3.Implies(z3.And(flag, n > 0, hcs, z3.Not(aborted), z3.Not(exp_len)),
                          z3.And(z3.BoolVal(not is_true), z3.If(n + 1 > 2047, hunt1, frame_is(n + 1, rn + 1))))))
        if stuffing:
            n_after = z3.If(z3.And(z3.Not(old["esc"]), c == 0x7D), n, n + 1)
            goals.append(("T9 any other octet is un-stuffed into the frame (over-long frames are discarded)", z3.Implies(z3.Not(flag), z3.And(z3.BoolVal(not is_true), z3.If(n_after > 2047, hunt1, frame_is(n_after, rn + 1))))))
        else:
            goals.append(("T9 any other octet is appended to the frame (over-long frames are discarded)", z3.Implies(z3.Not(flag), z3.And(z3.BoolVal(not is_true), z3.If(n + 1 > 2047, hunt1, frame_is(n + 1, rn + 1))))))
        if fr1 is not None and not is_true:
            # in a frame afterwards and not restarted: the raw octets grew by exactly c (content is then fixed by the invariant octets == unstuff(raw))
            goals.append(("T10 raw octets grow by the consumed octet", z3.Implies(v["raw"].n == rn + 1, v["raw"].at(rn) == c)))
        if fr1 is not None:
            # T11-T13: the same transitions on the representation (frame array, pending escape) - what the clean-stream lemma composes
            d1 = st1.getf(fr1, "_frame_data"); esc1 = v["esc"]
            if is_true: goals.append(("T11 a completed frame keeps its octets", d1.arr == arr))
            else:
                goals.append(("T11 flag on an empty frame: same frame object, nothing pending", z3.Implies(z3.And(flag, n == 0), z3.And(d1.arr == arr, z3.Not(esc1)))))
                if stuffing:
                    octet = z3.If(old["esc"], c ^ 0x20, c); grows = z3.Not(z3.And(z3.Not(old["esc"]), c == 0x7D))
                    goals.append(("T12 octet stuffing: the frame array grows by the un-stuffed octet, an escape octet only sets the pending flag",
                                  z3.Implies(z3.And(z3.Not(flag), d1.n == z3.If(grows, n + 1, n)), z3.And(d1.arr == z3.If(grows, z3.Store(arr, n, octet), arr), esc1 == z3.Not(grows)))))
                else:
                    goals.append(("T12 no stuffing: the frame array grows by the octet", z3.Implies(z3.And(v["raw"].n == rn + 1, d1.n == n + 1), d1.arr == z3.Store(arr, n, c))))
        return goals
    if "_read_next" in methods:
        for cfg in configs:
            for in_frame in (False, True):
                st = State(); rd, buf = mk_reader(st, cfg, in_frame, eng=eng); assume_inv(st, rd)
                v0 = reader_view(st, rd); st.pc.append(v0["pl"] >= 1)
                old = {"pl": v0["pl"], "gt": v0["gt"], "gle": v0["gle"], "gp": v0["gp"], "c": G[v0["gp"]], "esc": v0["esc"], "rn": v0["raw"].n, "raw": v0["raw"].arr}
                if in_frame:
                    d0 = st.getf(v0["fr"], "_frame_data"); old.update(n=d0.n, arr=d0.arr, cp=S.CP(d0.arr, d0.n))
                ctx = Ctx(eng, mod, cls, R + "_read_next", root_name=f"{R}_read_next[{cfg_label(cfg, in_frame)}]"); ctx.verifying = R + "_read_next"
                st.locals = {"self": rd}
                n0 = len(ctx.obls)
                for st1, flow, val in eng.exec_block(fn_rn.body, st, ctx):
                    eng.stats["paths"] += 1
                    if not eng.feasible(st1): continue
                    if flow == RAISE:
                        ctx.oblige(st1, f"raises:nothing escapes ({val.exc})", z3.BoolVal(False), fn_rn); continue
                    for name, g in post_read_next(st1, rd, val, old): ctx.oblige(st1, f"post:{name}", g, fn_rn)
                    for name, g in transition_goals(cfg, in_frame, old, st1, rd, val): ctx.oblige(st1, f"post:{name}", g, fn_rn)
                for o in ctx.obls[n0:]: o.meta.update(replay="replay_read_next", witness=reader_witness(eng, cfg, in_frame))
                obls += ctx.obls
    # call-site form of _read_next for read(): assert pre, havoc the reader, assume post
    def apply_read_next(e, st, args, ctx, node):
        rd = args[0]; v0 = reader_view(st, rd)
        for name, g in reader_inv(st, rd): ctx.oblige(st, f"pre:_read_next({name})", g, node)
        ctx.oblige(st, "pre:_read_next(an octet is available)", v0["pl"] >= 1, node)
        cfg = (st.getf(rd, "_use_octet_stuffing"), st.getf(rd, "_use_abort_sequence"))
        outs = []
        for shape, result in (("hunt", False), ("frame", False), ("frame", True)):
            s2 = st.fork(); tag = f"__c{next(_calls)}"
            rd2, buf2 = mk_reader(s2, cfg, shape == "frame", tag=tag, eng=e)
            # same objects identities are not needed: read() reaches the reader through self only; move the new state onto self
            adopt(s2, rd, rd2)
            assume_inv(s2, rd, completed=result)
            v1 = reader_view(s2, rd)
            s2.pc += [v1["pl"] <= v0["pl"] - 1, v1["pl"] >= 0, v1["gt"] == v0["gt"], v1["gle"] == v0["gle"]]
            # the exact transition clauses T1-T10 (proved for _read_next) relate the new state to the old one
            fr0 = v0["fr"]; old = {"c": G[v0["gp"]], "esc": v0["esc"], "rn": v0["raw"].n, "raw": v0["raw"].arr, "gp": v0["gp"], "gt": v0["gt"]}
            if fr0 is not None:
                d0 = st.getf(fr0, "_frame_data"); old.update(n=d0.n, arr=d0.arr, cp=S.CP(d0.arr, d0.n))
            s2.pc += [g for _, g in transition_goals(cfg, fr0 is not None, old, s2, rd, result)]
            # exactly one octet is consumed unless the reader went to hunt mode (then everything up to the next flag is skipped)
            if shape == "frame": s2.pc.append(v1["pl"] == v0["pl"] - 1)
            # ghost: which frame this call completed, and where (the caller may hand it over before or after it opens the next frame)
            s2.ghost["completed_frame"] = v1["fr"] if result else None; s2.ghost["completed_at"] = v1["gp"] if result else None
            if e.feasible(s2): outs.append((s2, result))
        return outs
    eng.contracts[R + "_read_next"] = Contract(apply=apply_read_next)
    if "read" in methods:
        fn_rd = eng.funcs[R + "read"][0]
        for cfg in configs:
            for in_frame in (False, True):
                st = State(); rd, buf = mk_reader(st, cfg, in_frame, eng=eng); assume_inv(st, rd)
                v0 = reader_view(st, rd); st.pc.append(v0["pl"] == 0)          # read() leaves nothing unconsumed (its own postcondition)
                carr = z3.Const("chunk", BYTE_ARR); cn = z3.Int("cn"); k = z3.Int("k__c")
                if not any(str(cn) == str(x) for x in eng.len_vars): eng.len_vars.append(cn)
                st.pc += [cn >= 0]
                gt0, gle0 = v0["gt"], v0["gle"]
                root = f"{R}read[{cfg_label(cfg, in_frame)}]"
                ctx = Ctx(eng, mod, cls, R + "read", root_name=root); ctx.verifying = R + "read"
                st.locals = {"self": rd, "data_chunk": SBytes(G, cn, gt0)}        # (ghost) the chunk is the next segment of the stream
                appended = []
                def hook(st_, lst, item, ctx_, node_, rd=rd, appended=appended):
                    # every frame put into the result list is the frame the latest _read_next() completed (its completed-state invariant is part of that contract), handed over once -
                    # whether the reader opens its next frame before or after the append does not matter
                    ok = isinstance(item, Ref) and item == st_.ghost.get("completed_frame") and all(item != x for x in st_.ghost.get("appended", ()))
                    ctx_.oblige(st_, "post:returned object is the frame just completed", z3.BoolVal(ok), node_)
                    if ok:
                        st_.setf(rd, "$g_last_end", SInt(st_.ghost["completed_at"] - 1))      # ghost update: index of the closing flag
                        st_.ghost["appended"] = st_.ghost.get("appended", ()) + (item,)
                eng.list_append_hook = hook
                def havoc(st_h, e, rd=rd, cfg=cfg, gt0=gt0, cn=cn):
                    outs = []
                    for shape in (False, True):
                        s2 = st_h.fork(); tag = f"__l{next(_calls)}"
                        rd2, buf2 = mk_reader(s2, cfg, shape, tag=tag, eng=e)
                        adopt(s2, rd, rd2)
                        s2.ghost["appended"] = ()
                        outs.append(s2)
                    return outs
                def inv(st_, e, rd=rd, gt0=gt0, cn=cn, gle0=gle0):
                    v = reader_view(st_, rd)
                    not_aliased = z3.BoolVal(all(st_.getf(rd, "_frame") != x for x in st_.ghost.get("appended", ())))
                    return list(reader_inv(st_, rd)) + [("ghost: stream length", v["gt"] == gt0 + cn), ("ghost: last end monotone", v["gle"] >= gle0),
                                                        ("returned frames are no longer reachable from the reader", not_aliased)]
                def dec(st_, e, rd=rd): return reader_view(st_, rd)["pl"]
                eng.loop_specs[(R + "read", 0)] = (inv, dec, {}, havoc)
                n0 = len(ctx.obls)
                # ghost update at the call of extend: the stream grows by the chunk
                st.setf(rd, "$g_total", SInt(gt0 + cn)); st.ghost["chunk_is_stream_segment"] = (gt0, gt0 + cn)
                for st1, flow, val in eng.exec_block(fn_rd.body, st, ctx):
                    eng.stats["paths"] += 1
                    if not eng.feasible(st1): continue
                    if flow == RAISE:
                        ctx.oblige(st1, f"raises:nothing escapes ({val.exc})", z3.BoolVal(False), fn_rd); continue
                    v = reader_view(st1, rd)
                    for name, g in reader_inv(st1, rd): ctx.oblige(st1, f"post:{name}", g, fn_rd)
                    ctx.oblige(st1, "post:every octet of the chunk has been consumed", v["pl"] == 0, fn_rd)
                    ctx.oblige(st1, "post:C19 buffer retains no consumed octet: len(buffer) <= len(chunk)", v["b"].n <= cn, fn_rd)
                    ctx.oblige(st1, "post:result is the list of completed frames", z3.BoolVal(isinstance(val, (GhostList, list))), fn_rd)
                for o in ctx.obls[n0:]: o.meta.update(replay="replay_read", witness=reader_witness(eng, cfg, in_frame, extra=[("cn", cn)]), chunk=True)
                obls += ctx.obls
        eng.list_append_hook = None
    return obls
import itertools
_calls = itertools.count()

# ----------------------------------------------------------------------------- groups (each built and discharged in its own process)
def group_frame(repo, want=("lemmas", "get_address", "init", "append", "valid", "accessors")):
    eng = mk_engine(repo); obls = frame_obligations(eng, want=want)
    return eng, obls, {}
def group_reader(repo, cfg, methods=("_read_next", "read")):
    eng = mk_engine(repo); frame_obligations(eng, want=())
    obls = reader_obligations(eng, configs=[cfg], methods=methods)
    return eng, obls, {}

def group_segment_lemma(repo, cfg):
    eng = mk_engine(repo); frame_obligations(eng, want=())
    reader_obligations(eng, configs=[cfg], methods=())          # installs the call-site contract of _read_next (proved in the reader groups)
    return eng, segment_lemma_obligations(eng, cfg), {}

READER_FUNCS = [R + x for x in ("read", "_read_next", "_handle_flag_sequence", "_append_to_frame", "_start_frame", "_goto_hunt_mode")] + \
               [H + "_ReaderBuffer." + x for x in ("is_available", "pop", "extend", "trim_buffer_to_current_position", "trim_buffer_to_flag_or_end")]

def hdlc_tasks(repo, frame_want, reader):
    tasks = []
    if frame_want is not None: tasks.append(("frame", group_frame, (repo, frame_want)))
    if reader:
        for cfg in CONFIGS: tasks.append((f"reader[{cfg_label(cfg, True).rsplit(',', 1)[0]}]", group_reader, (repo, cfg)))
    return tasks

def groups_result(tasks, select=None, budget_ms=12000):
    """build the groups in parallel processes; `select(oid)` keeps the obligations a property is about (lemmas and canaries always stay)"""
    from pyvc import solve
    from pyvc.run import PropResult
    res = solve.run_groups(tasks, budget_ms=budget_ms)
    obls = []; undecided = []; seen = set(); stats = {}; derived = set(); cross = []
    for name, status, payload, info, st_, der in res:
        if status != "ok":
            undecided.append((name, payload)); continue
        if isinstance(info, dict) and info.get("cross_check"): cross.append({"group": name, **info["cross_check"]})
        if isinstance(info, dict):
            for k_ in ("construct_rules_used", "cases", "table"):
                if k_ in info: stats[k_] = info[k_]
        derived |= set(der)
        for k, v in st_.items(): stats[k] = stats.get(k, 0) + v
        for o in payload:
            if o.oid in seen: continue
            seen.add(o.oid)
            if select is None or o.expect_refuted or o.kind in ("lemma", "canary") or select(o.oid): obls.append(o)
    class _E: pass
    e = _E(); e.stats = stats
    r = PropResult(obls, e, derived=sorted(derived), undecided=undecided)
    r.pre_discharged = True; r.cross = cross
    return r

def hdlc_result(repo, tier, frame_want, reader, select=None, budget_ms=12000):
    return groups_result(hdlc_tasks(repo, frame_want, reader), select, budget_ms)


# ----------------------------------------------------------------------------- whole-segment lemma (C16 / C02, octet stuffing): ghost loop over the real contract
def segment_lemma_obligations(eng, cfg):
    """From an empty frame right after a flag: a flag-free segment of L <= 2047 raw octets followed by a flag is consumed octet by octet without the frame being
    discarded; at the closing flag the frame holds exactly that segment (raw == G[p:p+L], octets == unstuff(raw) by the invariant) and it completes (returns True)
    unless its header check sequence is not complete yet or - with abort detection - the segment ends with the escape octet."""
    import os
    here = os.path.dirname(os.path.abspath(__file__))
    q = "props.ghost_hdlc.lemma_segment_reaches_closing_flag"
    if "props.ghost_hdlc" not in eng.trees:
        import ast as _ast
        src = open(os.path.join(here, "ghost_hdlc.py")).read(); eng.trees["props.ghost_hdlc"] = _ast.parse(src); eng.sources["props.ghost_hdlc"] = src; eng.paths["props.ghost_hdlc"] = os.path.join(here, "ghost_hdlc.py")
        for node in eng.trees["props.ghost_hdlc"].body:
            if isinstance(node, _ast.FunctionDef): eng.funcs[f"props.ghost_hdlc.{node.name}"] = (node, "props.ghost_hdlc", None)
    fn, mod, cls = eng.funcs[q]
    st = State(); rd, buf = mk_reader(st, cfg, True, eng=eng); assume_inv(st, rd)
    v0 = reader_view(st, rd); fr = v0["fr"]; d0 = st.getf(fr, "_frame_data")
    L = z3.Int("seg_len"); p0 = v0["gp"]; k = z3.Int("k__g")
    if not any(str(L) == str(x) for x in eng.len_vars): eng.len_vars.append(L)
    st.pc += [d0.n == 0, v0["raw"].n == 0, z3.Not(v0["esc"]),                                   # empty frame right after a flag, nothing pending
              L >= 1, L <= 2047, v0["pl"] >= L + 1,
              z3.ForAll([k], z3.Implies(z3.And(p0 <= k, k < p0 + L), G[k] != 0x7E)), G[p0 + L] == 0x7E]    # flag-free segment, then the closing flag
    ctx = Ctx(eng, mod, cls, q, root_name=f"lemma.segment_reaches_closing_flag[{cfg_label(cfg, True)}]"); ctx.verifying = q
    st.locals = {"reader": rd, "seg_len": SInt(L)}
    pl0 = v0["pl"]
    def havoc(st_h, e):
        s2 = st_h.fork(); tag = f"__g{next(_calls)}"
        rd2, buf2 = mk_reader(s2, cfg, True, tag=tag, eng=e)
        adopt(s2, rd, rd2)
        return [s2]
    def inv(st_, e):
        v = reader_view(st_, rd); kk = to_int(st_.locals["k"])
        if v["fr"] is None: return [("the frame is not discarded while the segment is consumed", z3.BoolVal(False))]
        return list(reader_inv(st_, rd)) + [("k octets of the segment are in the frame: raw == G[p : p+k]", z3.And(kk >= 0, kk <= L, v["raw"].n == kk, v["gp"] == p0 + kk)),
                                             ("unconsumed input: the rest of the segment and the closing flag", v["pl"] == pl0 - kk), ("ghost stream unchanged", z3.And(v["gt"] == v0["gt"], v["gle"] == v0["gle"]))]
    eng.loop_specs[(q, 0)] = (inv, (lambda st_, e: L - to_int(st_.locals["k"])), {}, havoc)
    for st1, flow, val in eng.exec_block(fn.body, st, ctx):
        if not eng.feasible(st1): continue
        if flow == RAISE:
            ctx.oblige(st1, f"raises:nothing escapes ({val.exc})", z3.BoolVal(False), fn); continue
        v = reader_view(st1, rd)
        ctx.oblige(st1, "lemma:at the closing flag the reader is still in the frame opened by the flag before the segment, and the frame holds exactly the segment",
                   z3.And(z3.BoolVal(v["fr"] is not None), v["raw"].n == L, v["gp"] == p0 + L, v["pl"] >= 1, G[v["gp"]] == 0x7E), fn)
    return ctx.obls
