"""Shared contracts for han/hdlc.py (+ han/fastframecheck.py): frame invariant, accessor contracts, reader invariant.
Used by C01, C02, C06, C14, C16, C19."""
import ast, z3
from pyvc.engine import *
from pyvc import speclib as S
from props.c03 import next_contract, fit

H = "han.hdlc."; FQ = "han.fastframecheck.FastFrameCheckSequence16."
I = z3.IntSort()

def mk_engine(repo):
    eng = Engine({"han.fastframecheck": f"{repo}/han/fastframecheck.py", "han.common": f"{repo}/han/common.py", "han.hdlc": f"{repo}/han/hdlc.py"})
    eng.reveal_defs.append(S.FCS16_BIT_REVEAL); eng.refute_defs.append(S.FOLD_REFUTE)
    eng.contracts[FQ + "_next"] = next_contract()
    eng.prelude_methods["hex"] = lambda e, st, base, args, ctx, node: [(st, SStr(fresh("hex", z3.StringSort())))]
    eng.prelude_methods["find"] = bytes_find
    return eng

def bytes_find(e, st, base, args, ctx, node):
    """assumed contract of bytearray.find(byte) on an offset view: index of the first occurrence, -1 when absent (stated for 0x7E via flag_idx)"""
    x = args[0]
    if not (isinstance(x, int) and x == 0x7E) or len(args) != 1: raise Unsupported("find: only find(0x7E) is modelled")
    o = base.off; fi = S.FI(base.arr, o, o + base.n)
    r = fresh("find", I)
    st.pc.append(r == z3.If(fi < o + base.n, fi - o, -1))
    return [(st, SInt(r))]

# ----------------------------------------------------------------------------- frames
def mk_frame(st, tag="", inv=True, eng=None):
    """a symbolic HdlcFrame satisfying frame_inv: the cached header fields and the running FCS are functions of the octets"""
    arr = z3.Const("data" + tag, BYTE_ARR); nn = z3.Int("n" + tag)
    if eng is not None and not any(str(v) == str(nn) for v in eng.len_vars): eng.len_vars.append(nn)
    st.pc += [nn >= 0]
    crc = z3.BitVec("crc" + tag, 16)
    ffc = st.new_obj(FQ[:-1], {"_crc_value": SBV(crc)})
    fr = st.new_obj(H + "HdlcFrame", {"_frame_data": SBytes(arr, nn), "_ffc": ffc, "_escape_next": False})
    if inv:
        st.pc.append(crc == S.FOLD(arr, 0, nn))
        cp = SOpt(S.CP(arr, nn) == -1, S.CP(arr, nn))
    else:
        cp = SOpt(z3.Bool("cpnone" + tag), z3.Int("cp" + tag))
    hd = st.new_obj(H + "HdlcFrameHeader", {"_frame": fr, "_control_position": cp, "_is_header_good": SOpt(z3.Bool("hgn" + tag), z3.Int("hg" + tag))})
    st.setf(fr, "_header", hd)
    return fr, hd, ffc, arr, nn

def frame_parts(st, fr):
    return st.getf(fr, "_frame_data"), st.getf(fr, "_ffc"), st.getf(fr, "_header")

def frame_inv_goals(st, fr):
    d, ffc, hd = frame_parts(st, fr)
    crc, ok = fit(st.getf(ffc, "_crc_value"), 16)
    yield "running FCS register == fcs_fold(octets)", z3.And(ok, crc == S.FOLD(d.arr, d.off, d.off + d.n))
    cpv = st.getf(hd, "_control_position")
    cps = S.CP(d.arr, d.n)
    yield "cached control position == ctrl_pos(octets)", z3.And(is_none_z3(cpv) == (cps == -1), z3.Implies(z3.Not(is_none_z3(cpv)), int_nochk(cpv) == cps))
    yield "header back-reference", z3.BoolVal(st.getf(hd, "_frame") == fr)
    yield "octet view starts at 0", d.off == 0
def frame_inv_z3(st, fr):
    return z3.And(*[g for _, g in frame_inv_goals(st, fr)], st.getf(fr, "_frame_data").n >= 0)

def octets_witness(arr, nn, extra=()):
    def w(m):
        k = m.eval(nn, model_completion=True).as_long()
        d = {"octets": [m.eval(arr[q], model_completion=True).as_long() for q in range(max(0, min(k, 4096)))]}
        for name, term in extra: d[name] = m.eval(term, model_completion=True).as_long()
        return d
    return w

def get_address_contract(eng):
    def init_ga(e):
        st = State(); fr, hd, ffc, arr, nn = mk_frame(st, inv=False, eng=e)
        pos = z3.Int("position"); st.pc += [pos >= 0]
        yield st, [hd, SInt(pos)]
    def inv_ga(st, e):
        hd = st.locals["self"]; d = st.getf(st.getf(hd, "_frame"), "_frame_data"); pos = to_int(st.locals["position"]); ii = to_int(st.locals["i"])
        adr = st.locals["adr"]; k = z3.Int("k__i")
        return z3.And(pos <= ii, S.FO(d.arr, pos, d.n) == S.FO(d.arr, ii, d.n), adr.n == ii - pos, adr.off == 0,
                      z3.ForAll([k], z3.Implies(z3.And(0 <= k, k < adr.n), adr.at(k) == d.at(pos + k))))
    def dec_ga(st, e):
        hd = st.locals["self"]; d = st.getf(st.getf(hd, "_frame"), "_frame_data"); return d.n - to_int(st.locals["i"])
    eng.loop_specs[(H + "HdlcFrameHeader._get_address", 0)] = (inv_ga, dec_ga, {})
    def post_ga(st, args, res, old, e):
        hd, pos = args; d = st.getf(st.getf(hd, "_frame"), "_frame_data"); fo = S.FO(d.arr, pos.e, d.n)
        none_c = z3.Or(d.n <= pos.e, fo >= d.n)
        if res is None: yield "None iff no terminated address from position", none_c
        else:
            k = z3.Int("k__p")
            yield "bytes iff there is an octet with the extension bit set", z3.Not(none_c)
            yield "len == first_odd - position + 1", res.n == fo - pos.e + 1
            yield "content == octets[position : first_odd+1]", z3.ForAll([k], z3.Implies(z3.And(0 <= k, k < res.n), res.at(k) == d.at(pos.e + k)))
    def apply_ga(e, st, args, ctx, node):
        href, pos = args; fr = st.getf(href, "_frame"); d = st.getf(fr, "_frame_data")
        pe = to_int(pos); fo = S.FO(d.arr, pe, d.n)
        none_c = z3.Or(d.n <= pe, fo >= d.n)
        s_none = st.fork(); s_none.pc.append(none_c)
        s_some = st.fork(); s_some.pc.append(z3.Not(none_c))
        # the address is a slice of the frame octets: an offset view on the same array (no fresh array, no quantifier)
        return [(s_none, None), (s_some, SBytes(d.arr, z3.simplify(fo - pe + 1), z3.simplify(d.off + pe)))]
    return Contract(init_ga, post_ga, apply_ga)

def frame_obligations(eng, want=("lemmas", "get_address", "init", "append", "valid", "accessors")):
    """C01 items 1-4"""
    obls = []
    lem, ax = S.hdlc_lemmas(Obligation)
    if "lemmas" in want: obls += lem
    eng.prelude_axioms += [ax["fold_frame"], ax["fo_append"], ax["fo_bounds"], ax["fi_bounds"], ax["residue"]]
    c_ga = get_address_contract(eng)
    if "get_address" in want:
        o = eng.verify(H + "HdlcFrameHeader._get_address", c_ga)
        arr, nn = z3.Const("data", BYTE_ARR), z3.Int("n")
        for x in o: x.meta.update(replay="replay_get_address", witness=octets_witness(arr, nn, [("position", z3.Int("position"))]))
        obls += o
    eng.contracts[H + "HdlcFrameHeader._get_address"] = c_ga
    arr, nn = z3.Const("data", BYTE_ARR), z3.Int("n")
    # ---- __init__ establishes the invariant
    if "init" in want:
        def init_init(e):
            st = State(); ref = st.new_obj(H + "HdlcFrame", {}); yield st, [ref]
        def post_init(st, args, res, old, e):
            yield "no octets", st.getf(args[0], "_frame_data").n == 0
            yield from frame_inv_goals(st, args[0])
        o = eng.verify(H + "HdlcFrame.__init__", Contract(init_init, post_init))
        for x in o: x.meta.update(replay="replay_frame", witness=lambda m: {"octets": []})
        obls += o
    # ---- append preserves it
    if "append" in want:
        def init_append(e):
            st = State(); fr, hd, ffc, a_, n_ = mk_frame(st, eng=e); yield st, [fr, SBV(z3.BitVec("byte", 8))]
        def snap_append(st, args, e):
            d = st.getf(args[0], "_frame_data"); return (d.arr, d.n)
        def post_append(st, args, res, old, e):
            fr, byte = args; d = st.getf(fr, "_frame_data"); arr0, n0 = old
            yield "octets' == octets + [byte]", z3.And(d.n == n0 + 1, d.arr == z3.Store(arr0, n0, byte.e))
            yield from frame_inv_goals(st, fr)
        o = eng.verify(H + "HdlcFrame.append", Contract(init_append, post_append, snapshot=snap_append))
        for x in o: x.meta.update(replay="replay_frame_append", witness=octets_witness(arr, nn, [("byte", z3.BitVec("byte", 8))]))
        obls += o
    def init_prop(e):
        st = State(); fr, hd, ffc, a_, n_ = mk_frame(st, eng=e); yield st, [fr]
    def init_hprop(e):
        st = State(); fr, hd, ffc, a_, n_ = mk_frame(st, eng=e); yield st, [hd]
    cp = S.CP(arr, nn); k = z3.Int("k__q")
    def opt_eq(res, cond_some, val):
        """result is None iff not cond_some, else equals val (z3 Int)"""
        if res is None: return z3.Not(cond_some)
        if isinstance(res, SOpt): return z3.And(res.isnone == z3.Not(cond_some), z3.Implies(cond_some, res.val == (z3.BV2Int(val) if z3.is_bv(val) else val)))
        if z3.is_bv(val):
            r, ok = fit(res, val.size()); return z3.And(cond_some, ok, r == val)
        return z3.And(cond_some, to_int(res) == val)
    def bytes_eq(res, cond_some, off, ln):
        if res is None: return z3.Not(cond_some)
        if not isinstance(res, SBytes): return z3.BoolVal(False)
        return z3.And(cond_some, res.n == ln, z3.ForAll([k], z3.Implies(z3.And(0 <= k, k < res.n), res.at(k) == arr[off + k])))
    b = lambda q: z3.BV2Int(arr[q])
    if "valid" in want:
        specs = [
            ("HdlcFrame.is_good_ffc", init_prop, lambda res: [("result == (fcs_fold(octets) == 0xF0B8)", to_bool(res) == (S.FOLD(arr, 0, nn) == 0xF0B8))]),
            ("HdlcFrame.is_expected_length", init_prop, lambda res: [("result == (n >= 2 and length field == n)", to_bool(res) == z3.And(nn >= 2, z3.BV2Int(S.len_field(arr)) == nn))]),
            ("HdlcFrame.is_valid", init_prop, lambda res: [("is_valid == valid_frame(octets)  [statement of C01]", to_bool(res) == S.valid_frame(arr, nn))]),
        ]
    else: specs = []
    if "accessors" in want:
        e1 = S.FO(arr, 2, nn); e2 = S.FO(arr, e1 + 1, nn)
        specs += [
            ("HdlcFrame.__len__", init_prop, lambda res: [("result == number of octets", to_int(res) == nn)]),
            ("HdlcFrame.as_bytes", init_prop, lambda res: [("result == octets", bytes_eq(res, z3.BoolVal(True), 0, nn))]),
            ("HdlcFrame.payload", init_prop, lambda res: [("result == octets[cp+3 : n-2] when n > cp+3, else None", bytes_eq(res, z3.And(cp != -1, nn > cp + 3), cp + 3, z3.If(nn - 2 > cp + 3, nn - 2 - (cp + 3), 0)))]),
            ("HdlcFrame.frame_check_sequence", init_prop, lambda res: [("result == octets[n-2]<<8 | octets[n-1] when the header is complete, else None", opt_eq(res, z3.And(cp != -1, nn >= cp + 3), z3.Concat(arr[nn - 2], arr[nn - 1])))]),
            ("HdlcFrame.header", init_prop, lambda res: [("result is the frame's header", z3.BoolVal(isinstance(res, Ref)))]),
            ("HdlcFrameHeader.frame_format", init_hprop, lambda res: [("result == octets[0]<<8 | octets[1]", opt_eq(res, nn >= 2, z3.Concat(arr[0], arr[1])))]),
            ("HdlcFrameHeader.frame_length", init_hprop, lambda res: [("result == 11-bit length sub-field", opt_eq(res, nn >= 2, S.len_field(arr)))]),
            ("HdlcFrameHeader.frame_format_type", init_hprop, lambda res: [("result == top four bits of octet 0", opt_eq(res, nn >= 2, z3.Extract(7, 4, arr[0])))]),
            ("HdlcFrameHeader.segmentation", init_hprop, lambda res: [("result == bit 11 of the format field", (lambda r: z3.Not(nn >= 2) if r is None else z3.And(nn >= 2, to_bool(r) == (z3.Extract(3, 3, arr[0]) == 1)))(res))]),
            ("HdlcFrameHeader.destination_address", init_hprop, lambda res: [("result == octets[2 : first_odd(2)+1]", bytes_eq(res, z3.And(nn > 2, e1 < nn), 2, e1 - 1))]),
            ("HdlcFrameHeader.source_address", init_hprop, lambda res: [("result == octets[first_odd(2)+1 : second first_odd +1]", bytes_eq(res, z3.And(nn > 2, e1 < nn, e1 + 1 < nn, e2 < nn), e1 + 1, e2 - e1))]),
            ("HdlcFrameHeader.control", init_hprop, lambda res: [("result == octets[cp]", opt_eq(res, z3.And(cp != -1, nn > cp), arr[cp]))]),
            ("HdlcFrameHeader.header_check_sequence", init_hprop, lambda res: [("result == octets[cp+1]<<8 | octets[cp+2]", opt_eq(res, z3.And(cp != -1, nn > cp + 2), z3.Concat(arr[cp + 1], arr[cp + 2])))]),
            ("HdlcFrameHeader.information_position", init_hprop, lambda res: [("result == cp + 3", opt_eq(res, cp != -1, cp + 3))]),
            ("HdlcFrameHeader._get_control_field_position", init_hprop, lambda res: [("result == ctrl_pos(octets)", opt_eq(res, z3.And(nn > 2, e1 < nn, e1 + 1 < nn, e2 < nn), e2 + 1))]),
        ]
    for name, init, post in specs:
        c = Contract(init, (lambda post: lambda st, args, res, old, e: post(res))(post))
        o = eng.verify(H + name, c)
        for x in o: x.meta.update(replay="replay_frame", witness=octets_witness(arr, nn))
        obls += o
    # must-fail canaries (vacuity / soundness guard)
    obls.append(Obligation("canary.payload_off_by_one", [nn >= 0, cp != -1, nn > cp + 4], arr[cp + 3] == arr[cp + 4], kind="canary", expect_refuted=True))
    obls.append(Obligation("canary.valid_frame_without_length_check", [nn >= 2, S.FOLD(arr, 0, nn) == 0xF0B8], S.valid_frame(arr, nn), kind="canary", expect_refuted=True))
    return obls
