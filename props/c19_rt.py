"""C19 run-time side: replays + a bounded deep-size measurement on long streams (labelled bounded)."""
import sys
from han import hdlc, dlde
from props.hdlc_rt import replay_read_next, replay_read
from props.dlde_rt import replay_p1_read

def deep_size(o, seen=None):
    seen = seen if seen is not None else set()
    if id(o) in seen: return 0
    seen.add(id(o)); s = sys.getsizeof(o)
    if isinstance(o, dict): s += sum(deep_size(k, seen) + deep_size(v, seen) for k, v in o.items())
    elif isinstance(o, (list, tuple, set)): s += sum(deep_size(x, seen) for x in o)
    elif hasattr(o, "__dict__"): s += deep_size(o.__dict__, seen)
    return s

def endless_streams(p):
    total = p.get("mib", 1) * (1 << 20); bad = []; ev = 0; pats = 0
    hd = [("all flags", b"\x7e" * 4096), ("flag + junk", b"\x7e\xa0\x07\x01" * 1024), ("never-ending frame", b"\xa0\x00\x01\x55" * 1024), ("escape fill", b"\x7e\xa0\x05" + b"\x7d" * 4093), ("header + flag fill", b"\x7e\xa0\x02\x21\x13" + b"\x7e" * 4091),
          ("frame overrunning its length field, then flags only", b"\x7e" * 4096)]
    once = {"frame overrunning its length field, then flags only": bytes.fromhex("7e" + "a00c0102011027a00201e7de" + "010203")}          # fed once, before the repeated pattern
    p1 = [("'/' without LF", b"/" + b"x" * 4095), ("ident then endless data lines", b"/ABC5\r\n" + b"1-0:1.8.0(1)\r\n" * 292), ("ident lines without end line", b"/ABC5xyz\r\n" * 409), ("random ascii", bytes(range(32, 127)) * 43)]
    for chunk_size in (1024, 65536):
        for cfg in ((False, False), (True, True)):
            for name, pat in hd:
                r = hdlc.HdlcFrameReader(*cfg); fed = 0; pats += 1
                if name in once: r.read(once[name])
                stream = pat
                while fed < total:
                    ch = (stream * (chunk_size // len(stream) + 1))[:chunk_size]; r.read(ch); fed += len(ch); ev += 1
                    if ev % 16 == 0 and deep_size(r) > 40000 + chunk_size: break          # a growing reader also gets slower with every octet: stop at the first excess
                sz = deep_size(r)
                if sz > 40000 + chunk_size: bad.append({"reader": f"HDLC{cfg}", "pattern": name, "chunk": chunk_size, "fed": fed, "deep_size": sz})
        for name, pat in p1:
            r = dlde.ModeDReader(); fed = 0; pats += 1
            while fed < total:
                ch = (pat * (chunk_size // len(pat) + 1))[:chunk_size]; r.read(ch); fed += len(ch); ev += 1
                if ev % 16 == 0 and deep_size(r) > 40000 + chunk_size: break
            sz = deep_size(r)
            if sz > 40000 + chunk_size: bad.append({"reader": "P1", "pattern": name, "chunk": chunk_size, "fed": fed, "deep_size": sz})
    return {"name": "deep size of the reader after long streams", "bound": f"{p.get('mib', 1)} MiB per pattern, {pats} (reader, pattern, chunk size) combinations, limit 40000 + chunk size bytes",
            "evaluations": ev, "distinct_nontrivial": pats, "violations": bad[:3]}
