"""Ghost lemma functions for the HDLC reader (no real counterpart; executed by the VC generator like real code, through the
contracts of the real methods they call)."""


def lemma_segment_reaches_closing_flag(reader, seg_len):
    """ghost: feed the seg_len flag-free octets that follow an opening flag, one _read_next() step each; the conclusion is about
    the state in which the closing flag then arrives (what _read_next does on that flag is clauses T4-T6 of its own contract)."""
    k = 0
    while k < seg_len:
        reader._read_next()
        k += 1
    return k
