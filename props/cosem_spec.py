"""Documented push-list layouts of the Aidon, Kaifa and Kamstrup meters, written from the property statements / the vendors' list
descriptions (not from the decoders): encoders for the octet layout and the dictionary each list must decode to.

The same description serves the deductive side (field values are symbolic: `V.sym`) and the run-time side (concrete values: `V.conc`).
A layout is a list of items; `encode(layout, V)` -> list of octet values, `expected(layout, V)` -> {key: spec value}.

Spec values: ("int", x) exact integer; ("dec", m, e) the number m * 10**e; ("div", x, d) the number x / d; ("text", [octets]);
("datetime", fields)."""

NAMES = {  # OBIS C.D.E -> common field name (IEC 62056-6-1 value groups; the vendors' tables)
    "0.2.129": "list_ver_id", "96.1.0": "meter_id", "0.0.5": "meter_id", "96.1.7": "meter_type", "96.1.1": "meter_type", "1.0.0": "meter_datetime",
    "1.7.0": "active_power_import", "2.7.0": "active_power_export", "3.7.0": "reactive_power_import", "4.7.0": "reactive_power_export",
    "21.7.0": "active_power_import_l1", "41.7.0": "active_power_import_l2", "61.7.0": "active_power_import_l3",
    "22.7.0": "active_power_export_l1", "42.7.0": "active_power_export_l2", "62.7.0": "active_power_export_l3",
    "23.7.0": "reactive_power_import_l1", "43.7.0": "reactive_power_import_l2", "63.7.0": "reactive_power_import_l3",
    "24.7.0": "reactive_power_export_l1", "44.7.0": "reactive_power_export_l2", "64.7.0": "reactive_power_export_l3",
    "31.7.0": "current_l1", "51.7.0": "current_l2", "71.7.0": "current_l3", "32.7.0": "voltage_l1", "52.7.0": "voltage_l2", "72.7.0": "voltage_l3",
    "1.8.0": "active_power_import_total", "2.8.0": "active_power_export_total", "3.8.0": "reactive_power_import_total", "4.8.0": "reactive_power_export_total"}
def key_of(obis):
    cde = ".".join(str(x) for x in obis[2:5]); return NAMES.get(cde, cde)

T_NULL, T_ARRAY, T_STRUCT, T_U32, T_OCTETS, T_VISIBLE, T_INT8, T_I16, T_U16, T_ENUM = 0, 1, 2, 6, 9, 10, 15, 16, 18, 22
WIDTH = {"u32": (T_U32, 4, False), "i16": (T_I16, 2, True), "u16": (T_U16, 2, False)}

def enc_datetime(V, name):
    """12 octets: year(2) month day dow hour minute second hundredths deviation(2, signed minutes, 0x8000 unspecified) clock status"""
    f = V.datetime(name)
    return [0x0C] + f["octets"], ("datetime", f)

def llc_apdu_header(V, dt_form):
    """LLC (e6 e7 00), APDU tag 0f, long-invoke-id-and-priority (4 octets), date-time: 'null' (00), 'tagged' (09 0c ...), 'untagged' (0c ...)"""
    hdr = [0xE6, 0xE7, 0x00, 0x0F] + V.raw("invoke_id", 4)
    if dt_form == "null": return hdr + [0x00], None
    octs, spec = enc_datetime(V, "apdu_datetime")
    return hdr + ([T_OCTETS] if dt_form == "tagged" else []) + octs, spec

# ----------------------------------------------------------------------------- Aidon: array of structures {obis, value[, scaler_unit]}
def aidon_body(items, V):
    out = [T_ARRAY, len(items)]; exp = {"meter_manufacturer": ("text", list(b"Aidon"))}
    for k, it in enumerate(items):
        kind, obis = it[0], it[1]
        head = [T_OCTETS, 6] + list(obis)
        if kind == "str":
            chars = V.text(f"e{k}_text", it[2], ascii_all=True); out += [T_STRUCT, 2] + head + [T_VISIBLE, len(chars)] + chars; exp[key_of(obis)] = ("text", chars)
        elif kind == "dt":
            octs, spec = enc_datetime(V, f"e{k}_dt"); out += [T_STRUCT, 2] + head + [T_OCTETS] + octs; exp[key_of(obis)] = spec
        else:
            tag, nb, signed = WIDTH[it[2]]
            reg_octs, reg = V.integer(f"e{k}_reg", nb, signed); exp_octs, scaler = V.integer(f"e{k}_scaler", 1, True); unit = V.raw(f"e{k}_unit", 1)
            out += [T_STRUCT, 3] + head + [tag] + reg_octs + [T_STRUCT, 2, T_INT8] + exp_octs + [T_ENUM] + unit
            exp[key_of(obis)] = ("dec", reg, scaler)
    return out, exp
AIDON_LISTS = {
    "list1": [("num", (1, 0, 1, 7, 0, 255), "u32")],
    "list2_3phase": [("str", (1, 1, 0, 2, 129, 255), 11), ("str", (0, 0, 96, 1, 0, 255), 16), ("str", (0, 0, 96, 1, 7, 255), 4)] +
                    [("num", (1, 0, c, 7, 0, 255), "u32") for c in (1, 2, 3, 4)] + [("num", (1, 0, c, 7, 0, 255), "i16") for c in (31, 51, 71)] + [("num", (1, 0, c, 7, 0, 255), "u16") for c in (32, 52, 72)],
    "list2_1phase": [("str", (1, 1, 0, 2, 129, 255), 11), ("str", (0, 0, 96, 1, 0, 255), 16), ("str", (0, 0, 96, 1, 7, 255), 4)] +
                    [("num", (1, 0, c, 7, 0, 255), "u32") for c in (1, 2, 3, 4)] + [("num", (1, 0, 31, 7, 0, 255), "i16"), ("num", (1, 0, 32, 7, 0, 255), "u16")],
    "list3_3phase_IT": [("str", (1, 1, 0, 2, 129, 255), 11), ("str", (0, 0, 96, 1, 0, 255), 16), ("str", (0, 0, 96, 1, 7, 255), 4)] +
                    [("num", (1, 0, c, 7, 0, 255), "u32") for c in (1, 2, 3, 4)] + [("num", (1, 0, c, 7, 0, 255), "i16") for c in (31, 71)] + [("num", (1, 0, c, 7, 0, 255), "u16") for c in (32, 52, 72)] +
                    [("dt", (0, 0, 1, 0, 0, 255))] + [("num", (1, 0, c, 8, 0, 255), "u32") for c in (1, 2, 3, 4)],
    "swedish": [("dt", (0, 0, 1, 0, 0, 255))] + [("num", (1, 0, c, 7, 0, 255), "u32") for c in (1, 2, 3, 4)] + [("num", (1, 0, c, 7, 0, 255), "i16") for c in (31, 51, 71)] +
               [("num", (1, 0, c, 7, 0, 255), "u16") for c in (32, 52, 72)] + [("num", (1, 0, c, 7, 0, 255), "u32") for c in (21, 22, 23, 24, 41, 42, 43, 44, 61, 62, 63, 64)] + [("num", (1, 0, c, 8, 0, 255), "u32") for c in (1, 2, 3, 4)],
    "unknown_obis_and_order": [("num", (1, 0, 99, 7, 0, 255), "u16"), ("num", (1, 0, 1, 8, 0, 255), "u32"), ("str", (0, 0, 96, 1, 7, 255), 1), ("num", (1, 0, 31, 7, 0, 255), "i16")],
}

# ----------------------------------------------------------------------------- Kaifa: structure of bare values (position decides the field), or OBIS-tagged pairs
KAIFA_POS = {1: ["active_power_import"],
             9: ["list_ver_id", "meter_id", "meter_type", "active_power_import", "active_power_export", "reactive_power_import", "reactive_power_export", "current_l1", "voltage_l1"],
             13: ["list_ver_id", "meter_id", "meter_type", "active_power_import", "active_power_export", "reactive_power_import", "reactive_power_export", "current_l1", "current_l2", "current_l3", "voltage_l1", "voltage_l2", "voltage_l3"]}
KAIFA_POS[14] = KAIFA_POS[9] + ["meter_datetime", "active_power_import_total", "active_power_export_total", "reactive_power_import_total", "reactive_power_export_total"]
KAIFA_POS[18] = KAIFA_POS[13] + ["meter_datetime", "active_power_import_total", "active_power_export_total", "reactive_power_import_total", "reactive_power_export_total"]
def kaifa_scale(name, reg):
    if name.startswith("current_"): return ("div", reg, 1000)
    if name.startswith("voltage_"): return ("div", reg, 10)
    return ("int", reg)
def kaifa_value_body(n, V, text_len=7):
    names = KAIFA_POS[n]; out = [T_STRUCT, n]; exp = {"meter_manufacturer": ("text", list(b"Kaifa"))}
    for k, nm in enumerate(names):
        if nm in ("list_ver_id", "meter_id", "meter_type"):
            chars = V.text(f"p{k}_text", text_len); out += [T_OCTETS, len(chars)] + chars; exp[nm] = ("text", chars)
        elif nm == "meter_datetime":
            octs, spec = enc_datetime(V, f"p{k}_dt"); out += [T_OCTETS] + octs; exp[nm] = spec
        else:
            octs, reg = V.integer(f"p{k}_reg", 4, False); out += [T_U32] + octs; exp[nm] = kaifa_scale(nm, reg)
    return out, exp
KAIFA_SE = [("str", (1, 0, 0, 2, 129, 255), 7), ("str", (0, 0, 96, 1, 0, 255), 16), ("str", (0, 0, 96, 1, 7, 255), 7)] + [("num", (1, 0, c, 7, 0, 255)) for c in (1, 2, 3, 4, 31, 51, 71, 32, 52, 72)] + \
           [("dt", (0, 0, 1, 0, 0, 255))] + [("num", (1, 0, c, 8, 0, 255)) for c in (1, 2, 3, 4)]
def kaifa_obis_body(items, V):
    out = [T_STRUCT, 2 * len(items)]; exp = {"meter_manufacturer": ("text", list(b"Kaifa"))}
    for k, it in enumerate(items):
        kind, obis = it[0], it[1]; out += [T_OCTETS, 6] + list(obis); nm = key_of(obis)
        if kind == "str":
            chars = V.text(f"o{k}_text", it[2]); out += [T_OCTETS, len(chars)] + chars; exp[nm] = ("text", chars)
        elif kind == "dt":
            octs, spec = enc_datetime(V, f"o{k}_dt"); out += [T_OCTETS] + octs; exp[nm] = spec
        else:
            octs, reg = V.integer(f"o{k}_reg", 4, False); out += [T_U32] + octs; exp[nm] = kaifa_scale(nm, reg)
    return out, exp

# ----------------------------------------------------------------------------- Kamstrup: structure: list version string, then OBIS-tagged elements, optional null-data padding
def kamstrup_items(phases, hourly, swedish=False):
    p3 = phases == 3
    its = [("str", (1, 1, 0, 0, 5, 255), 16), ("str", (1, 1, 96, 1, 1, 255), 18)] + [("num", (1, 1, c, 7, 0, 255), "u32") for c in ((1, 2, 3, 4) if p3 else (1,))] + \
          [("num", (1, 1, c, 7, 0, 255), "u32") for c in ((31, 51, 71) if p3 else (31,))] + [("num", (1, 1, c, 7, 0, 255), "u16") for c in ((32, 52, 72) if p3 else (32,))]
    if hourly: its += [("dt", (0, 1, 1, 0, 0, 255))] + [("num", (1, 1, c, 8, 0, 255), "u32") for c in ((1, 2, 3, 4) if p3 else (1,))]
    return its
def kamstrup_body(items, V, meter_type=None, padding=()):
    """meter_type: concrete ASCII text for the meter type number element (1.1.96.1.1.255), else symbolic text; padding: indexes after which null-data octets follow"""
    n_fields = 1 + 2 * len(items)
    out = [T_STRUCT, n_fields]; exp = {"meter_manufacturer": ("text", list(b"Kamstrup"))}
    ver = V.text("ver_text", 14, ascii_all=True); out += [T_VISIBLE, len(ver)] + ver; exp["list_ver_id"] = ("text", ver)
    if 0 in padding: out += [T_NULL] * 2
    ct = meter_type is not None and bytes(meter_type).startswith(b"685")
    for k, it in enumerate(items):
        kind, obis = it[0], it[1]; out += [T_OCTETS, 6] + list(obis); nm = key_of(obis)
        if kind == "str":
            if meter_type is not None and tuple(obis) == (1, 1, 96, 1, 1, 255): chars = list(meter_type)
            else:
                chars = V.text(f"k{k}_text", it[2], ascii_all=True)
                if tuple(obis) == (1, 1, 96, 1, 1, 255): V.not_prefix(chars, b"685")      # symbolic meter type numbers stand for direct-connected meters; CT types have their own cases
            out += [T_VISIBLE, len(chars)] + chars; exp[nm] = ("text", chars)
        elif kind == "dt":
            octs, spec = enc_datetime(V, f"k{k}_dt"); out += [T_OCTETS] + octs; exp[nm] = spec
        else:
            tag, nb, signed = WIDTH[it[2]]; octs, reg = V.integer(f"k{k}_reg", nb, signed); out += [tag] + octs
            if nm.startswith("current_"): exp[nm] = ("div", reg, 1000 if ct else 100)
            elif nm.endswith("_total"): exp[nm] = ("int10", reg)
            else: exp[nm] = ("int", reg)
        if (k + 1) in padding: out += [T_NULL] * (1 + (k % 3))
    return out, exp

# ----------------------------------------------------------------------------- the cases each property enumerates: label -> builder(V) -> (module, function, octets, expected)
def frame_case(module, body_fn, dt_form, clock_from_apdu):
    def build(V):
        body, exp = body_fn(V); hdr, dts = llc_apdu_header(V, dt_form)
        exp = dict(exp)
        if clock_from_apdu == "always" and dts is not None: exp["meter_datetime"] = dts
        elif clock_from_apdu == "unless_in_list" and dts is not None and "meter_datetime" not in exp: exp["meter_datetime"] = dts
        return module, "decode_frame_content", hdr + body, exp
    return build
def body_case(module, body_fn):
    def build(V):
        body, exp = body_fn(V); return module, "decode_notification_body", body, exp
    return build

def aidon_cases():
    c = {}
    for name, items in AIDON_LISTS.items():
        c[f"aidon body {name}"] = body_case("han.aidon", lambda V, items=items: aidon_body(items, V))
        c[f"aidon frame {name} (no APDU clock)"] = frame_case("han.aidon", lambda V, items=items: aidon_body(items, V), "null", None)
    c["aidon frame list1 (tagged APDU clock, not used)"] = frame_case("han.aidon", lambda V: aidon_body(AIDON_LISTS["list1"], V), "tagged", None)
    return c
def kaifa_cases():
    c = {}
    for n in (1, 9, 13, 14, 18):
        c[f"kaifa body {n} values"] = body_case("han.kaifa", lambda V, n=n: kaifa_value_body(n, V))
        c[f"kaifa frame {n} values (tagged APDU clock)"] = frame_case("han.kaifa", lambda V, n=n: kaifa_value_body(n, V), "tagged", "unless_in_list")
    c["kaifa frame 9 values (untagged APDU clock)"] = frame_case("han.kaifa", lambda V: kaifa_value_body(9, V), "untagged", "unless_in_list")
    # identification strings of exactly 12 octets: the same length octet as a date-time, which the octet-string grammar tries first
    c["kaifa body 13 values, 12-character texts"] = body_case("han.kaifa", lambda V: kaifa_value_body(13, V, text_len=12))
    c["kaifa frame 18 values, 12-character texts (tagged APDU clock)"] = frame_case("han.kaifa", lambda V: kaifa_value_body(18, V, text_len=12), "tagged", "unless_in_list")
    se12 = [("str", o, 12) for _, o, _ in KAIFA_SE[:3]] + KAIFA_SE[3:]
    c["kaifa body swedish obis list, 12-character texts"] = body_case("han.kaifa", lambda V: kaifa_obis_body(se12, V))
    c["kaifa body swedish obis list"] = body_case("han.kaifa", lambda V: kaifa_obis_body(KAIFA_SE, V))
    c["kaifa frame swedish obis list (no APDU clock)"] = frame_case("han.kaifa", lambda V: kaifa_obis_body(KAIFA_SE, V), "null", None)
    return c
def kamstrup_cases():
    c = {}
    for phases in (1, 3):
        for hourly in (False, True):
            items = kamstrup_items(phases, hourly); nm = f"{'hourly' if hourly else '10s'} list {phases}-phase"
            c[f"kamstrup body {nm}"] = body_case("han.kamstrup", lambda V, items=items: kamstrup_body(items, V))
            c[f"kamstrup frame {nm} (untagged APDU clock)"] = frame_case("han.kamstrup", lambda V, items=items: kamstrup_body(items, V), "untagged", "always")
    it3 = kamstrup_items(3, True)
    c["kamstrup body hourly 3-phase with null padding"] = body_case("han.kamstrup", lambda V: kamstrup_body(it3, V, padding=(0, 2, 5, len(it3))))
    it1h = kamstrup_items(1, True)
    c["kamstrup body hourly 1-phase with null padding after every element"] = body_case("han.kamstrup", lambda V: kamstrup_body(it1h, V, padding=tuple(range(0, len(it1h) + 1))))
    c["kamstrup body 10s 3-phase CT meter (type 685...)"] = body_case("han.kamstrup", lambda V: kamstrup_body(kamstrup_items(3, False), V, meter_type=b"685700000000000000"))
    c["kamstrup frame 10s 1-phase CT meter (tagged APDU clock)"] = frame_case("han.kamstrup", lambda V: kamstrup_body(kamstrup_items(1, False), V, meter_type=b"685123456789012345"), "tagged", "always")
    c["kamstrup body hourly 3-phase CT meter (type 685...)"] = body_case("han.kamstrup", lambda V: kamstrup_body(kamstrup_items(3, True), V, meter_type=b"685700000000000000"))
    c["kamstrup frame hourly 1-phase CT meter (untagged APDU clock)"] = frame_case("han.kamstrup", lambda V: kamstrup_body(kamstrup_items(1, True), V, meter_type=b"685123456789012345"), "untagged", "always")
    c["kamstrup body 10s 3-phase direct meter (type 684...)"] = body_case("han.kamstrup", lambda V: kamstrup_body(kamstrup_items(3, False), V, meter_type=b"684700000000000000"))
    return c
def datetime_cases():
    """C10: the six syntactic positions of a COSEM date-time"""
    one_dt = [("dt", (0, 0, 1, 0, 0, 255))]
    return {"APDU header, tagged (Kaifa frame)": frame_case("han.kaifa", lambda V: kaifa_value_body(1, V), "tagged", "unless_in_list"),
            "APDU header, untagged (Kamstrup frame)": frame_case("han.kamstrup", lambda V: kamstrup_body(kamstrup_items(1, False), V), "untagged", "always"),
            "Aidon list element": body_case("han.aidon", lambda V: aidon_body(one_dt, V)),
            "Kaifa positional list element": body_case("han.kaifa", lambda V: kaifa_value_body(14, V)),
            "Kaifa OBIS list element": body_case("han.kaifa", lambda V: kaifa_obis_body(one_dt + [("num", (1, 0, 1, 7, 0, 255))], V)),
            "Kamstrup list element": body_case("han.kamstrup", lambda V: kamstrup_body([("dt", (0, 1, 1, 0, 0, 255))], V))}
