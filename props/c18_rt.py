import itertools, asyncio
from han import meter_connection as mc
from props import spec_py as sp
def replay_backoff(p):
    w = p["witness"]; n = max(0, min(int(w.get("n", 0)), 200)); cap = int(w.get("max_delay", 60))
    b = mc.ExponentialBackOff(); b.max_delay = cap
    for k in range(n + 1):
        if b.current_delay_sec != sp.backoff(k, cap): return {"violated": True, "detail": f"after {k} failures (max_delay {cap}) current_delay_sec == {b.current_delay_sec}, expected {sp.backoff(k, cap)}"}
        b.failure()
    b.reset()
    if b.current_delay_sec != 0: return {"violated": True, "detail": "current_delay_sec != 0 after reset()"}
    r = backoff_sequences({"maxlen": 10})
    if r["violations"]: return {"violated": True, "detail": r["violations"][0], "found_by": "bounded enumeration"}
    return {"violated": False, "inconclusive": True}
def backoff_sequences(p):
    ml = p.get("maxlen", 12); bad = []; ev = 0
    for cap in (1, 2, 3, 7, 60, 3600):
        for L in range(ml + 1):
            for seq in itertools.product("fr", repeat=L):
                b = mc.ExponentialBackOff(); b.max_delay = cap; n = 0; ev += 1
                for c in seq:
                    if c == "f": b.failure(); n += 1
                    else: b.reset(); n = 0
                if b.current_delay_sec != sp.backoff(n, cap): bad.append({"sequence": "".join(seq), "max_delay": cap, "got": b.current_delay_sec, "expected": sp.backoff(n, cap)}); break
            if bad: break
        if bad: break
    return {"name": "all failure()/reset() sequences", "bound": f"exhaustive up to length {ml} x max_delay in (1,2,3,7,60,3600)", "evaluations": ev, "distinct_nontrivial": ev, "violations": bad[:2], "exhaustive": True}
def replay_get_back_off_time(p):
    loop = asyncio.new_event_loop(); asyncio.set_event_loop(loop)
    try:
        async def fac(): return None
        for cur in (0, 1, 4, 60):
            for br in (False, True):
                for sl in (0, 3, 5, 100):
                    m = mc.ConnectionManager(fac); m.connection_lost_back_off_sleep_sec = sl; m._connection_lost_sleep_before_reconnect = br
                    class B(mc.BackOffStrategy):
                        def failure(s): pass
                        def reset(s): pass
                        current_delay_sec = cur
                    m.back_off_connect_error = B()
                    exp = max(cur, sl if br else 0) if (cur > 0 or br) else 0
                    if m._get_back_off_time() != exp: return {"violated": True, "detail": f"_get_back_off_time with delay {cur}, breaker {br}, sleep {sl} -> {m._get_back_off_time()}, expected {exp}"}
        return {"violated": False, "inconclusive": True}
    finally: loop.close()
