import itertools, asyncio
from han import meter_connection as mc
from props import spec_py as sp
def replay_backoff(p):
    w = p["witness"]; n = max(0, min(int(w.get("n", 0)), 200)); cap = int(w.get("max_delay", 60))
    b = mc.ExponentialBackOff(); b.max_delay = cap
    for k in range(n + 1):
        if b.current_delay_sec != sp.backoff(k, cap): return {"violated": True, "detail": f"after {k} failures (max_delay {cap}) current_delay_sec == {b.current_delay_sec}, expected {sp.backoff(k, cap)}"}
        b.failure()
    b.reset()
    if b.current_delay_sec != 0: return {"violated": True, "detail": "current_delay_sec != 0 after reset()"}
    r = backoff_sequences({"maxlen": 10})
    if r["violations"]: return {"violated": True, "detail": r["violations"][0], "found_by": "bounded enumeration"}
    return {"violated": False, "inconclusive": True}
def backoff_sequences(p):
    ml = p.get("maxlen", 12); bad = []; ev = 0
    for cap in (1, 2, 3, 7, 60, 3600):
        for L in range(ml + 1):
            for seq in itertools.product("fr", repeat=L):
                b = mc.ExponentialBackOff(); b.max_delay = cap; n = 0; ev += 1
                for c in seq:
                    if c == "f": b.failure(); n += 1
                    else: b.reset(); n = 0
                if b.current_delay_sec != sp.backoff(n, cap): bad.append({"sequence": "".join(seq), "max_delay": cap, "got": b.current_delay_sec, "expected": sp.backoff(n, cap)}); break
            if bad: break
        if bad: break
    return {"name": "all failure()/reset() sequences", "bound": f"exhaustive up to length {ml} x max_delay in (1,2,3,7,60,3600)", "evaluations": ev, "distinct_nontrivial": ev, "violations": bad[:2], "exhaustive": True}
def replay_get_back_off_time(p):
    loop = asyncio.new_event_loop(); asyncio.set_event_loop(loop)
    try:
        async def fac(): return None
        for cur in (0, 1, 4, 60):
            for br in (False, True):
                for sl in (0, 3, 5, 100):
                    m = mc.ConnectionManager(fac); m.connection_lost_back_off_sleep_sec = sl; m._connection_lost_sleep_before_reconnect = br
                    class B(mc.BackOffStrategy):
                        def failure(s): pass
                        def reset(s): pass
                        current_delay_sec = cur
                    m.back_off_connect_error = B()
                    exp = max(cur, sl if br else 0) if (cur > 0 or br) else 0
                    if m._get_back_off_time() != exp: return {"violated": True, "detail": f"_get_back_off_time with delay {cur}, breaker {br}, sleep {sl} -> {m._get_back_off_time()}, expected {exp}"}
        return {"violated": False, "inconclusive": True}
    finally: loop.close()

def manager_virtual_time(p):
    """bounded: the real ConnectionManager.connect_loop on a real event loop with a virtual clock (asyncio.sleep and datetime.utcnow as seen by han.meter_connection are
    replaced: sleeping advances the clock and yields).  Every attempt-outcome sequence up to the given length: fail / ok-and-lost-soon / ok-and-lost-late.  Checked: the attempt
    after n consecutive failures starts exactly max(min(2^(n-1), max_delay), breaker sleep if the breaker is set) virtual seconds after the failure, a success resets the
    sequence, and after two losses within the threshold the next attempt waits at least the configured sleep."""
    import datetime as real_dt, logging
    logging.getLogger("han.meter_connection").setLevel(logging.CRITICAL)
    maxlen = p.get("maxlen", 6); ev = 0; bad = []
    def sequences(cap):
        for L in range(1, maxlen + 1): yield from itertools.product("fsl", repeat=L)          # f: attempt fails; s: succeeds, lost after 1 s; l: succeeds, lost after 100 s
        if cap > 64:
            for k in range(maxlen + 1, 15): yield ("f",) * k; yield ("s",) + ("f",) * k           # long runs of failures below a large cap
    for cap, thr, slp in ((60, 5, 5), (4, 5, 7), (60, 3, 2), (3600, 5, 5)):
        for _once in (0,):
            for seq in sequences(cap):
                ev += 1; clock = [0.0]; log = []
                class FakeDT:
                    @staticmethod
                    def utcnow(): return real_dt.datetime(2020, 1, 1) + real_dt.timedelta(seconds=clock[0])
                class FakeMod: datetime = FakeDT; timedelta = real_dt.timedelta
                real_sleep = asyncio.sleep
                async def fake_sleep(t):
                    log.append(("sleep", clock[0], t)); clock[0] += t; await real_sleep(0)
                loop = asyncio.new_event_loop(); asyncio.set_event_loop(loop)
                saved = (mc.sleep, mc.datetime)
                mc.sleep = fake_sleep; mc.datetime = FakeMod
                try:
                    it = iter(seq); mgr_box = []
                    async def factory():
                        try: c = next(it)
                        except StopIteration:
                            mgr_box[0].close(); raise OSError("script exhausted")
                        log.append(("attempt", clock[0], c))
                        if c == "f": raise OSError("connect failed")
                        class T:
                            def close(s): pass
                        class Pr: pass
                        pr = Pr(); pr.done = loop.create_future(); hold = 1 if c == "s" else 100
                        def lose():
                            clock[0] += hold; log.append(("lost", clock[0]))
                            if not pr.done.done(): pr.done.set_result(True)
                        loop.call_soon(lose)
                        return (T(), pr)
                    m = mc.ConnectionManager(factory); mgr_box.append(m); m.back_off_connect_error.max_delay = cap
                    m.connection_lost_back_off_threshold = thr; m.connection_lost_back_off_sleep_sec = slp
                    loop.run_until_complete(asyncio.wait_for(m.connect_loop(), timeout=20))
                except Exception as ex:
                    bad.append({"sequence": "".join(seq), "why": f"connect_loop raised {ex!r}"})
                finally:
                    mc.sleep, mc.datetime = saved; loop.close()
                # evaluate the log
                n_fail = 0; last_event = None; losses = []; breaker = False
                for e in log:
                    if e[0] == "attempt":
                        t = e[1]
                        if last_event is not None:
                            kind, t0 = last_event; need = sp.backoff(n_fail, cap); extra = slp if breaker else 0
                            want = max(need, extra) if (need > 0 or breaker) else 0
                            if abs((t - t0) - want) > 1e-9: bad.append({"sequence": "".join(seq), "config": [cap, thr, slp], "why": f"attempt at {t} after {kind} at {t0} with {n_fail} consecutive failures (breaker {breaker}): waited {t - t0}, expected {want}"})
                        if e[2] == "f": n_fail += 1; last_event = ("failure", t)
                        else: n_fail = 0; last_event = None
                    elif e[0] == "lost":
                        t = e[1]; breaker = (t - losses[-1] < thr) if losses else breaker; losses.append(t); last_event = ("loss", t)
                if bad: break
            if bad: break
        if bad: break
    return {"name": "ConnectionManager.connect_loop on a virtual clock", "bound": f"every attempt-outcome sequence over (fail, ok lost after 1 s, ok lost after 100 s) up to length {maxlen} (plus runs of up to 14 failures under max_delay 3600) x 4 configurations of (max_delay, threshold, sleep)",
            "evaluations": ev, "distinct_nontrivial": ev, "violations": bad[:2]}
