"""C08 — COSEM decoders through the grammar layer (see props/cosem_model.py)."""
from props import hdlc_model as M, cosem_model as CM
from pyvc import run

FUNCS = ['han.kaifa.decode_frame_content', 'han.kaifa.decode_notification_body', 'han.kaifa.normalize_parsed_frame', 'han.kaifa.normalize_parsed_notification', 'han.kaifa._normalize_parsed_value_elements', 'han.kaifa._normalize_parsed_obis_elements', 'han.kaifa._get_field_lists', 'han.cosem.<lambdas>', 'han.kaifa.<lambdas>']
ASSUME = ['construct 2.10.70 combinator semantics: the parse rule of each class used (listed in the evidence under construct_rules_used) is an assumed contract; the object graphs are dumped from the real modules on every run and every solver model is replayed through the real parse()', 'layouts have a fixed structure (tags, lengths, OBIS codes concrete; registers, scalers, characters, date-time fields symbolic over their full range): the documented lists are enumerated, the value space is not', 'text characters range over printable ASCII 0x20..0x7E', "datetime / timezone / timedelta are record models with the constructor's documented range checks", 're on concrete OBIS strings is executed concretely (the real library)', 'float lemma round(v*10**-k, k) == v/10**k for all 32-bit v (k = 1, 3): assumed in the VCs, checked by the sweep on CPython floats (strided in quick, all 2^32 in thorough)']
EXPL = "C08: the real Kaifa decoders executed symbolically for the five positional layouts (1, 9, 13, 14, 18 values) and the Swedish OBIS-tagged list, bare and framed (tagged and untagged APDU clock): positional field mapping, currents == register/1000, voltages == register/10, other registers unchanged, text verbatim, APDU clock unless the list carries its own. The step from the code's round(v * 10**-3, 3) to v/1000 is the float lemma, decided by an exhaustive sweep (bounded in the quick tier) - hence level 'other'."
LEVEL = 'other'
SWEEP = True
FAMILY = "kaifa_cases"
def build(repo, tier, seed):
    r = M.groups_result([("decoders", CM.cases_group, (repo, FAMILY))], budget_ms=15000)
    r.functions = sorted({o.func for o in r.obligations if o.func} | set(FUNCS))
    r.assumptions = list(ASSUME)
    r.explanation = EXPL
    r.level = LEVEL
    b = run.rt_call("C08", "layouts_random", {"family": "C08", "seed": seed, "n": 40 if tier == "quick" else 1500})
    r.bounded.append(b if "name" in b else {"name": "layouts_random", "error": b.get("error", b)})
    b = run.rt_call("C08", "kaifa_text_control_octets", {"seed": seed})
    r.bounded.append(b if "name" in b else {"name": "kaifa_text_control_octets", "error": b.get("error", b)})
    if SWEEP:
        b = run.rt_call("C08", "float_sweep", {"seed": seed, "full": tier == "thorough"}, timeout=3000)
        r.bounded.append(b if "name" in b else {"name": "float_sweep", "error": b.get("error", b)})
    return r
