"""C12/C15 run-time side: the real AutoDecoder with its decoder table replaced by scripted decoders (same table names)."""
import construct
from han import autodecoder
class _D(dict):
    """dictionary returned by scripted decoder k (possibly empty)"""
    def __init__(s, k, nonempty): dict.__init__(s, {"decoder": k} if nonempty else {}); s.k = k
def replay_auto(p):
    w = p["witness"]; outs = w.get("outcomes", []); prev = w.get("prev"); empty = w.get("empty", [])
    orig = autodecoder.AutoDecoder.payload_decoder_functions
    N = len(orig)
    def mk(k):
        def dec(payload):
            o = outs[k] if k < len(outs) else 1
            if o == 0: return _D(k, not (k < len(empty) and empty[k]))
            raise (construct.ConstructError("x") if o == 1 else ValueError("x"))
        return dec
    from han import dlde, common
    obl = p.get("obligation", ""); orig_r = dlde.decode_p1_readout
    is_msg = ".decode_message[" in obl; is_readout = is_msg and "P1 readout" in obl
    p1_idx = [k for k in range(N) if orig[k][0] == "P1"]
    def dec_r(readout):
        o = w.get("outcome_readout", 1)
        if o == 0: return _D(p1_idx[0] if p1_idx else -1, not w.get("empty_readout", False))
        raise (construct.ConstructError("x") if o == 1 else ValueError("x"))
    if is_readout:
        outs = list(outs) + [1] * (N - len(outs))
        for k in p1_idx: outs[k] = w.get("outcome_readout", 1)
    try:
        autodecoder.AutoDecoder.payload_decoder_functions = [(orig[k][0], mk(k)) for k in range(N)]
        dlde.decode_p1_readout = dec_r
        d = autodecoder.AutoDecoder(); d._AutoDecoder__previous_success = prev
        try:
            mv = w.get("msg_valid", True)
            def inv(cls):            # the same message class reporting itself invalid (e.g. a damaged checksum): the statement covers every message object
                if mv: return cls
                class _Inv(cls):
                    is_valid = property(lambda self: False)
                return _Inv
            if is_readout: res = d.decode_message(inv(dlde.DataReadout)(b"/ABC5\r\n\r\n1-0:1.8.0(1*kWh)\r\n!\r\n"))
            elif is_msg and "payload None" in obl:
                class _M(common.DlmsMessage):
                    payload = None
                res = d.decode_message(_M(b"")); outs = [1] * N
            elif is_msg and "payload empty" in obl: res = d.decode_message(common.DlmsMessage(b"")); outs = [1] * N
            elif is_msg: res = d.decode_message(inv(common.DlmsMessage)(b"\x01\x02\x03\x04\x05"))
            else: res = d.decode_message_payload(b"\x01")
        except Exception as ex: return {"violated": True, "detail": f"decode raised {ex!r}"}
        acc = [k for k in range(N) if k < len(outs) and outs[k] == 0]
        got = None if res is None else getattr(res, "k", None)
        newp = d._AutoDecoder__previous_success
        if not acc: bad = got is not None or newp != prev
        else: bad = got not in acc or newp != got or (prev is not None and prev in acc and got != prev)
        exp = "None" if not acc else (prev if (prev is not None and prev in acc) else f"one of {acc}")
        name_ok = d.previous_success_decoder == (None if newp is None else orig[newp][0])
        return {"violated": bad or not name_ok, "detail": f"remembered {prev}, outcomes {outs}: decoded by {got} (expected {exp}), remembered afterwards {newp}, name {d.previous_success_decoder}"}
    finally:
        autodecoder.AutoDecoder.payload_decoder_functions = orig; dlde.decode_p1_readout = orig_r

def replay_reject(p):
    """a solver model of a rejection lemma: the other meter's real decoder on the instance"""
    import importlib, random
    from props.cosem_rt import ConcV, all_cases
    w = p["witness"]; build = all_cases().get(w.get("layout"))
    if build is None: return {"violated": False, "inconclusive": True, "detail": f"unknown layout {w.get('layout')}"}
    V = ConcV(random.Random(3), w.get("fields")); module, func, octs, exp = build(V)
    m = importlib.import_module(w["module"])
    try: r = getattr(m, w["func"])(bytes(octs))
    except (construct.ConstructError, ValueError): return {"violated": False, "detail": "refused"}
    except Exception as ex: return {"violated": True, "detail": {"input": bytes(octs).hex(), "what": f"{w['module']}.{w['func']} raised {ex!r}"}}
    return {"violated": True, "detail": {"layout": w.get("layout"), "input": bytes(octs).hex(), "what": f"{w['module']}.{w['func']} accepts it and returns {str(r)[:120]}"}}

def genuine_fresh(p):
    """bounded: genuine lists of every documented layout (boundary-biased register values, plus registers made of the octets that matter to a text parser) given to a
    FRESH AutoDecoder and to one that has decoded the same layout before: decoded by the meter's own decoder, with the values of C07-C09"""
    import random, importlib
    from props.cosem_rt import ConcV, all_cases, run_case
    rnd = random.Random(p.get("seed", 0)); n = p.get("n", 60); ev = 0; bad = []
    own_name = {("han.aidon", "decode_frame_content"): "Aidon_frame", ("han.kaifa", "decode_frame_content"): "Kaifa_frame", ("han.kamstrup", "decode_frame_content"): "Kamstrup_frame",
                ("han.aidon", "decode_notification_body"): "Aidon_notification_body", ("han.kaifa", "decode_notification_body"): "Kaifa_notification_body", ("han.kamstrup", "decode_notification_body"): "Kamstrup_notification_body"}
    texty = [0x0A, 0x28, 0x29, 0x0D, 0x2A, 0x31, 0x2E, 0x0B, 0x0C, 0x00, 0x21, 0x2F]
    class TextyV(ConcV):
        """register octets drawn from line separators, parentheses, digits and dots: what could make a binary list look like P1 text"""
        def integer(s, name, nbytes, signed):
            if name not in s.given and not name.endswith("_scaler") and s.rnd.random() < 0.8: s.given[name] = [s.rnd.choice(texty) for _ in range(nbytes)]
            return ConcV.integer(s, name, nbytes, signed)
    crafted = [0x000A2829, 0x0A282900, 0x0A280029, 0x0D282929, 0x0C280029]          # "<line separator>(..)" inside one register
    class CraftedV(ConcV):
        """every 4-octet register takes the crafted value `val`, everything else small and ASCII"""
        def __init__(s, rnd_, val): ConcV.__init__(s, rnd_); s.val = val
        def integer(s, name, nbytes, signed):
            if name not in s.given and not name.endswith("_scaler"): s.given[name] = list(s.val.to_bytes(4, "big"))[-nbytes:] if nbytes == 4 else [0] * (nbytes - 1) + [0x29]
            return ConcV.integer(s, name, nbytes, signed)
    ConcV.printable_only = True          # genuine messages: identification strings as meters send them (this module runs in its own process)
    for label, build in all_cases().items():
        for it in range(n + len(crafted)):
            V = CraftedV(rnd, crafted[it]) if it < len(crafted) else (TextyV if it % 2 else ConcV)(rnd); module, func, octs, exp = build(V); payload = bytes(octs); ev += 1
            if run_case(module, func, octs, exp): continue          # the layout's own decoder is C07-C09's business
            want = importlib.import_module(module); want = getattr(want, func)(payload)
            for hist in ("fresh", "same layout before"):
                d = autodecoder.AutoDecoder()
                if hist != "fresh":
                    V2 = ConcV(rnd); _, _, o2, _ = build(V2); d.decode_message_payload(bytes(o2))
                got = d.decode_message_payload(payload)
                if got != want or d.previous_success_decoder != own_name[(module, func)]:
                    bad.append({"layout": label, "history": hist, "payload": payload.hex(), "decoded_by": d.previous_success_decoder, "result": str(got)[:160], "own_decoder": own_name[(module, func)], "own_result": str(want)[:160]}); break
            if bad: break
        if bad: break
    return {"name": "genuine lists on a fresh AutoDecoder and after the same layout (decoded by the meter's own decoder)", "bound": f"{n} instances x every documented layout, boundary-biased and text-like register octets", "evaluations": ev,
            "distinct_nontrivial": ev, "violations": bad[:2]}

def replay_p1text(p):
    """a failed clause of the P1 content decoder's contract as seen from C12: look for a binary list (or any control-octet content) that the real decoder accepts"""
    from han import dlde
    for hx in ("020106000a2829", "0201060c280029", "01010a2829", "0a2829"):
        b = bytes.fromhex(hx)
        try: r = dlde.decode_p1_readout_content(b)
        except ValueError: continue
        return {"violated": True, "detail": {"content": hx, "what": f"decode_p1_readout_content accepts binary content and returns {r!r}"}}
    r = genuine_fresh({"seed": 2, "n": 60})
    if r["violations"]: return {"violated": True, "detail": r["violations"][0], "found_by": "bounded search"}
    return {"violated": False, "inconclusive": True, "detail": "no binary content accepted by decode_p1_readout_content"}

def bounded_search(p):
    """used when the deductive side is undecided: the per-call contract of decode_message_payload / decode_message evaluated on the real AutoDecoder with scripted decoders -
    every remembered state x every accept / ConstructError pattern of the table (plus ValueError and empty-dictionary variants) x the four message shapes"""
    import itertools
    N = len(autodecoder.AutoDecoder.payload_decoder_functions); ev = 0; bad = []
    shapes = ["han.autodecoder.AutoDecoder.decode_message_payload[x]", "han.autodecoder.AutoDecoder.decode_message[frame or DLMS message]", "han.autodecoder.AutoDecoder.decode_message[P1 readout]",
              "han.autodecoder.AutoDecoder.decode_message[payload empty]", "han.autodecoder.AutoDecoder.decode_message[payload None]"]
    for obl in shapes:
        for prev in [None] + list(range(N)):
            for pat in itertools.product((0, 1), repeat=N):
                variants = [(list(pat), [False] * N), ([2 if o else 0 for o in pat], [False] * N), (list(pat), [True] * N)]
                for outs, empty in variants:
                    for o_r, e_r in ((1, False), (0, False), (0, True)):
                        if "P1 readout" not in obl and (o_r, e_r) != (1, False): continue
                        ev += 1
                        r = replay_auto({"witness": {"prev": prev, "outcomes": outs, "empty": empty, "outcome_readout": o_r, "empty_readout": e_r}, "obligation": obl})
                        if r.get("violated"): bad.append({"shape": obl, "remembered": prev, "outcomes": outs, "empty": empty, "detail": r.get("detail")})
                        if bad: break
                    if bad: break
                if bad: break
            if bad: break
        if bad: break
    return {"name": "bounded search: scripted decoders through the real AutoDecoder", "bound": f"{ev} calls: 5 message shapes x remembered None/0..{N-1} x 2^{N} accept patterns x (ConstructError / ValueError / empty dictionary variants)",
            "evaluations": ev, "distinct_nontrivial": ev, "violations": bad[:1]}
