"""C12/C15 run-time side: the real AutoDecoder with its decoder table replaced by scripted decoders (same table names)."""
import construct
from han import autodecoder
class _D(dict):
    """dictionary returned by scripted decoder k (possibly empty)"""
    def __init__(s, k, nonempty): dict.__init__(s, {"decoder": k} if nonempty else {}); s.k = k
def replay_auto(p):
    w = p["witness"]; outs = w.get("outcomes", []); prev = w.get("prev"); empty = w.get("empty", [])
    orig = autodecoder.AutoDecoder.payload_decoder_functions
    N = len(orig)
    def mk(k):
        def dec(payload):
            o = outs[k] if k < len(outs) else 1
            if o == 0: return _D(k, not (k < len(empty) and empty[k]))
            raise (construct.ConstructError("x") if o == 1 else ValueError("x"))
        return dec
    try:
        autodecoder.AutoDecoder.payload_decoder_functions = [(orig[k][0], mk(k)) for k in range(N)]
        d = autodecoder.AutoDecoder(); d._AutoDecoder__previous_success = prev
        try: res = d.decode_message_payload(b"\x01")
        except Exception as ex: return {"violated": True, "detail": f"decode_message_payload raised {ex!r}"}
        acc = [k for k in range(N) if k < len(outs) and outs[k] == 0]
        got = None if res is None else getattr(res, "k", None)
        newp = d._AutoDecoder__previous_success
        if not acc: bad = got is not None or newp != prev
        else: bad = got not in acc or newp != got or (prev is not None and prev in acc and got != prev)
        exp = "None" if not acc else (prev if (prev is not None and prev in acc) else f"one of {acc}")
        name_ok = d.previous_success_decoder == (None if newp is None else orig[newp][0])
        return {"violated": bad or not name_ok, "detail": f"remembered {prev}, outcomes {outs}: decoded by {got} (expected {exp}), remembered afterwards {newp}, name {d.previous_success_decoder}"}
    finally:
        autodecoder.AutoDecoder.payload_decoder_functions = orig
