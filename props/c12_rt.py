"""C12/C15 run-time side: the real AutoDecoder with its decoder table replaced by scripted decoders (same table names)."""
import construct
from han import autodecoder
class _D(dict):
    """dictionary returned by scripted decoder k (possibly empty)"""
    def __init__(s, k, nonempty): dict.__init__(s, {"decoder": k} if nonempty else {}); s.k = k
def replay_auto(p):
    w = p["witness"]; outs = w.get("outcomes", []); prev = w.get("prev"); empty = w.get("empty", [])
    orig = autodecoder.AutoDecoder.payload_decoder_functions
    N = len(orig)
    def mk(k):
        def dec(payload):
            o = outs[k] if k < len(outs) else 1
            if o == 0: return _D(k, not (k < len(empty) and empty[k]))
            raise (construct.ConstructError("x") if o == 1 else ValueError("x"))
        return dec
    from han import dlde, common
    obl = p.get("obligation", ""); orig_r = dlde.decode_p1_readout
    is_msg = ".decode_message[" in obl; is_readout = is_msg and "P1 readout" in obl
    p1_idx = [k for k in range(N) if orig[k][0] == "P1"]
    def dec_r(readout):
        o = w.get("outcome_readout", 1)
        if o == 0: return _D(p1_idx[0] if p1_idx else -1, not w.get("empty_readout", False))
        raise (construct.ConstructError("x") if o == 1 else ValueError("x"))
    if is_readout:
        outs = list(outs) + [1] * (N - len(outs))
        for k in p1_idx: outs[k] = w.get("outcome_readout", 1)
    try:
        autodecoder.AutoDecoder.payload_decoder_functions = [(orig[k][0], mk(k)) for k in range(N)]
        dlde.decode_p1_readout = dec_r
        d = autodecoder.AutoDecoder(); d._AutoDecoder__previous_success = prev
        try:
            if is_readout: res = d.decode_message(dlde.DataReadout(b"/ABC5\r\n\r\n1-0:1.8.0(1*kWh)\r\n!\r\n"))
            elif is_msg and "payload None" in obl:
                class _M(common.DlmsMessage):
                    payload = None
                res = d.decode_message(_M(b"")); outs = [1] * N
            elif is_msg and "payload empty" in obl: res = d.decode_message(common.DlmsMessage(b"")); outs = [1] * N
            elif is_msg: res = d.decode_message(common.DlmsMessage(b"\x01\x02\x03\x04\x05"))
            else: res = d.decode_message_payload(b"\x01")
        except Exception as ex: return {"violated": True, "detail": f"decode raised {ex!r}"}
        acc = [k for k in range(N) if k < len(outs) and outs[k] == 0]
        got = None if res is None else getattr(res, "k", None)
        newp = d._AutoDecoder__previous_success
        if not acc: bad = got is not None or newp != prev
        else: bad = got not in acc or newp != got or (prev is not None and prev in acc and got != prev)
        exp = "None" if not acc else (prev if (prev is not None and prev in acc) else f"one of {acc}")
        name_ok = d.previous_success_decoder == (None if newp is None else orig[newp][0])
        return {"violated": bad or not name_ok, "detail": f"remembered {prev}, outcomes {outs}: decoded by {got} (expected {exp}), remembered afterwards {newp}, name {d.previous_success_decoder}"}
    finally:
        autodecoder.AutoDecoder.payload_decoder_functions = orig; dlde.decode_p1_readout = orig_r
