"""Contracts for han/meter_connection.py protocols (C13, data_received half of C14).
Readers and messages are abstract: a reader's read(data) returns a list of messages (symbolic length); a message has is_valid, payload
(None or bytes of some length), as_bytes.  The destination queue is a ghost sequence (assumed: Queue.put_nowait appends on an unbounded queue)."""
import ast, z3
from pyvc.engine import *
from pyvc import speclib as S

MC = "han.meter_connection."
I, B = z3.IntSort(), z3.BoolSort()
VALID = z3.Function("msg_is_valid", I, B); PAYNONE = z3.Function("msg_payload_is_none", I, B); PAYLEN = z3.Function("msg_payload_len", I, I)
FW = z3.Function("forwarded", I, B)                 # which messages message_received() puts on the queue (protocol specific)
a, i, k = z3.Const("ma", INT_ARR), z3.Int("i"), z3.Int("k")
FWD_N = z3.RecFunction("fwd_count", INT_ARR, I, I)  # number of forwarded messages among the first i
z3.RecAddDefinition(FWD_N, [a, i], z3.If(i <= 0, 0, FWD_N(a, i - 1) + z3.If(FW(a[i - 1]), 1, 0)))
FWD_AT = z3.RecFunction("fwd_at", INT_ARR, I, I, I) # k-th forwarded message among the first i
z3.RecAddDefinition(FWD_AT, [a, i, k], z3.If(i <= 0, 0, z3.If(z3.And(FW(a[i - 1]), k == FWD_N(a, i - 1)), a[i - 1], FWD_AT(a, i - 1, k))))

class PayloadV(SOpt):
    def __init__(s, mid): SOpt.__init__(s, PAYNONE(mid), PAYLEN(mid)); s.mid = mid

def mk_engine(repo):
    eng = Engine({"han.common": f"{repo}/han/common.py", "han.meter_connection": f"{repo}/han/meter_connection.py"})
    def getattr_hook(st, base, attr, ctx, node):
        if isinstance(base, tuple) and base and base[0] == "areader":
            if attr == "read": return [(st, ("abstract", lambda e, st_, args, ctx_, node_, rid=base[1]: reader_read(e, st_, rid, ctx_, node_)))]
            raise Unsupported(f"reader attribute {attr}")
        if isinstance(base, SInt) and attr in ("is_valid", "payload", "as_bytes"):
            mid = base.e
            if attr == "is_valid": return [(st, SBool(VALID(mid)))]
            if attr == "payload": return [(st, PayloadV(mid))]
            n = fresh("asb_n", I); st.pc.append(n >= 0); return [(st, SBytes(fresh("asb", BYTE_ARR), n))]
        if isinstance(base, tuple) and base and base[0] == "aqueue" and attr == "put_nowait":
            return [(st, ("abstract", queue_put))]
        return None
    eng.getattr_hook = getattr_hook
    eng.py_calls["builtins.len"] = lambda e, st, args, kw, ctx, node: [(st, SInt(args[0].val))] if isinstance(args[0], PayloadV) else None
    eng.prelude_methods["hex"] = lambda e, st, base, args, ctx, node: [(st, SStr(fresh("hex", z3.StringSort())))]
    return eng

def reader_read(e, st, rid, ctx, node):
    """abstract reader: returns its (symbolic) message list for this call; a reader must not be fed twice in one data_received call"""
    cnt = st.ghost.get("fed", {})
    ctx.oblige(st, f"post:reader {rid} is fed at most once per data_received call", z3.BoolVal(cnt.get(rid, 0) == 0), node)
    st.ghost["fed"] = {**cnt, rid: cnt.get(rid, 0) + 1}
    return [(st, SList(z3.Const(f"msgs_r{rid}", INT_ARR), z3.Int(f"nmsgs_r{rid}")))]
def queue_put(e, st, args, ctx, node):
    item = args[0]; Q, qn = st.ghost["q"]
    if isinstance(item, PayloadV): mid = item.mid
    elif isinstance(item, SInt): mid = item.e
    else: raise Unsupported("put_nowait item")
    st.ghost["q"] = (z3.Store(Q, qn, mid), qn + 1); st.ghost["q_kind"] = "payload" if isinstance(item, PayloadV) else "message"
    return [(st, None)]

def q_is(st, Q0, qn0, marr, upto):
    """queue == old queue ++ forwarded(msgs[0:upto])"""
    Q, qn = st.ghost["q"]; kk = z3.Int("k__q")
    return [("queue length == old + forwarded count", qn == qn0 + FWD_N(marr, upto)),
            ("queue keeps its old contents", z3.ForAll([kk], z3.Implies(z3.And(0 <= kk, kk < qn0), Q[kk] == Q0[kk]))),
            ("queue tail == forwarded messages in order", z3.ForAll([kk], z3.Implies(z3.And(0 <= kk, kk < FWD_N(marr, upto)), Q[qn0 + kk] == FWD_AT(marr, upto, kk))))]

def protocol_obligations(eng, max_candidates=3):
    obls = []
    base = MC + "SmartMeterBaseProtocol"
    # ---- message_received of the two concrete protocols against their forwarding predicate
    for cls, fwdef, kind in ((MC + "SmartMeterMessageProtocol", lambda m: z3.BoolVal(True), "message"),
                             (MC + "SmartMeterMessagePayloadProtocol", lambda m: z3.And(VALID(m), z3.Not(PAYNONE(m)), PAYLEN(m) > 0), "payload")):
        q = cls + ".message_received"
        def init(e, cls=cls):
            st = State(); self_ = st.new_obj(cls, {"queue": ("aqueue",)}); m = z3.Int("m")
            st.ghost["q"] = (z3.Const("Q0", INT_ARR), z3.Int("qn0")); st.pc += [z3.Int("qn0") >= 0, PAYLEN(m) >= 0]
            yield st, [self_, SInt(m)]
        def post(st, args, res, old, e, fwdef=fwdef, kind=kind):
            Q, qn = st.ghost["q"]; m = args[1].e; Q0, qn0 = z3.Const("Q0", INT_ARR), z3.Int("qn0"); f = fwdef(m)
            yield "forwards exactly when the message qualifies (valid with non-empty payload / always)", z3.And(z3.Implies(f, z3.And(qn == qn0 + 1, Q[qn0] == m)), z3.Implies(z3.Not(f), qn == qn0))
            yield "queue keeps its old contents", z3.And(*[z3.BoolVal(True)] + [Q[z3.Int("kq")] == Q0[z3.Int("kq")]]) if False else z3.ForAll([z3.Int("kq")], z3.Implies(z3.And(0 <= z3.Int("kq"), z3.Int("kq") < qn0), Q[z3.Int("kq")] == Q0[z3.Int("kq")]))
            yield f"what is enqueued is the {kind}", z3.BoolVal(st.ghost.get("q_kind", kind) == kind)
        c = Contract(init, post)
        o = eng.verify(q, c)
        for x in o: x.meta.update(replay="replay_protocol")
        obls += o
    # ---- data_received against the abstract forwarding predicate FW, message_received used through its contract
    def apply_mr(e, st, args, ctx, node):
        m = args[1].e; Q, qn = st.ghost["q"]
        Q2 = fresh("Q", INT_ARR); qn2 = fresh("qn", I); kk = z3.Int("k__m")
        st.pc += [z3.Implies(FW(m), z3.And(qn2 == qn + 1, Q2[qn] == m)), z3.Implies(z3.Not(FW(m)), qn2 == qn), z3.ForAll([kk], z3.Implies(z3.And(0 <= kk, kk < qn), Q2[kk] == Q[kk]))]
        st.ghost["q"] = (Q2, qn2)
        return [(st, None)]
    for sub in (MC + "SmartMeterMessageProtocol", MC + "SmartMeterMessagePayloadProtocol", base):
        eng.contracts[sub + ".message_received"] = Contract(apply=apply_mr)
    fn, mod, cls = eng.funcs[base + ".data_received"]
    Q0, qn0 = z3.Const("Q0", INT_ARR), z3.Int("qn0")
    def havoc_q(st_h, e):
        st_h.ghost["q"] = (fresh("Q", INT_ARR), fresh("qn", I)); return None
    for ncand in range(0, max_candidates + 1):
        for selected in ([None] if ncand else [None]) + [0]:
            if selected is not None and ncand != 0: continue          # once a reader is selected the candidate list is empty
            st = State()
            cands = [("areader", r) for r in range(ncand)]
            self_ = st.new_obj(MC + "SmartMeterMessagePayloadProtocol", {"queue": ("aqueue",), "_reader_candidates": list(cands), "_selected_reader": ("areader", 99) if selected is not None else None})
            st.ghost["q"] = (Q0, qn0); st.pc.append(qn0 >= 0)
            for r in list(range(ncand)) + [99]: st.pc.append(z3.Int(f"nmsgs_r{r}") >= 0)
            label = f"selected" if selected is not None else f"{ncand} candidates"
            ctx = Ctx(eng, mod, cls, base + ".data_received", root_name=f"{base}.data_received[{label}]"); ctx.verifying = base + ".data_received"
            st.locals = {"self": self_, "data": SBytes(z3.Const("data", BYTE_ARR), z3.Int("dn"))}
            # loop specs (lexical order): 0 = selected branch forwarding loop; 1 = candidates loop (concrete list: unrolled); 2 = validity scan; 3 = forwarding loop of the newly selected reader
            def inv_fwd(st_, e):
                ms = st_.locals["messages"]; return q_is(st_, Q0, qn0, ms.arr, to_int(st_.locals.get("__idx0", st_.locals.get("__idx3", 0))))
            def inv_fwd3(st_, e):
                ms = st_.locals["messages"]; return q_is(st_, Q0, qn0, ms.arr, to_int(st_.locals["__idx3"]))
            def inv_scan(st_, e):
                ms = st_.locals["messages"]; kk = z3.Int("k__s"); Q, qn = st_.ghost["q"]
                return [("no valid message so far", z3.ForAll([kk], z3.Implies(z3.And(0 <= kk, kk < to_int(st_.locals["__idx2"])), z3.Not(VALID(ms.arr[kk]))))),
                        ("nothing selected yet", z3.BoolVal(st_.getf(self_, "_selected_reader") is None)), ("queue unchanged", z3.And(qn == qn0, Q == Q0))]
            # invariants are attached by what a loop does, not by its position: a loop that calls message_received forwards messages,
            # a loop that reads is_valid scans for a valid message
            def selector(qual, stmt, no, self_=self_):
                if not qual.startswith(base + ".") or not isinstance(stmt, ast.For): return None
                src = ast.unparse(stmt)
                if "message_received" in src and "is_valid" not in src:
                    return ((lambda st_, e: q_is(st_, Q0, qn0, st_.locals["messages"].arr, to_int(st_.locals[f"__idx{no}"]))), None, {}, havoc_q)
                if "is_valid" in src and "message_received" not in src:
                    def inv_scan_n(st_, e):
                        ms = st_.locals["messages"]; kk = z3.Int("k__s"); Q, qn = st_.ghost["q"]
                        return [("no valid message so far", z3.ForAll([kk], z3.Implies(z3.And(0 <= kk, kk < to_int(st_.locals[f"__idx{no}"])), z3.Not(VALID(ms.arr[kk]))))),
                                ("nothing selected yet", z3.BoolVal(st_.getf(self_, "_selected_reader") is None)), ("queue unchanged", z3.And(qn == qn0, Q == Q0))]
                    return (inv_scan_n, None, {})
                return None
            eng.loop_spec_selector = selector
            for st1, flow, val in eng.exec_block(fn.body, st, ctx):
                eng.stats["paths"] += 1
                if not eng.feasible(st1): continue
                if flow == RAISE:
                    ctx.oblige(st1, f"raises:C14 nothing escapes ({val.exc})", z3.BoolVal(False), fn); continue
                sel = st1.getf(self_, "_selected_reader"); fed = st1.ghost.get("fed", {}); Q, qn = st1.ghost["q"]; kk = z3.Int("k__p")
                if selected is not None:
                    ctx.oblige(st1, "post:selected reader unchanged and fed once", z3.BoolVal(sel == ("areader", 99) and fed == {99: 1}), fn)
                    for nm, g in q_is(st1, Q0, qn0, z3.Const("msgs_r99", INT_ARR), z3.Int("nmsgs_r99")): ctx.oblige(st1, f"post:{nm}", g, fn)
                elif sel is None:
                    ctx.oblige(st1, "post:no reader selected => every candidate was fed once, in order", z3.BoolVal(fed == {r: 1 for r in range(ncand)}), fn)
                    ctx.oblige(st1, "post:no reader selected => queue unchanged", z3.And(qn == qn0, Q == Q0), fn)
                    for r in range(ncand):
                        ctx.oblige(st1, f"post:no reader selected => candidate {r} produced no valid message", z3.ForAll([kk], z3.Implies(z3.And(0 <= kk, kk < z3.Int(f"nmsgs_r{r}")), z3.Not(VALID(z3.Const(f"msgs_r{r}", INT_ARR)[kk])))), fn)
                else:
                    ok = isinstance(sel, tuple) and sel[0] == "areader" and 0 <= sel[1] < ncand
                    ctx.oblige(st1, "post:the selected reader is one of the candidates", z3.BoolVal(ok), fn)
                    if not ok: continue
                    r = sel[1]; marr = z3.Const(f"msgs_r{r}", INT_ARR); n_r = z3.Int(f"nmsgs_r{r}")
                    ctx.oblige(st1, "post:it is the first candidate (list order) whose messages contain a valid one; later candidates were not fed", z3.BoolVal(fed == {x: 1 for x in range(r + 1)}), fn)
                    ctx.oblige(st1, "post:the selected reader produced a valid message in this call", z3.Exists([kk], z3.And(0 <= kk, kk < n_r, VALID(marr[kk]))), fn)
                    for x in range(r):
                        ctx.oblige(st1, f"post:earlier candidate {x} produced no valid message", z3.ForAll([kk], z3.Implies(z3.And(0 <= kk, kk < z3.Int(f"nmsgs_r{x}")), z3.Not(VALID(z3.Const(f"msgs_r{x}", INT_ARR)[kk])))), fn)
                    for nm, g in q_is(st1, Q0, qn0, marr, n_r): ctx.oblige(st1, f"post:all messages of the selecting call are forwarded: {nm}", g, fn)
            for o in ctx.obls: o.meta.update(replay="replay_protocol")
            obls += ctx.obls
    # fwd_count is monotone and bounded (used by the invariants)
    n_ = z3.Int("n_")
    obls.append(Obligation("lemma.fwd_count_bounds#base", [n_ <= 0], z3.And(FWD_N(a, n_) >= 0, FWD_N(a, n_) <= z3.If(n_ > 0, n_, 0)), use_axioms=False, kind="lemma"))
    obls.append(Obligation("lemma.fwd_count_bounds#step", [n_ > 0, z3.And(FWD_N(a, n_ - 1) >= 0, FWD_N(a, n_ - 1) <= n_ - 1)], z3.And(FWD_N(a, n_) >= 0, FWD_N(a, n_) <= n_), use_axioms=False, kind="lemma"))
    obls.append(Obligation("canary.invalid_message_forwarded", [z3.Not(VALID(z3.Int("m")))], z3.Not(FW(z3.Int("m"))), kind="canary", expect_refuted=True))
    return obls

def group_protocol(repo):
    eng = mk_engine(repo)
    n_ = z3.Int("n_")
    eng.prelude_axioms.append(z3.ForAll([a, n_], z3.Implies(n_ >= 0, z3.And(FWD_N(a, n_) >= 0, FWD_N(a, n_) <= n_)), patterns=[FWD_N(a, n_)]))
    return eng, protocol_obligations(eng), {}
