"""C11 run-time side: generated IEC 62056-21 data blocks and identification lines on the real code (bounded)."""
import random, re
from decimal import Decimal
from datetime import datetime
from han import dlde, obis_map, autodecoder
from props import cosem_spec as SP
from props.c15_rt import replay_p1text
from props.dlde_rt import spec_is_ident

def gen_block(rnd):
    """-> (bytes, expected list of (address, [(value, unit)]))"""
    lines = []; exp = []
    for _ in range(rnd.randrange(0, 8)):
        if rnd.random() < 0.12: lines.append(b"" if rnd.random() < 0.5 else b"   "); continue
        sets = []
        for _ in range(rnd.choice([1, 1, 1, 2, 3])):
            a, b_, c, d, e_, f = [rnd.choice([0, 1, 8, 31, 96, 255, rnd.randrange(256)]) for _ in range(6)]
            addr = (f"{a}-" if rnd.random() < 0.6 else "") + (f"{b_}:" if rnd.random() < 0.6 else "") + f"{c}.{d}" + (f".{e_}" if rnd.random() < 0.8 else "") + (f"*{f}" if rnd.random() < 0.2 else "")
            vals = []
            for _ in range(rnd.choice([1, 1, 1, 2, 3])):
                kind = rnd.random()
                if kind < 0.6:
                    ip = rnd.choice(["0", "00", "1", "000123", str(rnd.randrange(10 ** rnd.randrange(1, 9)))]); fr = rnd.choice(["", ".0", ".5", ".394", ".001", ".%03d" % rnd.randrange(1000), ".%02d" % rnd.randrange(100)])
                    v = ip + fr; u = rnd.choice([None, "kWh", "KWH", "kw", "kvar", "kVArh", "V", "v", "A", "var", "VARH", "m3", "Hz"])
                elif kind < 0.8: v = "%02d%02d%02d%02d%02d%02d" % (rnd.randrange(100), rnd.randrange(1, 13), rnd.randrange(1, 29), rnd.randrange(24), rnd.randrange(60), rnd.randrange(60)) + rnd.choice(["W", "S", ""]); u = None
                else: v = "".join(rnd.choice("ABCDEFabc0123456789 -_") for _ in range(rnd.randrange(0, 12))); u = None
                vals.append((v, u))
            sets.append((addr, vals))
        line = "".join(a + "".join("(" + v + ("*" + u if u is not None else "") + ")" for v, u in vals) for a, vals in sets)
        lines.append(line.encode()); exp += sets
    eol = rnd.choice([b"\r\n", b"\n"])
    return eol.join(lines) + eol, exp

def expected_decode(sets):
    d = {}
    for addr, vals in sets:
        if len(vals) != 1: continue
        try: o = _spec_obis(addr)
        except ValueError: return "ValueError"
        cde = f"{o[2]}.{o[3]}.{o[4]}"; key = SP.NAMES.get(cde, cde); v, u = vals[0]; lu = u.lower() if u else None
        try:
            if lu in ("v", "a", "var", "varh"): d[key] = float(v)
            elif lu in ("kw", "kwh", "kvar", "kvarh"): d[key] = ("kilo", Decimal(v) * 1000)
            elif cde == "1.0.0": d[key] = datetime(2000 + int(v[0:2]), int(v[2:4]), int(v[4:6]), int(v[6:8]), int(v[8:10]), int(v[10:12]))
            else: d[key] = v
        except Exception: return "ValueError"
    return d
def _spec_obis(a):
    m = re.fullmatch(r"(?:(\d{1,3})-)?(?:(\d{1,3}):)?(\d{1,3})\.(\d{1,3})(?:\.(\d{1,3}))?(?:\*(\d{1,3}))?", a)
    if not m: raise ValueError(a)
    return tuple(None if g is None else int(g) for g in m.groups())

def parse_conformance(p):
    rnd = random.Random(p.get("seed", 0)); n = p.get("n", 1500); bad = []; ev = 0; distinct = set()
    idents = ["/AUX5UXXXXXXXXXXXXXXX", "/KFM5KAIFA-METER", "/ADN9 6534", "/ABC5", "/ELL5\\253833635_A", "/abc5x"]
    for _ in range(n):
        blk, exp = gen_block(rnd); ev += 1; distinct.add(blk)
        try: got = [(s.address, [(v.value, v.unit) for v in s.values]) for s in dlde.parse_p1_readout_content(blk)]
        except Exception as ex: bad.append({"block": blk.decode(), "raised": repr(ex)}); break
        if got != exp: bad.append({"block": blk.decode(), "parsed": repr(got)[:300], "expected": repr(exp)[:300]}); break
        want = expected_decode(exp)
        try: dec = dlde.decode_p1_readout_content(blk) if exp else "ValueError"
        except ValueError: dec = "ValueError"
        except Exception as ex: bad.append({"block": blk.decode(), "decode_raised": repr(ex)}); break
        if want == "ValueError" or dec == "ValueError":
            if exp and (want == "ValueError") != (dec == "ValueError"): bad.append({"block": blk.decode(), "decoded": repr(dec)[:200], "expected": repr(want)[:200]}); break
            continue
        ok = set(dec) == set(want)
        for k, w in want.items():
            if not ok: break
            g = dec[k]
            if isinstance(w, tuple): ok = isinstance(g, int) and (w[1] - 1 <= g <= w[1]) if w[1] < 2 ** 47 else isinstance(g, int)
            else: ok = type(g) == type(w) and g == w
        if not ok: bad.append({"block": blk.decode(), "decoded": repr(dec)[:300], "expected": repr(want)[:300]}); break
        # whole readout: identification fields; AutoDecoder agreement
        ident = rnd.choice(idents); ro = dlde.DataReadout(ident.encode() + b"\r\n\r\n" + blk + b"!\r\n")
        if spec_is_ident(ident):
            full = dlde.decode_p1_readout(ro); extra = {k: v for k, v in full.items() if k not in dec}
            rest = ident[5:]
            while len(rest) >= 2 and rest[0] == "\\" and (rest[1].isalnum() or rest[1] == "_") and len(rest[2:]) >= 0 and False: rest = rest[2:]
            exp_extra_manid = ident[1:4]
            if extra.get("meter_manufacturer_id") != exp_extra_manid or set(extra) - {"meter_manufacturer_id", "meter_type_id"} or {k: v for k, v in full.items() if k in dec} != dec:
                bad.append({"readout": ro.as_bytes.decode(), "extra": repr(extra)}); break
            ad = autodecoder.AutoDecoder().decode_message(ro)
            if ad != full: bad.append({"readout": ro.as_bytes.decode(), "autodecoder": repr(ad)[:200], "decode_p1_readout": repr(full)[:200]}); break
    return {"name": "P1 data blocks generated from the IEC 62056-21 grammar: parse, decode, identification fields, AutoDecoder agreement", "bound": f"{n} blocks (0..7 lines, 1..3 data sets per line, 1..3 values, decimals with leading zeros, units in any case, LF/CRLF)",
            "evaluations": ev, "distinct_nontrivial": len(distinct), "violations": bad[:2]}

def float_clause_sweep(p):
    upto = p.get("upto", 300000); bad = []; ev = 0
    for k in range(0, upto):
        s = "%d.%03d" % (k // 1000, k % 1000); n = k; g = int(float(s) * 1000); ev += 1
        if not (n - 1 <= g <= n): bad.append({"value": s, "int(float*1000)": g, "exact": n}); break
    rnd = random.Random(p.get("seed", 0))
    for _ in range(upto // 3):
        ip = rnd.randrange(10 ** rnd.randrange(1, 11)); fr = rnd.randrange(1000); s = "%s%d.%03d" % ("0" * rnd.randrange(0, 4), ip, fr); n = ip * 1000 + fr; g = int(float(s) * 1000); ev += 1
        if not (n - 1 <= g <= n): bad.append({"value": s, "int(float*1000)": g, "exact": n}); break
    return {"name": "float clause n-1 <= int(float(v)*1000) <= n", "bound": f"all three-decimal values below {upto/1000:g} and {upto//3} random values below 10^10 with leading zeros", "evaluations": ev, "distinct_nontrivial": ev, "violations": bad[:2]}

def float_clause_large(p):
    """probe beyond 2^47: the clause is false there (known finding; not repairable without changing the value 1010 pinned by tests/test_dlde.py for 1.011 kW)"""
    bad = []
    for s in ("99999999999999.999", "70368744177664.001", "140737488355328.003"):
        n = int(Decimal(s) * 1000); g = int(float(s) * 1000)
        if not (n - 1 <= g <= n): bad.append({"value": s, "int(float*1000)": g, "exact": n})
    return {"name": "float clause beyond 2^47 (known finding)", "bound": "three probe values above 10^13", "evaluations": 3, "distinct_nontrivial": 3, "violations": bad[:1]}

def replay_p1decode(p):
    r = parse_conformance({"n": 800, "seed": 5})
    if r["violations"]: return {"violated": True, "detail": r["violations"][0], "found_by": r["name"]}
    return {"violated": False, "inconclusive": True}
def replay_name_map(p):
    bad = {k: v for k, v in obis_map.obis_name_map.items() if SP.NAMES.get(k) != v}; missing = {k: v for k, v in SP.NAMES.items() if k not in obis_map.obis_name_map}
    return {"violated": bool(bad or missing), "detail": {"differs": bad, "missing": missing}}
