"""C01 — HDLC: a frame is reported valid exactly when it is intact, with exact fields; framing of returned frames."""
from props import hdlc_model as M

FRAMING = ("frame_inv", "unstuff(raw)", "octets == raw", "ghost:", "returned", "pre:", "raises:", "safe:", "no pending escape", "consumed", "result is the list")
def build(repo, tier, seed):
    r = M.hdlc_result(repo, tier, ("lemmas", "get_address", "init", "append", "valid", "accessors"), True,
                      select=None)     # every clause: the reader invariant is inductive only as a whole
    r.functions = sorted({o.func for o in r.obligations if o.func} | set(M.READER_FUNCS))
    r.assumptions = ["bytearray.append/extend/clear/find, bytes() and slicing are modelled as offset views over one array (prelude contracts, DESIGN section 5)",
                     "ghost stream G: the chunks given to read() are consecutive segments of one stream (this is what 'a byte stream split into read() calls' means)"]
    r.explanation = ("C01: (1) frame invariant (running FCS == fcs_fold(octets), cached control position == ctrl_pos(octets)) established by __init__, preserved by append; "
                     "(2) is_valid == valid_frame(octets) via the residue lemma over the bit-serial RFC 1662 definition; (3) accessor contracts for every frame satisfying the invariant; "
                     "(4) reader invariant with ghost input stream: raw octets of the current frame are a contiguous stream segment right after a flag, octets == unstuff(raw) "
                     "(== raw without stuffing), every returned frame is closed by a flag and starts after the end of the previous returned frame; proved for _read_next (helpers inlined) "
                     "and for read() through _read_next's contract, in the four reader configurations; unbounded in stream length and chunking (the invariant is the induction hypothesis)")
    return r

def fallback(repo, tier, seed):
    from pyvc import run
    b = run.rt_call("C01", "bounded_search", {"seed": seed, "n": 1200 if tier == "quick" else 8000})
    return [b if "name" in b else {"name": "bounded_search", "error": b.get("error", b)}]
