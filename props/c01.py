"""C01 — HDLC: a frame is reported valid exactly when it is intact, with exact fields; framing of returned frames."""
from pyvc.engine import *
from pyvc.run import PropResult
from props import hdlc_model as M

def build(repo, tier, seed):
    eng = M.mk_engine(repo)
    obls = M.frame_obligations(eng)
    funcs = sorted({o.func for o in obls if o.func})
    return PropResult(obls, eng, functions=funcs, derived=sorted(eng.derived),
        assumptions=["bytearray.append/bytes()/slicing modelled as offset views over one array (DESIGN section 5)"],
        explanation="C01: frame invariant (running FCS == fcs_fold(octets), cached control position == ctrl_pos(octets)) established by __init__ and preserved by append; "
                    "is_valid == valid_frame(octets) via the residue lemma over the bit-serial RFC 1662 definition; accessor contracts for every frame satisfying the invariant")
