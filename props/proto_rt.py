"""Run-time side for the protocol contracts: bounded search with scripted abstract readers against the real protocol classes."""
import asyncio, random
def _mk(loop):
    from han import meter_connection as mc
    return mc
class FakeMsg:
    def __init__(s, valid, payload, tag): s.is_valid = valid; s.payload = payload; s.tag = tag; s.as_bytes = b"x"
class FakeReader:
    def __init__(s, script): s.script = list(script); s.fed = 0
    is_in_hunt_mode = True
    def read(s, data):
        s.fed += 1; return s.script.pop(0) if s.script else []
def replay_protocol(p):
    loop = asyncio.new_event_loop(); asyncio.set_event_loop(loop)
    try:
        from han import meter_connection as mc
        rnd = random.Random(5)
        for it in range(4000):
            ncand = rnd.randrange(0, 4); ncalls = rnd.randrange(1, 5); payload_proto = bool(it & 1)
            scripts = [[[FakeMsg(rnd.random() < 0.4, rnd.choice([None, b"", b"p%d" % rnd.randrange(100)]), (r, c, k)) for k in range(rnd.randrange(0, 3))] for c in range(ncalls)] for r in range(ncand)]
            readers = [FakeReader(s) for s in scripts]
            q = asyncio.Queue()
            proto = (mc.SmartMeterMessagePayloadProtocol if payload_proto else mc.SmartMeterMessageProtocol)(q, readers)
            exp = []; selected = None
            for c in range(ncalls):
                try: proto.data_received(b"d")
                except Exception as ex: return {"violated": True, "detail": f"data_received raised {ex!r}"}
                if selected is None:
                    for r in range(ncand):
                        if any(m.is_valid for m in scripts_copy(scripts, r, c)): selected = r; break
                    if selected is not None: msgs = scripts_copy(scripts, selected, c)
                    else: msgs = []
                else: msgs = scripts_copy(scripts, selected, c)
                for m in msgs:
                    if payload_proto:
                        if m.is_valid and m.payload: exp.append(m.payload)
                    else: exp.append(m)
            got = []
            while not q.empty(): got.append(q.get_nowait())
            if got != exp: return {"violated": True, "detail": {"candidates": ncand, "calls": ncalls, "payload_protocol": payload_proto, "queue": [repr(getattr(g, "tag", g)) for g in got][:8], "expected": [repr(getattr(g, "tag", g)) for g in exp][:8]}, "found_by": "bounded search with scripted readers"}
        return {"violated": False, "inconclusive": True, "detail": "bounded search found nothing"}
    finally:
        loop.close()
def scripts_copy(scripts, r, c):
    """the messages reader r was scripted to return on call c (the scripts are never mutated: FakeReader pops from its own copy of the outer list)"""
    return scripts[r][c] if c < len(scripts[r]) else []

def bounded_search(p):
    """used only when the deductive side is undecided: scripted readers (replay_protocol) and real readers on clean streams"""
    r = replay_protocol({})
    bad = [r.get("detail")] if r.get("violated") else []
    return {"name": "bounded search: scripted and real readers through the real protocol classes", "bound": "4000 scripted histories (0..3 candidates, 1..4 calls, 0..2 messages per call)", "evaluations": 4000, "distinct_nontrivial": 4000, "violations": bad[:1]}
