"""C02 (octet stuffing): the clean-stream lemma as a second contract of the real HdlcFrameReader.read(), proved through the contract of
_read_next (reader invariant + transition clauses T1-T13) - no unrolling, any number of frames, any chunking.

The stream.  G is the ghost array of everything the meter sends.  From the first flag F0 on it is *clean*: flags, and between flags
well-formed frames stuffed on the wire.  That is stated position by position with four ghost functions of the stream position p (F0 < p):
  ideal_len(p), ideal_esc(p)   what an ideal un-stuffer has in hand just before it reads G[p]: octets of the current frame so far, pending escape
  ideal_frame(p)               the array of the frame that contains or follows position p (constant between closing flags)
  closing_flags_before(p)      number of closing flags (a flag directly after a non-flag) in (F0, p)
and the hypotheses CLEAN(p) below (recurrences = definitions; the only real assumptions are WF at closing flags and the 2047 bound).

The contract of read() on such a stream, for a reader that has already seen F0 (any call, any chunk):
  pre   reader invariant, nothing unconsumed, and  STATE(g):  in a frame, frame array == ideal_frame(g), len == ideal_len(g), pending == ideal_esc(g)
  post  the same at g + len(chunk);  the frames returned are exactly one per closing flag in [g, g + len(chunk)), in order, each
        the ideal frame of the segment it closes (array and length), which is valid.
Since pre and post are the same predicate of the stream position, the calls compose for every splitting of the stream (induction on the
number of calls, each step being this contract): every well-formed frame is returned exactly once, in order.  STATE holds right after F0 for
a new reader (T2/T13: empty frame named after the position).
"""
import z3
from pyvc.engine import *
from pyvc import speclib as S
from props import hdlc_model as M
from props.hdlc_model import G, R, H, I, NEWARR, reader_view, reader_inv, assume_inv, mk_reader, cfg_label, _calls

B = z3.BoolSort()
F0 = z3.Int("F0"); TEND = z3.Int("TEND")
QN = z3.Function("ideal_len", I, I); QE = z3.Function("ideal_esc", I, B); WA = z3.Function("ideal_frame", I, BYTE_ARR); NCF = z3.Function("closing_flags_before", I, I)

STUFFING = [True]          # set per group (each group is built in its own process)
def hcs_complete(a, n):
    cp = S.CP(a, n); return z3.And(cp != -1, n > cp + 2)
def is_cf(p):
    """closing flag of a frame.  Octet stuffing: a flag directly after a non-flag.  Without stuffing a flag may be frame data: the frame ends at the
    flag that stands at the length its header announces"""
    if STUFFING[0]: return z3.And(p > F0, G[p] == 0x7E, G[p - 1] != 0x7E)
    return z3.And(p > F0, G[p] == 0x7E, QN(p) >= 2, z3.BV2Int(S.len_field(WA(p))) == QN(p))
def well_formed(p, abort):
    """the frame whose closing flag is at p: complete header, valid (length field, FCS), no more than 2047 octets, nothing pending, not an abort sequence"""
    a = WA(p); n = QN(p); cp = S.CP(a, n)
    g = [z3.Not(QE(p)), S.valid_frame(a, n), cp != -1, n > cp + 2, n <= 2047]
    if abort: g.append(G[p - 1] != 0x7D)
    return z3.And(*g)
def clean_at(p, abort):
    """CLEAN(p): the hypotheses about position p of the stream (F0 < p < TEND)"""
    if not STUFFING[0]: return clean_at_unstuffed(p, abort)
    c = G[p]
    rec = z3.If(c == 0x7E, z3.And(QN(p + 1) == 0, z3.Not(QE(p + 1))),
          z3.If(QE(p), z3.And(QN(p + 1) == QN(p) + 1, z3.Not(QE(p + 1))),
          z3.If(c == 0x7D, z3.And(QN(p + 1) == QN(p), QE(p + 1)), z3.And(QN(p + 1) == QN(p) + 1, z3.Not(QE(p + 1))))))
    same_frame = z3.Implies(z3.Not(is_cf(p)), WA(p + 1) == WA(p))
    content = z3.Implies(c != 0x7E, z3.And(z3.Implies(QE(p), WA(p)[QN(p)] == c ^ 0x20), z3.Implies(z3.And(z3.Not(QE(p)), c != 0x7D), WA(p)[QN(p)] == c)))
    wf = z3.Implies(is_cf(p), well_formed(p, abort))
    bound = z3.And(QN(p) >= 0, QN(p) <= 2047, QN(p + 1) >= 0, QN(p + 1) <= 2047)
    count = NCF(p + 1) == NCF(p) + z3.If(is_cf(p), 1, 0)
    rep = z3.And(NEWARR(p) == WA(p), NEWARR(p + 1) == WA(p + 1))          # choice of representation for frames created at p (see hdlc_model.NEWARR)
    return z3.Implies(z3.And(p > F0, p < TEND), z3.And(rec, same_frame, content, wf, bound, count, rep))

def clean_at_unstuffed(p, abort):
    """the same without octet stuffing: every octet of a frame is data, including flags after the header; the domain of C02 here is frames whose header
    holds no flag and - with abort detection - no escape octet directly before a flag or the frame end"""
    c = G[p]; cf = is_cf(p); delim = z3.And(c == 0x7E, z3.Or(QN(p) == 0, cf))          # inter-frame fill or closing flag
    rec = z3.And(z3.If(delim, QN(p + 1) == 0, QN(p + 1) == QN(p) + 1), z3.Not(QE(p)), z3.Not(QE(p + 1)))
    same_frame = z3.Implies(z3.Not(cf), WA(p + 1) == WA(p))
    content = z3.Implies(z3.Not(delim), WA(p)[QN(p)] == c)
    wf = z3.Implies(cf, well_formed(p, abort))
    data_flag = z3.Implies(z3.And(c == 0x7E, QN(p) > 0, z3.Not(cf)), z3.And(hcs_complete(WA(p), QN(p)), G[p - 1] != 0x7D if abort else True))
    bound = z3.And(QN(p) >= 0, QN(p) <= 2047, QN(p + 1) >= 0, QN(p + 1) <= 2047)
    count = NCF(p + 1) == NCF(p) + z3.If(cf, 1, 0)
    rep = z3.And(NEWARR(p) == WA(p), NEWARR(p + 1) == WA(p + 1))
    return z3.Implies(z3.And(p > F0, p < TEND), z3.And(rec, same_frame, content, wf, data_flag, bound, count, rep))

def state_goals(st, rd, gp):
    """STATE(gp): the reader's state is the ideal un-stuffer's state at stream position gp"""
    v = reader_view(st, rd)
    if v["fr"] is None: return [("clean stream: the reader is in a frame (nothing is discarded)", z3.BoolVal(False))]
    d = st.getf(v["fr"], "_frame_data")
    return [("clean stream: frame octets so far are the ideal frame's", z3.And(d.arr == WA(gp), d.n == QN(gp))), ("clean stream: pending escape as in the ideal un-stuffer", v["esc"] == QE(gp))]

def clean_stream_obligations(eng, cfg):
    stuffing, abort = cfg; STUFFING[0] = bool(stuffing)
    fn_rd, mod, cls = eng.funcs[R + "read"]
    st = State(); rd, buf = mk_reader(st, cfg, True, eng=eng); assume_inv(st, rd)
    v0 = reader_view(st, rd); st.pc.append(v0["pl"] == 0)
    cn = z3.Int("cn")
    if not any(str(cn) == str(x) for x in eng.len_vars): eng.len_vars.append(cn)
    gt0, gle0 = v0["gt"], v0["gle"]
    st.pc += [cn >= 0, gt0 > F0, gt0 + cn <= TEND, F0 >= 0, G[F0] == 0x7E,
              QN(F0 + 1) == 0, z3.Not(QE(F0 + 1)), NCF(F0 + 1) == 0, NEWARR(F0 + 1) == WA(F0 + 1)]          # right after the first flag: nothing in hand
    st.pc += [g for _, g in state_goals(st, rd, gt0)]
    root = f"{R}read[clean stream,{cfg_label(cfg, True).rsplit(',', 1)[0]}]"
    ctx = Ctx(eng, mod, cls, R + "read", root_name=root); ctx.verifying = R + "read"
    pre_pc = list(st.pc)
    st.locals = {"self": rd, "data_chunk": SBytes(G, cn, gt0)}
    st.ghost["delivered"] = SInt(z3.IntVal(0))
    def hook(st_, lst, item, ctx_, node_):
        ok = isinstance(item, Ref) and item == st_.ghost.get("completed_frame") and all(item != x for x in st_.ghost.get("appended", ()))
        ctx_.oblige(st_, "post:returned object is the frame just completed", z3.BoolVal(ok), node_)
        if not ok: return
        v = reader_view(st_, rd); d = st_.getf(item, "_frame_data"); e = st_.ghost["completed_at"] - 1
        ctx_.oblige(st_, "post:a frame is returned only at a closing flag of the stream", is_cf(e), node_)
        ctx_.oblige(st_, "post:the returned frame is the frame that was sent (octets and length of the ideal frame of the segment it closes)", z3.And(d.arr == WA(e), d.n == QN(e)), node_)
        ctx_.oblige(st_, "post:the returned frame is valid (length field and FCS; is_valid by its contract, C01)", S.valid_frame(d.arr, d.n), node_)
        st_.setf(rd, "$g_last_end", SInt(e))
        st_.ghost["delivered"] = SInt(to_int(st_.ghost["delivered"]) + 1)
        st_.ghost["appended"] = st_.ghost.get("appended", ()) + (item,)
    eng.list_append_hook = hook
    def havoc(st_h, e):
        s2 = st_h.fork(); tag = f"__l{next(_calls)}"
        rd2, buf2 = mk_reader(s2, cfg, True, tag=tag, eng=e)
        adopt(s2, rd, rd2)
        s2.ghost["appended"] = (); s2.ghost["delivered"] = SInt(fresh("delivered", I))
        gp = reader_view(s2, rd)["gp"]
        v2 = reader_view(s2, rd)
        s2.pc.append(z3.Implies(v2["raw"].n >= 1, v2["raw"].at(v2["raw"].n - 1) == G[gp - 1]))      # instance (k = len(raw)-1) of the invariant clause 'raw octets are contiguous in the stream'
        s2.pc += [clean_at(gp, abort), clean_at(gp - 1, abort)]              # instances of the stream hypotheses at the octet about to be read and the one before it
        return [s2]                                    # states that satisfy the invariant are in a frame (leaving the loop body in hunt mode fails its first clause)
    def inv(st_, e):
        v = reader_view(st_, rd)
        not_aliased = z3.BoolVal(all(st_.getf(rd, "_frame") != x for x in st_.ghost.get("appended", ())))
        return list(reader_inv(st_, rd)) + state_goals(st_, rd, v["gp"]) + \
               [("ghost: stream length", v["gt"] == gt0 + cn), ("ghost: last end monotone", v["gle"] >= gle0), ("returned frames are no longer reachable from the reader", not_aliased),
                ("clean stream: one frame returned per closing flag passed so far", to_int(st_.ghost["delivered"]) == NCF(v["gp"]) - NCF(gt0)),
                ("clean stream: still inside the stream", z3.And(v["gp"] > F0, v["gp"] <= TEND))]
    def dec(st_, e): return reader_view(st_, rd)["pl"]
    eng.loop_specs[(R + "read", 0)] = (inv, dec, {}, havoc)
    st.setf(rd, "$g_total", SInt(gt0 + cn)); st.ghost["chunk_is_stream_segment"] = (gt0, gt0 + cn)
    for st1, flow, val in eng.exec_block(fn_rd.body, st, ctx):
        eng.stats["paths"] += 1
        if not eng.feasible(st1): continue
        if flow == RAISE:
            ctx.oblige(st1, f"raises:nothing escapes ({val.exc})", z3.BoolVal(False), fn_rd); continue
        v = reader_view(st1, rd)
        for name, g in state_goals(st1, rd, gt0 + cn): ctx.oblige(st1, f"post:{name} (at the new stream position: the next call starts from the same contract)", g, fn_rd)
        ctx.oblige(st1, "post:every octet of the chunk has been consumed", v["pl"] == 0, fn_rd)
        ctx.oblige(st1, "post:exactly one frame returned for each closing flag in the chunk", to_int(st1.ghost["delivered"]) == NCF(gt0 + cn) - NCF(gt0), fn_rd)
    eng.list_append_hook = None
    for o in ctx.obls: o.meta.update(replay="replay_clean_stream", witness=M.reader_witness(eng, cfg, True, extra=[("cn", cn), ("F0", F0)]), chunk=True)
    lab = cfg_label(cfg, True).rsplit(",", 1)[0]
    bound = lambda K: [v0["b"].n <= K, v0["raw"].n <= K, gt0 <= K + 4, cn <= K, F0 <= K, TEND <= 2 * K + 8, st.getf(v0["fr"], "_frame_data").n <= K]
    canaries = [Obligation(f"canary.clean_stream_precondition_is_satisfiable[{lab}]", pre_pc + [cn >= 1], z3.BoolVal(False), kind="canary", expect_refuted=True, meta={"refute_bound": bound}),
                # a flag that follows a flag is fill, not a frame: claiming a frame for *every* flag must fail
                Obligation(f"canary.every_flag_returns_a_frame[{lab}]", pre_pc + [cn == 1, clean_at(gt0, abort), clean_at(gt0 - 1, abort)], z3.Implies(G[gt0] == 0x7E, NCF(gt0 + 1) == NCF(gt0) + 1), kind="canary", expect_refuted=True, meta={"refute_bound": bound})]
    return ctx.obls + canaries

def flag_idx_lemmas():
    """two inductions on flag_idx (first flag in [i, n), else n), used for the leading noise of a new reader"""
    a = z3.Const("a__fi", BYTE_ARR); i, j, n, m = z3.Ints("i__fi j__fi n__fi m__fi")
    FI = S.FI
    P = lambda i_: FI(a, i_, n) == z3.If(FI(a, i_, m) < n, FI(a, i_, m), n)
    K = lambda i_: FI(a, j, m) == FI(a, i_, m)
    bnd = z3.And(FI(a, i, m) >= i, FI(a, i, m) <= m)            # instance of lemma.flag_idx_bounds (proved with the frame lemmas)
    obls = [Obligation("lemma.flag_idx_prefix#base", [i == n, n <= m, bnd], P(i), use_axioms=False, kind="lemma"),
            Obligation("lemma.flag_idx_prefix#step", [i < n, n <= m, P(i + 1)], P(i), use_axioms=False, kind="lemma"),
            Obligation("lemma.flag_idx_skip#base", [i == j, j <= FI(a, i, m)], K(i), use_axioms=False, kind="lemma"),
            Obligation("lemma.flag_idx_skip#step", [i < j, j <= FI(a, i, m), z3.Implies(j <= FI(a, i + 1, m), K(i + 1))], K(i), use_axioms=False, kind="lemma")]
    prefix = lambda arr, lo, hi, end: z3.Implies(z3.And(lo <= hi, hi <= end), FI(arr, lo, hi) == z3.If(FI(arr, lo, end) < hi, FI(arr, lo, end), hi))
    skip = lambda arr, lo, mid, end: z3.Implies(z3.And(lo <= mid, mid <= FI(arr, lo, end)), FI(arr, mid, end) == FI(arr, lo, end))
    return obls, prefix, skip

def new_reader_obligations(eng, cfg):
    """the same contract for a new reader (hunt mode) that is still in the flag-free noise before the first flag F0"""
    stuffing, abort = cfg; STUFFING[0] = bool(stuffing)
    fn_rd, mod, cls = eng.funcs[R + "read"]
    lem, prefix, skip = flag_idx_lemmas()
    st = State(); rd, buf = mk_reader(st, cfg, False, eng=eng); assume_inv(st, rd)
    v0 = reader_view(st, rd); st.pc.append(v0["pl"] == 0)
    cn = z3.Int("cn")
    if not any(str(cn) == str(x) for x in eng.len_vars): eng.len_vars.append(cn)
    gt0, gle0 = v0["gt"], v0["gle"]; gt1 = gt0 + cn
    st.pc += [cn >= 0, gt0 >= 0, gt0 <= F0, gt1 <= TEND, F0 <= TEND, S.FI(G, gt0, TEND) == F0, z3.Implies(F0 < TEND, G[F0] == 0x7E),
              QN(F0 + 1) == 0, z3.Not(QE(F0 + 1)), NCF(F0 + 1) == 0, NEWARR(F0 + 1) == WA(F0 + 1),
              prefix(G, gt0, gt1, TEND), skip(G, gt0, gt1, TEND)]                       # instances of the two flag_idx lemmas (proved below)
    root = f"{R}read[clean stream, new reader,{cfg_label(cfg, True).rsplit(',', 1)[0]}]"
    ctx = Ctx(eng, mod, cls, R + "read", root_name=root); ctx.verifying = R + "read"
    st.locals = {"self": rd, "data_chunk": SBytes(G, cn, gt0)}
    st.ghost["delivered"] = SInt(z3.IntVal(0))
    def hook(st_, lst, item, ctx_, node_):
        ok = isinstance(item, Ref) and item == st_.ghost.get("completed_frame") and all(item != x for x in st_.ghost.get("appended", ()))
        ctx_.oblige(st_, "post:returned object is the frame just completed", z3.BoolVal(ok), node_)
        if not ok: return
        v = reader_view(st_, rd); d = st_.getf(item, "_frame_data"); e = st_.ghost["completed_at"] - 1
        ctx_.oblige(st_, "post:a frame is returned only at a closing flag of the stream", is_cf(e), node_)
        ctx_.oblige(st_, "post:the returned frame is the frame that was sent (octets and length of the ideal frame of the segment it closes)", z3.And(d.arr == WA(e), d.n == QN(e)), node_)
        ctx_.oblige(st_, "post:the returned frame is valid (length field and FCS; is_valid by its contract, C01)", S.valid_frame(d.arr, d.n), node_)
        st_.setf(rd, "$g_last_end", SInt(e))
        st_.ghost["delivered"] = SInt(to_int(st_.ghost["delivered"]) + 1)
        st_.ghost["appended"] = st_.ghost.get("appended", ()) + (item,)
    eng.list_append_hook = hook
    def havoc(st_h, e):
        outs = []
        for shape in (True, False):
            s2 = st_h.fork(); tag = f"__l{next(_calls)}"
            rd2, buf2 = mk_reader(s2, cfg, shape, tag=tag, eng=e)
            adopt(s2, rd, rd2)
            s2.ghost["appended"] = (); s2.ghost["delivered"] = SInt(fresh("delivered", I))
            v2 = reader_view(s2, rd); gp = v2["gp"]
            if shape:
                s2.pc.append(z3.Implies(v2["raw"].n >= 1, v2["raw"].at(v2["raw"].n - 1) == G[gp - 1]))
                s2.pc += [clean_at(gp, abort), clean_at(gp - 1, abort)]
            outs.append(s2)
        return outs
    def phase(st_, gp, pl):
        v = reader_view(st_, rd); dl = to_int(st_.ghost["delivered"])
        if v["fr"] is None:
            return [("new reader: still hunting only before the first flag, and then nothing has been returned", z3.And(gp <= F0, z3.Or(pl == 0, gp == F0), dl == 0))]
        return state_goals(st_, rd, gp) + [("clean stream: one frame returned per closing flag passed so far", z3.And(gp > F0, dl == NCF(gp)))]
    def inv(st_, e):
        v = reader_view(st_, rd)
        not_aliased = z3.BoolVal(all(st_.getf(rd, "_frame") != x for x in st_.ghost.get("appended", ())))
        return list(reader_inv(st_, rd)) + phase(st_, v["gp"], v["pl"]) + \
               [("ghost: stream length", v["gt"] == gt1), ("ghost: last end monotone", v["gle"] >= gle0), ("returned frames are no longer reachable from the reader", not_aliased),
                ("clean stream: still inside the stream", v["gp"] <= TEND)]
    def dec(st_, e): return reader_view(st_, rd)["pl"]
    eng.loop_specs[(R + "read", 0)] = (inv, dec, {}, havoc)
    st.setf(rd, "$g_total", SInt(gt1)); st.ghost["chunk_is_stream_segment"] = (gt0, gt1)
    for st1, flow, val in eng.exec_block(fn_rd.body, st, ctx):
        eng.stats["paths"] += 1
        if not eng.feasible(st1): continue
        if flow == RAISE:
            ctx.oblige(st1, f"raises:nothing escapes ({val.exc})", z3.BoolVal(False), fn_rd); continue
        v = reader_view(st1, rd); dl = to_int(st1.ghost["delivered"])
        ctx.oblige(st1, "post:every octet of the chunk has been consumed", v["pl"] == 0, fn_rd)
        if v["fr"] is None:
            ctx.oblige(st1, "post:still hunting: the chunk was flag-free noise, nothing returned, and the first flag is still ahead (same contract for the next call)",
                       z3.And(gt1 <= F0, dl == 0, S.FI(G, gt1, TEND) == F0), fn_rd)
        else:
            for name, g in state_goals(st1, rd, gt1): ctx.oblige(st1, f"post:{name} (at the new stream position: the next call starts from the contract for a reader that has seen the first flag)", g, fn_rd)
            ctx.oblige(st1, "post:exactly one frame returned for each closing flag in the chunk", z3.And(gt1 > F0, dl == NCF(gt1)), fn_rd)
    eng.list_append_hook = None
    for o in ctx.obls: o.meta.update(replay="replay_clean_stream", witness=M.reader_witness(eng, cfg, False, extra=[("cn", cn), ("F0", F0)]), chunk=True)
    return lem + ctx.obls

def cover_canaries(eng, cfg):
    """reachability of every kind of step under the hypotheses (each `this case never happens` must be refuted): guards against a contradictory stream description"""
    stuffing, abort = cfg; STUFFING[0] = bool(stuffing)
    st = State(); rd, buf = mk_reader(st, cfg, True, tag="__cov", eng=eng); assume_inv(st, rd)
    v = reader_view(st, rd); gp = v["gp"]; d = st.getf(v["fr"], "_frame_data")
    st.pc += [v["pl"] >= 1, gp > F0, gp < TEND, F0 >= 0, G[F0] == 0x7E, v["gt"] <= TEND, QN(F0 + 1) == 0, z3.Not(QE(F0 + 1)), NCF(F0 + 1) == 0, NEWARR(F0 + 1) == WA(F0 + 1)]
    st.pc += [g for _, g in state_goals(st, rd, gp)] + [clean_at(gp, abort), clean_at(gp - 1, abort), z3.Implies(v["raw"].n >= 1, v["raw"].at(v["raw"].n - 1) == G[gp - 1])]
    lab = cfg_label(cfg, True).rsplit(",", 1)[0]
    bound = lambda K: [v["b"].n <= K, v["raw"].n <= K, v["gt"] <= 2 * K + 4, F0 <= K, TEND <= 2 * K + 8, d.n <= K]
    cases = {"a closing flag arrives": is_cf(gp), "an inter-frame fill flag arrives": z3.And(G[gp] == 0x7E, d.n == 0), "a data octet arrives inside a frame": z3.And(G[gp] != 0x7E, d.n >= 1)}
    if stuffing: cases["an escaped octet arrives"] = z3.And(v["esc"], G[gp] != 0x7E)
    else: cases["a flag arrives as frame data"] = z3.And(G[gp] == 0x7E, d.n > 0, z3.Not(is_cf(gp)))
    # witness hint for the closing-flag case: the header-only frame a0 07 03 21 13 + its check sequence (computed below from the RFC 1662 definition)
    from props import spec_py as sp
    hdr = bytes([0xA0, 0x07, 0x03, 0x21, 0x13]); f = sp.fcs16(hdr); octs = hdr + bytes([f & 0xFF, f >> 8])
    hint = lambda K: bound(max(K, 9)) + [d.n == 7] + [d.arr[i] == octs[i] for i in range(7)] + [v["raw"].n == 7]
    return [Obligation(f"canary.clean_stream_step_never[{nm}][{lab}]", list(st.pc), z3.Not(c), kind="canary", expect_refuted=True, meta={"refute_bound": hint if nm.startswith("a closing flag") else bound}) for nm, c in cases.items()]

def group_clean_stream(repo, cfg):
    eng = M.mk_engine(repo); M.frame_obligations(eng, want=())
    M.reader_obligations(eng, configs=[cfg], methods=())          # installs the call-site contract of _read_next (proved in the reader groups)
    obls = clean_stream_obligations(eng, cfg)
    obls += new_reader_obligations(eng, cfg)
    obls += cover_canaries(eng, cfg)
    # must-fail canary: without the well-formedness hypothesis a closing flag need not complete a frame
    return eng, obls, {}
