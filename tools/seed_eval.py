#!/usr/bin/env python3
"""tools/seed_eval.py <seed-id> <src-dir with patch.diff demo.py notes.md> <PID[,PID..]> [--keep]
Confirms a seeded change in a scratch worktree (tests pass, demo fails with / passes without), runs the checks against it,
stores it under /verif/seeded/<seed-id>/ with meta.json, removes the worktree."""
import sys, os, subprocess, json, shutil, tempfile, time
sid, src, pids = sys.argv[1:4]; src = os.path.abspath(src)
wt = tempfile.mkdtemp(prefix="amshan_seed_"); os.rmdir(wt)
def run(cmd, **kw): return subprocess.run(cmd, capture_output=True, text=True, **kw)
meta = {"id": sid, "breaks_property": pids.split(",")[0], "checked_with": pids.split(","), "ran": []}
try:
    r = run(["git", "-C", "/repo", "worktree", "add", "-q", "--detach", wt, "HEAD"]); assert r.returncode == 0, r.stderr
    r = run(["git", "-C", wt, "apply", os.path.join(src, "patch.diff")]); meta["patch_applies"] = r.returncode == 0
    if r.returncode != 0: print("patch does not apply:", r.stderr[:300]); sys.exit(2)
    r = run(["/venv/bin/python", "-m", "pytest", "-q", "-x", "-p", "no:cacheprovider"], cwd=wt)
    meta["tests_with_change"] = (r.stdout.strip().splitlines() or ["?"])[-1]; meta["ran"].append("cd <worktree> && /venv/bin/python -m pytest -q -p no:cacheprovider")
    d1 = run(["/venv/bin/python", os.path.join(src, "demo.py"), wt], cwd=wt); d0 = run(["/venv/bin/python", os.path.join(src, "demo.py"), "/repo"], cwd="/repo")
    meta["demo_exit_with_change"] = d1.returncode; meta["demo_exit_without_change"] = d0.returncode; meta["demo_output_with_change"] = (d1.stdout + d1.stderr)[-400:]
    meta["ran"].append("demo.py <worktree> ; demo.py /repo")
    meta["checks"] = {}
    for pid in pids.split(","):
        t = time.time(); c = run(["/verif/check", pid], env=dict(os.environ, VERIF_REPO=wt))
        lines = (c.stdout + c.stderr).splitlines()
        meta["checks"][pid] = {"exit": c.returncode, "wall_s": round(time.time() - t, 1), "first_violation": next((l for l in lines if l.startswith("VIOLATION")), None),
                               "failed_obligation": next((l.strip() for l in lines if "failed obligation" in l), None), "summary": lines[0] if lines else ""}
        meta["ran"].append(f"VERIF_REPO=<worktree> ./check {pid}")
    ok = "passed" in meta["tests_with_change"] and "failed" not in meta["tests_with_change"] and d1.returncode == 1 and d0.returncode == 0
    meta["confirmed"] = ok
    print(json.dumps(meta, indent=1))
    if ok or "--keep" in sys.argv:
        dst = f"/verif/seeded/{sid}"; os.makedirs(dst, exist_ok=True)
        for f in ("patch.diff", "demo.py", "notes.md"):
            if os.path.exists(os.path.join(src, f)) and os.path.abspath(src) != os.path.abspath(dst): shutil.copy(os.path.join(src, f), dst)
        notes = open(os.path.join(src, "notes.md")).read() if os.path.exists(os.path.join(src, "notes.md")) else ""
        meta["needs_to_manifest"] = notes[:1200]
        json.dump(meta, open(os.path.join(dst, "meta.json"), "w"), indent=1)
finally:
    run(["git", "-C", "/repo", "worktree", "remove", "--force", wt]); shutil.rmtree(wt, ignore_errors=True)
