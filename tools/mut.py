#!/usr/bin/env python3
"""Mutation helper: tools/mut.py <PID[,PID..]> <file-relative-to-repo> <old> <new> [--tests]
Copies /repo to a scratch dir outside /repo and /verif, applies one textual replacement, runs the checks against it, removes the copy."""
import sys, os, shutil, subprocess, tempfile
pids, rel, old, new = sys.argv[1:5]
run_tests = "--tests" in sys.argv
d = tempfile.mkdtemp(prefix="amshan_mut_")
try:
    shutil.copytree("/repo", d + "/repo", ignore=shutil.ignore_patterns(".git", "__pycache__", "*.egg-info"))
    p = f"{d}/repo/{rel}"; s = open(p).read()
    if s.count(old) != 1: print(f"pattern occurs {s.count(old)} times"); sys.exit(9)
    open(p, "w").write(s.replace(old, new))
    if run_tests:
        r = subprocess.run(["/venv/bin/python", "-m", "pytest", "-q", "-x", "-p", "no:cacheprovider"], cwd=d + "/repo", capture_output=True, text=True)
        print("tests:", r.stdout.strip().splitlines()[-1] if r.stdout.strip() else r.stderr[-300:])
    for pid in pids.split(","):
        r = subprocess.run(["/verif/check", pid], env=dict(os.environ, VERIF_REPO=d + "/repo"), capture_output=True, text=True)
        print(f"--- {pid} exit={r.returncode}"); print("\n".join((r.stdout + r.stderr).splitlines()[:14]))
finally:
    shutil.rmtree(d, ignore_errors=True)
