#!/bin/bash
# tools/with_patch.sh <patch.diff> <command...> : run a command with VERIF_REPO pointing to a scratch worktree with the patch applied; exit code of the command
P=$(realpath $1); shift
WT=$(mktemp -u /tmp/amshan_wp_XXXX)
git -C /repo worktree add -q --detach $WT HEAD && git -C $WT apply $P && VERIF_REPO=$WT "$@"; rc=$?
git -C /repo worktree remove --force $WT
exit $rc
