#!/bin/bash
# tools/seeds_recheck.sh [seed-id...] : re-run the recorded checks against every stored seeded change (expected: exit 1 from at least one of its checks)
cd "$(dirname "$0")/.."
mkdir -p out/seeds
ids=${@:-$(ls seeded)}
for id in $ids; do
  pids=$(python3 -c "import json;print(' '.join(json.load(open('seeded/$id/meta.json'))['checked_with']))")
  res=""
  for c in $pids; do
    tools/with_patch.sh seeded/$id/patch.diff ./check $c > out/seeds/${id}_$c.log 2>&1; rc=$?
    ob=$(grep -h "failed obligation" out/seeds/${id}_$c.log | head -1 | cut -c1-150)
    res="$res $c=$rc"
    [ $rc -eq 1 ] && res="$res [$ob]"
  done
  echo "$id:$res"
done
