#!/bin/bash
# tools/run_all.sh [quick|thorough]: every claimed check, one after the other, with timing
T=${1:-quick}; mkdir -p out
for p in C01 C02 C03 C04 C05 C06 C07 C08 C09 C10 C11 C12 C13 C14 C15 C16 C18 C19 C20; do
  s=$(date +%s); ./check $p --tier $T > out/run_$p.$T.log 2>&1; rc=$?; e=$(date +%s)
  echo "$p exit=$rc $((e-s))s $(head -1 out/run_$p.$T.log | cut -c1-150)"; grep -h "SELF-TEST\|DISAGREEMENT\|VIOLATION\|UNDECIDED" out/run_$p.$T.log | head -5
done
