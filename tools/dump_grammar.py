"""Run under /venv/bin/python:  dump_grammar.py <repo> <module.attr> [...]  -> JSON {name: tree}.  Mechanical walk of the real construct objects."""
import sys, json, importlib
sys.path.insert(0, sys.argv[1])
import construct
from construct import expr
def dump_expr(e):
    if isinstance(e, expr.BinExpr): return {"bin": e.op.__name__, "l": dump_expr(e.lhs), "r": dump_expr(e.rhs)}
    if isinstance(e, expr.UniExpr): return {"uni": e.op.__name__, "o": dump_expr(e.operand)}
    if isinstance(e, expr.FuncPath): return {"func": getattr(e, "_FuncPath__func").__name__, "arg": dump_expr(getattr(e, "_FuncPath__operand", None))}
    if isinstance(e, expr.Path):
        chain = []; p = e
        while p is not None:
            f = getattr(p, "_Path__field", None)
            if f is not None: chain.append(f)
            p = getattr(p, "_Path__parent", None)
        return {"path": list(reversed(chain))}
    if isinstance(e, construct.EnumIntegerString): return {"enum": str(e), "int": int(e.intvalue)}
    if callable(e) and hasattr(e, "__code__"):
        c = e.__code__
        free = {}
        for nm, cell in zip(c.co_freevars, e.__closure__ or ()):       # closure cells of a function made by a factory: simple constants are dumped by value
            try: v = cell.cell_contents
            except ValueError: continue
            free[nm] = v if (v is None or isinstance(v, (bool, int, str))) else {"obj": repr(v)[:80]}
        return {"lambda": {"file": c.co_filename, "line": c.co_firstlineno, "args": list(c.co_varnames[:c.co_argcount]), "freevars": free}}
    if isinstance(e, bool) or e is None or isinstance(e, (int, str)): return e
    if isinstance(e, bytes): return {"bytes": e.hex()}
    if isinstance(e, construct.Construct): return dump(e)
    return {"obj": repr(e)[:80]}
_seen = {}
def dump(c):
    d = {"cls": type(c).__name__}
    if getattr(c, "name", None): d["name"] = c.name
    own = vars(c)
    for attr in ("value", "fmtstr", "length", "count", "func", "condfunc", "keyfunc", "encoding", "signed", "swapped", "decodeamount", "parsebuildfrom", "includelength", "pad", "discard", "parsesubcon", "pattern", "message"):
        if attr in own: d[attr] = dump_expr(own[attr])
    if isinstance(c, construct.ExprAdapter):
        inner = [cell.cell_contents for cell in (c._decode.__closure__ or ()) if callable(cell.cell_contents)]
        d["decoder"] = dump_expr(inner[0]) if inner else None
    if isinstance(c, construct.Enum): d["decmapping"] = {str(int(k)): str(v) for k, v in c.decmapping.items()}
    if isinstance(c, construct.StringEncoded): d["encoding"] = c.encoding
    if "subcon" in own: d["subcon"] = dump(c.subcon)
    if "subcons" in own: d["subcons"] = [dump(x) for x in c.subcons]
    if "cases" in own:
        d["cases"] = [[dump_expr(k), dump(v)] for k, v in c.cases.items()]; d["default"] = dump(c.default)
    if "thensubcon" in own: d["then"] = dump(c.thensubcon); d["else"] = dump(c.elsesubcon)
    if "lengthfield" in own: d["lengthfield"] = dump(c.lengthfield)
    if isinstance(c, construct.FocusedSeq): d["parsebuildfrom"] = c.parsebuildfrom
    return d
out = {}
for spec in sys.argv[2:]:
    mod, name = spec.rsplit(".", 1)
    out[spec] = dump(getattr(importlib.import_module(mod), name))
print(json.dumps(out))
