#!/bin/bash
# tools/neg_eval.sh [name...] : run the relevant checks against each behaviour-preserving refactoring in negative/ (expected: exit 0 everywhere)
cd "$(dirname "$0")/.."
declare -A MAP=( [N_A1]="C03 C01 C02" [N_A2]="C04 C01" [N_A3]="C01 C02 C05 C06 C16 C19" [N_A4]="C01 C02 C04 C06 C16 C19"
 [N_B1]="C11 C15" [N_B2]="C05 C13 C14 C11" [N_B3]="C05 C13 C14 C19" [N_B4]="C11 C15"
 [N_C1]="C08 C10 C15" [N_C2]="C07 C10" [N_C3]="C09 C10" [N_C4]="C07 C08 C09 C10"
 [N_D1]="C12 C15" [N_D2]="C18" [N_D3]="C19 C12" [N_D4]="C20 C11"
 [N_E1]="C01 C02 C06 C16 C19" [N_E2]="C01 C02 C06 C16" [N_E3]="C01 C02 C06 C19" [N_E4]="C01 C02 C06 C16"
 [N_F1]="C05 C14 C16 C19" [N_F2]="C05 C14 C19" [N_F3]="C04 C05 C14" [N_F4]="C05 C14 C16 C13" [N_G1]="C12 C15" [N_H1]="C18" )
names=${@:-$(printf '%s\n' "${!MAP[@]}" | sort)}
mkdir -p out/neg
for n in $names; do
  for c in ${MAP[$n]}; do
    tools/with_patch.sh negative/$n.diff ./check $c > out/neg/${n}_$c.log 2>&1; rc=$?
    echo "$n $c exit=$rc $(grep -h '^\[C' out/neg/${n}_$c.log | tail -1)"
  done
done
