#!/usr/bin/env python3
"""Regenerate MANIFEST.json from the table below and validate it against the schema."""
import json, subprocess, sys
DED = "contract-based deductive verification: AST->VC generator (pyvc) over the real source + z3"
CLAIMED = {
 "C01": dict(level="proof",
   text="Deductive, unbounded: frame invariant (running FCS == fcs_fold(octets), cached control position == ctrl_pos(octets)) established by __init__ and preserved by append; is_valid == valid_frame(octets) "
        "(statement of C01) via the residue lemma over the bit-serial RFC 1662 definition; accessor contracts for every frame satisfying the invariant; reader invariant with a ghost input stream (raw octets of the "
        "current frame are a contiguous stream segment right after a flag, octets == unstuff(raw), every returned frame is closed by a flag and starts after the previous one) proved for _read_next and for read() "
        "through _read_next's contract in the four configurations. The invariant is the induction hypothesis over all histories and chunkings.",
   note="When part of the deductive side cannot be built (source restructured beyond the contracts), a bounded fallback search on the real code runs instead of leaving the run silent. Trusted: pyvc encoding, z3, prelude contracts for bytearray operations (offset views), ghost stream assumption (chunks are consecutive segments of one stream).",
   technique=DED + "; class invariant with ghost input history; induction lemmas over recursive spec functions", design="DESIGN.md section 9 C01"),
 "C03": dict(level="proof",
   text="Deductive: contracts on the real FastFrameCheckSequence16 methods and the table generator; VCs generated from the source on every run; "
        "the step function is proved equal to the bit-serial RFC 1662 definition over all 2^24 (register, octet) pairs, byte strings of every length by the loop invariant / recursive fold, "
        "is_good characterised by the residue lemma. No bound.",
   note="Trusted: pyvc encoding of the Python subset, z3; the table is evaluated by the engine's own concrete interpreter from the source text.",
   technique=DED + "; bit-vector lemma for the table step, loop invariant over fcs_fold", design="DESIGN.md section 9 C03"),
 "C04": dict(level="proof",
   text="Deductive, unbounded in the readout length: CRC loop invariant against the bit-serial CRC-16/ARC definition, __init__ establishes the readout invariant, is_valid postconditions (i)-(iv) taken from the "
        "statement (including checksum 0000), payload contract, exceptional postconditions; the identification-line pattern is translated from the source into an SMT regular expression and proved equal to the specified language.",
   note="When part of the deductive side cannot be built (source restructured beyond the contracts), a bounded fallback search on the real code runs instead of leaving the run silent. Assumed (conformance-tested at replay time): bytes.lstrip/find/decode, str.strip as recursive spec functions; int(text,16) abstract with int(4 hex digits) == hexval4; re implements the regular language of the pattern.",
   technique=DED + "; regex language equivalence in z3's sequence theory", design="DESIGN.md section 9 C04"),
 "C05": dict(level="proof",
   text="Deductive, unbounded: (1) P1 reader contracts with a ghost input stream for every state and chunk - contiguity and byte-identity of returned readouts, identification-line tracking, no complete line left unconsumed, sizes within the bound, "
        "termination, validity of well-formed readouts by C04(iv); (2) the clean-stream lemma as a second contract of the real ModeDReader.read(), proved on its real body: on a stream that from A0 on consists of well-formed readouts back to back "
        "(described line by line with ghost functions of the line starts), read(chunk) takes 'unconsumed octets = line in progress, hunt mode iff not inside a readout, collected octets = stream since the readout started' to the same at the new "
        "position and returns exactly one DataReadout per end line consumed, in order, byte-identical to the stream from its identification line to the end of its end line; the length guard never trips; a new reader inside the tail of a readout "
        "reaches that state at A0. Same predicate before and after each call, so the calls compose for every splitting (sequential composition).",
   note="Assumed: the description of a clean P1 stream (hypotheses CLEAN(p) in props/clean_p1.py incl. 'the leading tail holds no /' and 'each readout at most 8191 octets'; checked against every generated clean stream by the bounded run p1_ideal_check, "
        "reachability of every line kind by cover canaries); prelude contracts as for C04. Bounded cross-checks on the real reader: 150/3000 generated streams of up to 200 readouts, 150/3000 streams with the contract evaluated after every call.",
   technique=DED + "; second contract of read() with ghost functions of the line starts, proved on the real loop body", design="DESIGN.md section 9 C05 and 14.8"),
 "C02": dict(level="proof",
   text="Deductive, unbounded, four configurations: (1) the exact transition of the reader on every input octet (clauses T1-T13 of _read_next's contract, proved on the real source) and the frame contracts of C01 (validity, exact payload and "
        "header fields for any address length); (2) the clean-stream lemma as a second contract of the real read(), proved through _read_next's contract: on a stream that from its first flag on consists of flags and well-formed frames, "
        "read(chunk) takes 'the reader holds what an ideal un-stuffer holds at stream position g' to the same at g+len(chunk) and returns exactly one frame per closing flag in the chunk, in order, each the frame that was sent and valid; a new reader "
        "skips flag-free noise. Pre- and postcondition are the same predicate of the position, so the calls compose for every splitting (sequential composition). Any number and length of frames (<= 2047 octets) and chunks.",
   note="Assumed: the description of a clean stream (hypotheses CLEAN(p) in props/clean_hdlc.py; checked against every generated clean stream by the bounded run ideal_check, reachability of every step kind by cover canaries); the free choice of the "
        "array that represents an empty frame (ghost function new_frame_array). Bounded cross-checks on the real reader: 500/12000 generated clean streams, 300/6000 streams with the contract evaluated after every call.",
   technique=DED + "; second contract of read() with ghost functions of the stream position (ideal un-stuffer), composed through the callee's contract", design="DESIGN.md section 9 C02 and 14.6"),
 "C06": dict(level="proof",
   text="Deductive, unbounded, four configurations, every byte stream: _read_next's contract (reader invariant + exact transition clauses T1-T14, proved on the real source) and a contract of the real read() against an ideal receiver: ghost "
        "functions of the stream position defined by recurrence on the position alone (the T-clauses read as definitions) give the receiver's mode, frame array, length, pending escape, raw length and number of completed frames at p. "
        "read(chunk) takes 'the reader's state is the ideal receiver's at g' to the same at g+len(chunk) and returns exactly the ideal receiver's completions inside the chunk, in order, with its octets. The ideal receiver depends on the stream "
        "only, so any two splittings return the same frames; validity and payload are functions of the octets (C01 contracts). Hunt-mode skipping by an induction lemma.",
   note="Assumed: chunks are consecutive segments of one stream; the composition over calls is the sequential-composition rule. Cross-checks on the real reader (bounded): exhaustive small-scope differential (all streams of 3 prefixes x up to 4/6 octets "
        "over a 5-letter alphabet x every single cut and byte-at-a-time), 400/8000 generated streams with the contract evaluated after every call against a reference receiver.",
   technique=DED + "; contract of read() against ghost functions of the stream position (ideal receiver), composed through the callee's contract; induction lemma for hunt-mode skipping", design="DESIGN.md section 9 C06 and 14.7"),
 "C07": dict(level="proof",
   text="Deductive through the grammar layer: the real Aidon decode functions are executed symbolically over the dumped construct object graph for every documented list (bare body and LLC frame), with every register, scaler, character and date-time field symbolic "
        "over its full range: no exception, exactly the expected keys, value == register x 10^scaler (exact integer, or the correctly rounded float of the exact decimal), text verbatim, clock element, manufacturer; frame and body agree. Lists are enumerated, values are not.",
   note="Assumed: construct 2.10.70 combinator parse rules (cross-checked by replaying every model and random instances through the real parse), float(Decimal) correctly rounded, datetime record model. A random-instance differential run on the real decoders is an additional bounded cross-check.",
   technique=DED + "; symbolic execution of the real construct grammar with fixed layouts (grammar layer) + Python layer for lambdas and normalisers", design="DESIGN.md section 9 C07"),
 "C08": dict(level="other",
   text="Deductive through the grammar layer for the five positional layouts and the Swedish OBIS list, bare and framed, all register values symbolic: positional field mapping, currents == register/1000, voltages == register/10, others unchanged, text verbatim, clock rule. "
        "The float lemma round(v*10**-k, k) == v/10**k (all 32-bit v) is assumed in the VCs and decided by a sweep on CPython floats - strided in quick, all 2^32 in thorough; hence 'other'.",
   note="Known finding (open): identification strings ending in NUL lose those characters and 12 control characters that encode a date-time decode as a datetime (printable strings: proved verbatim). Assumed: construct parse rules, datetime model; float lemma by exhaustive enumeration (thorough).", technique=DED + " via the grammar layer; exhaustive float sweep for the rounding lemma", design="DESIGN.md section 9 C08, 14.3"),
 "C09": dict(level="other",
   text="Deductive through the grammar layer for the Kamstrup 10-second and hourly lists (one/three phase), with null-data padding (after some and after every element), direct and CT (685...) meter types for both kinds of list, bare and framed (the Swedish list has the element set of the 10-second three-phase list): currents == register/100 resp. /1000, energies == register x 10, others unchanged, text verbatim, APDU clock. Float lemma by sweep; hence 'other'.",
   note="Assumed: construct parse rules, datetime model; float lemma by exhaustive enumeration (thorough).", technique=DED + " via the grammar layer; exhaustive float sweep for the rounding lemma", design="DESIGN.md section 9 C09"),
 "C10": dict(level="proof",
   text="Deductive through the grammar layer: a symbolic 12-octet date-time (all valid dates 1..9999, all times, hundredths 0..99/0xFF, deviation -720..720/0x8000, all 256 status octets, any day of week) in each of the six syntactic positions decodes to the same civil fields, "
        "microseconds == hundredths x 10000, UTC offset == -deviation or naive; the status octet is consumed exactly once on either branch.",
   note="Assumed: construct parse rules (Peek/If/BitStruct/ExprAdapter/Computed), datetime/timezone/timedelta record model with documented range checks.", technique=DED + " via the grammar layer", design="DESIGN.md section 9 C10"),
 "C11": dict(level="other",
   text="Deductive part: what _decode_parsed stores for an arbitrary single-valued data set (key = common name of C.D.E from the table checked against the documented one, else C.D.E; V/A/var/varh any case -> float(value); "
        "kW/kWh/kvar/kvarh -> int(float(value) x 1000); clock 1.0.0 -> parsed date-time; else verbatim; only ValueError escapes), decode_p1_readout_content / decode_p1_readout == _decode_parsed(parse_data_block(text)) "
        "(+ exactly the two identification fields), parser termination. BOUNDED on the real code: parse_data_block against the IEC 62056-21 grammar, identification capture groups, float clause sweep. Hence 'other'.",
   note="Known finding (open): the float clause is false above ~10^14 (binary64). Bounded: 1500/40000 generated blocks, all three-decimal values below 300/10000 plus random values.", technique=DED + " (string theory) for the decode mapping; bounded grammar-based conformance for the parser and the float clause", design="DESIGN.md section 9 C11"),
 "C12": dict(level="proof",
   text="Deductive: (1) per-call contract of decode_message_payload and decode_message from the real source, decoder table read from the source, decoders abstract (outcome = function of the payload): None exactly when every decoder rejects, "
        "otherwise the first accepting decoder in cyclic order from the remembered one (hence the remembered one whenever it accepts), previous_success_decoder names it and is unchanged when nobody accepts, decode_message agrees with "
        "decode_message_payload(message.payload); class invariant => every history. (2) Genuine messages: for every documented Aidon / Kaifa / Kamstrup list (frame and bare body, values symbolic) each binary decoder that a fresh AutoDecoder tries "
        "before the list's own decoder is executed symbolically through the grammar layer and ends in ConstructError / ValueError on every path (103 list x decoder pairs); the 'P1' entry returns only for text without control octets (proved on "
        "decode_p1_readout_content) and every list starts with the array / structure tag. With the decoders' own contracts (C07-C09) a fresh AutoDecoder, and one remembering the same meter and form, returns the own decoder's dictionary.",
   note="Assumed: each decoder's outcome on a payload is one of {dict, ConstructError, ValueError}; message.payload side-effect free; construct parse rules as in C07-C09. Not examined symbolically: genuine P1 text against the three frame decoders "
        "(covered on the real code by C11's bounded AutoDecoder-agreement run). Bounded cross-check: genuine lists with boundary-biased and text-like register octets on a fresh AutoDecoder. Found and repaired with this check: /repo 60b6d02.",
   technique=DED + "; loop unrolled over the concrete table, class invariant enumerated; rejection lemmas by symbolic execution of the other decoders' grammars", design="DESIGN.md section 9 C12 and 14.9"),
 "C13": dict(level="proof",
   text="Deductive: per-call contract of data_received over abstract readers/messages with a ghost queue (selection of the first candidate, in list order, that returns a valid message; all messages of the selecting call forwarded; "
        "later candidates not fed; selected reader fed exactly once per call afterwards), message_received of both protocols against their forwarding predicate; message lists of any length by loop invariants. "
        "The last sentence of C13 (clean-stream delivery for any candidate order) is NOT decided and stated as such.",
   note="Last sentence of C13 (clean streams, any candidate order): checked on the real readers and protocol classes by a bounded run (90/3000 generated clean streams x candidate lists x chunkings); it is FALSE for an HDLC frame whose payload is a complete valid P1 readout - recorded as an open known finding (known_findings.json) and reported as KNOWN-FINDING. Assumed: abstract reader/message objects without side effects on the protocol, Queue.put_nowait appends, reader objects truthy; candidate lists of 0..3 readers enumerated (the property's configurations have <= 2).",
   technique=DED + "; ghost sequence for the queue, recursive spec functions fwd_count / fwd_at", design="DESIGN.md section 9 C13"),
 "C14": dict(level="proof",
   text="Deductive: exceptional postcondition 'nothing escapes' on HdlcFrameReader.read/_read_next, ModeDReader.read, HdlcFrame and DataReadout message properties and data_received, from the reader invariants, for every state "
        "satisfying the invariant and every bytes argument; every implicit failure point of the subset is a safety obligation or a forked exceptional edge that must be infeasible; invariants re-established (reader remains usable).",
   note="Assumed: logging does not raise; MemoryError/RecursionError out of scope; prelude contracts of the byte/str library functions.",
   technique=DED + "; generated safety obligations and exceptional edges", design="DESIGN.md section 9 C14"),
 "C15": dict(level="other",
   text="Deductive part: the AutoDecoder loops let nothing escape (given decoders raise only ConstructError / ValueError) and return dict or None; the P1 text path terminates for every text (loop measures over str.find as IndexOf) and, with "
        "DataSetValue.parse, _parse_p1_datetime, _decode_parsed, parse_p1_readout_content, decode_p1_readout_content, lets only ValueError escape. That the construct-based decoders raise only ConstructError / ValueError on EVERY byte string "
        "needs the type of all parse trees of each grammar; not mechanised: a BOUNDED mutation fuzz of the real AutoDecoder stands in. Hence 'other'.",
   note="Bounded: 1711 (quick) / ~66000 (thorough) payloads x remembered decoders, 2 s per call.", technique=DED + " for the loops, termination measures and P1 exception classes; bounded mutation fuzz for the construct decoders", design="DESIGN.md section 9 C15"),
 "C16": dict(level="proof",
   text="Deductive. HDLC, four configurations: read()'s contract against the ideal receiver (after ANY input the reader's state is the ideal receiver's at the stream position) and its clean-stream contract are connected by a resync lemma over the ideal "
        "receiver (pure spec-level base / step / final obligations): whatever the receiver holds at the first flag of the clean part, it is hunting or building a frame whose octets equal the ideal frame's, and - with octet stuffing - the first closing flag "
        "leaves a new empty frame, the clean-stream contract's STATE, so every frame after the first is delivered; without stuffing a frame of the receiver's own cannot survive 2048 octets, so every flag-free frame whose opening flag stands 2048 octets or "
        "more after the noise is delivered. P1: a resync contract of the real ModeDReader.read(): from any reader state whose read position has not passed the end A1 of the first clean readout, a call ends not past A1 or in the clean-stream contract's "
        "STATE at or beyond A1 (the position never jumps over A1; A1 is reached hunting with nothing collected); from A1 on one readout per end line, byte-identical. The state claims (no pending escape after a flag, frames <= 2047 octets, nothing collected "
        "while hunting, collected octets end with a line end) are clauses of the reader invariants.",
   note="Assumed: the descriptions of the clean part (hypotheses of props/clean_hdlc.py / clean_p1.py; '/' only at the start of identification lines; flag-free frames without stuffing), nothing about the bytes before it; inductions over positions and the "
        "composition over calls applied by hand. Bounded cross-checks on the real readers: 400/6000 noise + clean-suffix histories, 150/3000 P1 streams with the resync contract evaluated after every call.",
   technique=DED + "; contracts of read() against ghost functions of the stream position, resync lemma as base/step/final obligations over those contracts", design="DESIGN.md section 9 C16 and 14.10"),
 "C18": dict(level="proof",
   text="Deductive: ghost failure counter on the strategy object - invariant _delay == 2^(n-1) (0 for n == 0), failure/reset/current_delay_sec == min(2^(n-1), max_delay) for every n and every max_delay >= 1 (unbounded, recursive pow2); "
        "_get_back_off_time == max(back-off delay, breaker sleep); loss-breaker update; sequential contract of _try_connect (sleeps exactly the back-off time before the single factory call; failure()/reset() exactly once); loop contract of connect_loop read sequentially (one attempt per iteration and first; breaker updated iff a connection ended while not closing; "
        "the loop never touches pacing state itself; no connection held between iterations), from which the lower bounds of the property follow by a stated composition. "
        "Timing beyond the sequential reading (scheduler slack, an attempt still running after close()) is NOT decided by per-call contracts (stated). An exhaustive enumeration of failure/reset sequences runs as a bounded cross-check.",
   note="Manager-level timing (not decided by the per-call contracts): bounded run of the real connect_loop on a real event loop with a virtual clock, every attempt-outcome sequence up to length 6/8 x 4 configurations. Assumed: datetime/timedelta as real-valued instants; _try_connect and connect_loop read sequentially with the closing event arbitrary at every read, asyncio.wait not raising, connect_loop's task not cancelled; factory returns, raises Exception or is cancelled.",
   technique=DED + "; ghost counter invariant; loop contract of connect_loop (ghost call trace)", design="DESIGN.md section 9 C18 and 14.11"),
 "C19": dict(level="proof",
   text="Deductive, for every history: size postconditions of read() proved from the reader invariants alone - HDLC: no consumed octet retained (len(buffer) <= len(chunk)), frame <= 2047 octets, raw frame data <= 2*2048+1; "
        "P1: len(buffer)+len(collected) <= 8191; loop termination measures. A deep-size measurement on long streams runs as an additional bounded cross-check.",
   note="Retained memory is identified with the reader's byte buffers; per-object interpreter overhead is a constant.", technique=DED + "; size postconditions from class invariants", design="DESIGN.md section 9 C19"),
 "C20": dict(level="other",
   text="Deductive part: to_reduced_str == reduced_str(groups) for all groups 0..255 (string theory with str.from_int), to_group_cdr_str, __hash__, __eq__ (Obis and str operands), from_string, to_obis_tupple as a function of the regex groups "
        "with its exact ValueError condition, language of the combined pattern == the two specified forms, 'no digit-dot => ValueError'. What the capture groups are for a given text (re priority semantics) is assumed and checked by a BOUNDED "
        "conformance / round-trip enumeration on the real code; hence 'other'.",
   note="When part of the deductive side cannot be built (source restructured beyond the contracts), a bounded fallback search on the real code runs instead of leaving the run silent. Bounded: 16 presence patterns x (400 boundary tuples + random) + dotted forms + malformed strings.", technique=DED + " (z3 sequence theory) + regex language equivalence; bounded conformance of re capture groups", design="DESIGN.md section 9 C20"),
}
NA = {
 "C17": "quantifies over asyncio task schedules and the moment close() lands between await points; per-call sequential contracts cannot express it and no installed deductive back end models the event loop (DESIGN section 9 C17)",
}
PENDING = "not claimed yet: contracts for this property are still under construction in this session (see DESIGN.md section 13 for the order of work)"
ALL = [f"C{i:02d}" for i in range(1, 21)]
checks = []
for pid in ALL:
    if pid not in CLAIMED: continue
    c = CLAIMED[pid]
    checks.append({"property_id": pid, "quick_cmd": f"./check {pid} --tier quick", "thorough_cmd": f"./check {pid} --tier thorough",
                   "evidence_file": f"/verif/evidence/{pid}.json", "replay_cmd_template": f"./check {pid} --replay {{path}}", "engine": "pyvc",
                   "level_claimed": {"category": c["level"], "text": c["text"], "design_ref": c["design"]}, "level_note": c["note"], "technique": c["technique"]})
m = {"version": 1, "setup_cmd": "mkdir -p out evidence && python3-vt -c 'import z3; print(z3.get_version_string())'",
     "hooks": {"guard": "AMSHAN_VERIF", "enable": "no hooks: contracts live in sidecar files under /verif/props; the source in /repo is read through ast, not instrumented",
               "baseline_off_cmd": "cd /repo && /venv/bin/python -m pytest -ra -q -p no:cacheprovider --timeout=900", "source_commits": [], "add_only": True},
     "engines": [{"name": "pyvc", "path": "/verif/pyvc", "serves_properties": sorted(CLAIMED), "kind_free_text": "own AST->verification-condition generator for the Python subset used by amshan; z3 5.1.0 (Python API, 16-process pool), bounded refutation pass, replay of models on the real code under /venv/bin/python"}],
     "checks": checks,
     "notes": "exit codes: 0 held, 1 VIOLATION (replay file under out/replays), 2 undecided (no VIOLATION line), 3 checker failure. Known findings: known_findings.json.",
     "not_applicable": [{"property_id": p, "reason": NA.get(p, PENDING)} for p in ALL if p not in CLAIMED]}
json.dump(m, open("/verif/MANIFEST.json", "w"), indent=1)
r = subprocess.run(["python3-vt", "-c", "import json,jsonschema; jsonschema.validate(json.load(open('/verif/MANIFEST.json')), json.load(open('/root/.vp/MANIFEST.schema.json'))); print('MANIFEST valid')"], capture_output=True, text=True)
print(r.stdout + r.stderr)
