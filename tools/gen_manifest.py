#!/usr/bin/env python3
"""Regenerate MANIFEST.json from the table below and validate it against the schema."""
import json, subprocess, sys
CLAIMED = {
 "C03": dict(level="proof",
   text="Deductive: contracts on the real FastFrameCheckSequence16 methods and the table generator; VCs generated from the source on every run; "
        "the step function is proved equal to the bit-serial RFC 1662 definition over all 2^24 (register, octet) pairs, byte strings of every length by the loop invariant / recursive fold, "
        "is_good characterised by the residue lemma. No bound.",
   note="Trusted: pyvc encoding of the Python subset, z3; the table is evaluated by the engine's own concrete interpreter from the source text.",
   technique="contract-based deductive verification: AST->VC generator (pyvc) + z3, bit-vector lemma for the table step, loop invariant over fcs_fold",
   design="DESIGN.md section 9 C03"),
}
NA = {
 "C17": "quantifies over asyncio task schedules and the moment close() lands between await points; per-call sequential contracts cannot express it and no installed deductive back end models the event loop (DESIGN section 9 C17)",
}
PENDING = "not claimed yet: contracts for this property are still under construction in this session (see DESIGN.md section 13 for the order of work)"
ALL = [f"C{i:02d}" for i in range(1, 21)]
checks = []
for pid in ALL:
    if pid not in CLAIMED: continue
    c = CLAIMED[pid]
    checks.append({"property_id": pid, "quick_cmd": f"./check {pid} --tier quick", "thorough_cmd": f"./check {pid} --tier thorough",
                   "evidence_file": f"/verif/evidence/{pid}.json", "replay_cmd_template": f"./check {pid} --replay {{path}}", "engine": "pyvc",
                   "level_claimed": {"category": c["level"], "text": c["text"], "design_ref": c["design"]}, "level_note": c["note"], "technique": c["technique"]})
m = {"version": 1, "setup_cmd": "mkdir -p out evidence && python3-vt -c 'import z3; print(z3.get_version_string())'",
     "hooks": {"guard": "AMSHAN_VERIF", "enable": "no hooks: contracts live in sidecar files under /verif/props; the source in /repo is read through ast, not instrumented",
               "baseline_off_cmd": "cd /repo && /venv/bin/python -m pytest -ra -q -p no:cacheprovider --timeout=900", "source_commits": [], "add_only": True},
     "engines": [{"name": "pyvc", "path": "/verif/pyvc", "serves_properties": sorted(CLAIMED), "kind_free_text": "own AST->verification-condition generator for the Python subset used by amshan; z3 5.1.0 (Python API, 16-process pool), bounded refutation pass, replay of models on the real code under /venv/bin/python"}],
     "checks": checks,
     "notes": "exit codes: 0 held, 1 VIOLATION (replay file under out/replays), 2 undecided (no VIOLATION line), 3 checker failure. Known findings: known_findings.json.",
     "not_applicable": [{"property_id": p, "reason": NA.get(p, PENDING)} for p in ALL if p not in CLAIMED]}
json.dump(m, open("/verif/MANIFEST.json", "w"), indent=1)
r = subprocess.run(["python3-vt", "-c", "import json,jsonschema; jsonschema.validate(json.load(open('/verif/MANIFEST.json')), json.load(open('/root/.vp/MANIFEST.schema.json'))); print('MANIFEST valid')"], capture_output=True, text=True)
print(r.stdout + r.stderr)
