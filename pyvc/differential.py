"""Concrete-mode differential of the symbolic executor against CPython (thorough tier): the engine executes the real source of a
function on CONCRETE inputs (its terms simplify to values) and must agree with the real function run by the interpreter.
This is the cross-check for the encoding of slicing, negative indices, bit operators, truthiness, f-strings, table lookups."""
import random, json, subprocess, os
import z3
from pyvc.engine import *

def conc_bytes(data):
    arr = z3.K(z3.IntSort(), z3.BitVecVal(0, 8))
    for i, b in enumerate(data): arr = z3.Store(arr, i, z3.BitVecVal(b, 8))
    return SBytes(arr, len(data))
def val_of(v):
    """engine value -> python value"""
    if isinstance(v, (SBV, SInt)):
        x = z3.simplify(to_int(v)); return x.as_long() if z3.is_int_value(x) else ("sym", str(x))
    if isinstance(v, SBool):
        x = z3.simplify(v.e); return True if z3.is_true(x) else False if z3.is_false(x) else ("sym", str(x))
    if isinstance(v, SStr):
        x = z3.simplify(v.e); return x.as_string() if z3.is_string_value(x) else ("sym", str(x))
    if isinstance(v, SBytes):
        n = z3.simplify(v.n); 
        if not z3.is_int_value(n): return ("sym", str(n))
        out = []
        for k in range(n.as_long()):
            b = z3.simplify(v.at(k)); out.append(b.as_long() if z3.is_bv_value(b) else -1)
        return bytes(out) if all(x >= 0 for x in out) else ("sym", "bytes")
    if isinstance(v, SOpt):
        isn = z3.simplify(v.isnone)
        if z3.is_true(isn): return None
        if z3.is_false(isn): return val_of(SInt(v.val))
        return ("sym", "opt")
    return v
def run_engine(eng, q, args, self_fields=None):
    fn, mod, cls = eng.funcs[q]
    ctx = Ctx(eng, mod, cls, q); ctx.verifying = q; ctx.fork_implicit = True
    st = State()
    params = [a.arg for a in fn.args.args]
    st.locals = dict(zip(params, args))
    outs = [(st1, flow, val) for st1, flow, val in eng.exec_block(fn.body, st, ctx) if eng.feasible(st1)]
    if len(outs) != 1: return ("paths", len(outs))
    st1, flow, val = outs[0]
    if flow == RAISE: return ("raised", val.exc if not isinstance(val.exc, tuple) else val.exc[0])
    return val_of(val)

def differential(repo, n=150, seed=0):
    """-> {evaluations, disagreements: [...]}"""
    rnd = random.Random(seed); cases = []
    eng = Engine({"han.fastframecheck": f"{repo}/han/fastframecheck.py", "han.obis": f"{repo}/han/obis.py"})
    bad = []; ev = 0
    for _ in range(n):
        ln = rnd.choice([0, 1, 2, 5, 17]); data = bytes(rnd.randrange(256) for _ in range(ln)); s_ = rnd.randrange(0, ln + 2); l_ = rnd.randrange(0, ln + 2)
        got = run_engine(eng, "han.fastframecheck.FastFrameCheckSequence16.compute_checksum", [conc_bytes(data), s_, l_]); cases.append(("compute_checksum", [data.hex(), s_, l_], got))
        crc, b = rnd.randrange(65536), rnd.randrange(256)
        got = run_engine(eng, "han.fastframecheck.FastFrameCheckSequence16._next", [crc, b]); cases.append(("_next", [crc, b], got))
        g = tuple(rnd.choice([None, 0, 1, rnd.randrange(256)]) if k not in (2, 3) else rnd.randrange(256) for k in range(6))
        st = State(); 
        fnq = "han.obis.Obis.to_reduced_str"; fn, mod, cls = eng.funcs[fnq]
        ctx = Ctx(eng, mod, cls, fnq); ctx.verifying = fnq
        ref = st.new_obj("han.obis.Obis", {"_groups": g}); st.locals = {"self": ref}
        outs = list(eng.exec_block(fn.body, st, ctx))
        got = val_of(outs[0][2]) if len(outs) == 1 else ("paths", len(outs)); cases.append(("to_reduced_str", [list(g)], got))
    # run the real functions under the repository's interpreter
    code = r'''
import sys, json
from han.fastframecheck import FastFrameCheckSequence16 as F
from han.obis import Obis
out = []
for name, args in json.load(sys.stdin):
    try:
        if name == "compute_checksum": r = F.compute_checksum(bytes.fromhex(args[0]), args[1], args[2])
        elif name == "_next": r = F._next(args[0], args[1])
        else: r = Obis(tuple(args[0])).to_reduced_str()
    except Exception as ex: r = ["raised", type(ex).__name__]
    out.append(r)
print(json.dumps(out))
'''
    p = subprocess.run([os.environ.get("VERIF_REPO_PYTHON", "/venv/bin/python"), "-c", code], input=json.dumps([[c[0], c[1]] for c in cases]), capture_output=True, text=True, env=dict(os.environ, PYTHONPATH=repo))
    if p.returncode != 0: return {"error": p.stderr[-400:]}
    real = json.loads(p.stdout)
    for (name, args, got), r in zip(cases, real):
        ev += 1
        g = list(got) if isinstance(got, tuple) else got
        if isinstance(g, list) and g and g[0] == "raised" and isinstance(r, list) and r and r[0] == "raised":
            if g[1].split(".")[-1] != r[1]: bad.append({"function": name, "args": args, "engine": g, "cpython": r})
        elif g != r: bad.append({"function": name, "args": args, "engine": g, "cpython": r})
    return {"name": "concrete-mode differential of the executor against CPython", "functions": ["compute_checksum", "_next", "Obis.to_reduced_str"], "evaluations": ev, "disagreements": bad[:5]}
