"""Translate the subset of Python `re` syntax used in amshan (ASCII input) into z3 regular expressions.
Assumed: `re` implements the regular language of the pattern (membership); capture groups are not modelled here.
Supported: literals, escapes (\\d \\w \\r \\n \\. \\/ \\\\ \\* ...), classes [..] with ranges, groups ( ) (?P<n> ) (?: ), | ? * + {m} {m,n}, ^ at the start, $ at the end
($ = end of string or just before a final newline, as in Python without MULTILINE)."""
import z3

class RegexUnsupported(Exception): pass
def _ch(c): return z3.Re(z3.StringVal(c))
def _range(a, b): return z3.Range(a, b)
DIGIT = lambda: _range("0", "9")
WORD = lambda: z3.Union(_range("a", "z"), _range("A", "Z"), _range("0", "9"), _ch("_"))

def translate(pat, anchored_start=True):
    """-> z3 regex for the set of strings s such that re.compile(pat).match(s) succeeds AND consumes all of s up to the final '$'
    (the pattern must end with '$' for full-match semantics; otherwise a trailing 'anything' is appended: match() is a prefix match)"""
    pos = [0]; n = len(pat)
    def peek(): return pat[pos[0]] if pos[0] < n else None
    def eat():
        c = pat[pos[0]]; pos[0] += 1; return c
    def parse_alt():
        branches = [parse_seq()]
        while peek() == "|":
            eat(); branches.append(parse_seq())
        return branches[0] if len(branches) == 1 else z3.Union(*branches)
    def parse_seq():
        items = []
        while peek() is not None and peek() not in "|)":
            items.append(parse_quant())
        if not items: return z3.Re(z3.StringVal(""))
        return items[0] if len(items) == 1 else z3.Concat(*items)
    def parse_quant():
        a = parse_atom()
        while peek() is not None and peek() in "?*+{":
            c = eat()
            if c == "?": a = z3.Option(a)
            elif c == "*": a = z3.Star(a)
            elif c == "+": a = z3.Plus(a)
            else:
                spec = ""
                while peek() != "}": spec += eat()
                eat()
                if "," in spec:
                    lo, hi = spec.split(","); lo = int(lo or 0)
                    if hi == "": a = z3.Concat(z3.Loop(a, lo, lo), z3.Star(a)) if lo else z3.Star(a)
                    else: a = z3.Loop(a, lo, int(hi))
                else: a = z3.Loop(a, int(spec), int(spec))
            if peek() == "?": raise RegexUnsupported("lazy quantifier")
        return a
    def parse_escape(in_class=False):
        c = eat()
        if c == "d": return DIGIT()
        if c == "w": return WORD()
        if c == "r": return _ch("\r")
        if c == "n": return _ch("\n")
        if c == "t": return _ch("\t")
        if c in "sSDWbBAZ": raise RegexUnsupported("escape \\" + c)
        if c.isalnum(): raise RegexUnsupported("escape \\" + c)
        return _ch(c)
    def parse_class():
        neg = False
        if peek() == "^": eat(); neg = True
        parts = []; first = True
        while True:
            c = peek()
            if c is None: raise RegexUnsupported("unterminated class")
            if c == "]" and not first: eat(); break
            first = False
            if c == "\\":
                eat(); e = pat[pos[0]]
                if e in "dw": parts.append(parse_escape(True)); continue
                lo = {"r": "\r", "n": "\n", "t": "\t"}.get(e, e); eat()
            else: lo = eat()
            if peek() == "-" and pos[0] + 1 < n and pat[pos[0] + 1] != "]":
                eat(); hi = eat()
                if hi == "\\": hi = eat()
                parts.append(_range(lo, hi))
            else: parts.append(_ch(lo))
        r = parts[0] if len(parts) == 1 else z3.Union(*parts)
        if neg: raise RegexUnsupported("negated class")
        return r
    def parse_atom():
        c = eat()
        if c == "(":
            if peek() == "?":
                eat(); k = eat()
                if k == "P":
                    if eat() != "<": raise RegexUnsupported("(?P form")
                    while eat() != ">": pass
                elif k != ":": raise RegexUnsupported("(?" + k)
            r = parse_alt()
            if eat() != ")": raise RegexUnsupported("unbalanced (")
            return r
        if c == "[": return parse_class()
        if c == "\\": return parse_escape()
        if c == ".": return z3.Diff(z3.AllChar(z3.ReSort(z3.StringSort())), _ch("\n"))
        if c == "$":
            if pos[0] != n: raise RegexUnsupported("$ not at the end")
            return z3.Option(_ch("\n"))
        if c == "^": raise RegexUnsupported("^ not at the start")
        return _ch(c)
    if pat.startswith("^"): pos[0] = 1
    r = parse_alt()
    if pos[0] != n: raise RegexUnsupported(f"trailing input at {pos[0]}")
    if not pat.endswith("$"): r = z3.Concat(r, z3.Full(z3.ReSort(z3.StringSort())))
    return r

def find_compiled_pattern(tree, var):
    """the string literal given to re.compile(...) in the module-level assignment `var = <compile>(<literal>)`"""
    import ast
    for node in tree.body:
        tgt = node.targets[0] if isinstance(node, ast.Assign) and len(node.targets) == 1 else node.target if isinstance(node, ast.AnnAssign) else None
        if isinstance(tgt, ast.Name) and tgt.id == var and isinstance(node.value, ast.Call) and node.value.args:
            a = node.value.args[0]
            if isinstance(a, ast.Constant) and isinstance(a.value, str): return a.value
    return None
