"""Property runner: build obligations from /repo's current source, discharge, replay refutations on the real code,
match known findings, write evidence, print verdict lines, choose the exit code.

exit 0  every obligation proved, every canary refuted, bounded stand-ins found nothing (KNOWN-FINDING lines allowed)
exit 1  a refuted obligation (or a failing bounded stand-in) not listed as an open known finding:  VIOLATION property=<id> replay=<path>
exit 2  something undecided, nothing refuted (UNDECIDED lines, no VIOLATION line)
exit 3  checker failure (engine disagreement with the real code on a model, a canary that proves, a crash)
"""
from __future__ import annotations
import fnmatch, hashlib, json, os, subprocess, sys, time, traceback
from dataclasses import dataclass, field

VERIF = os.path.dirname(os.path.dirname(os.path.abspath(__file__)))
REPO = os.environ.get("VERIF_REPO", "/repo")
OUT = os.path.join(VERIF, "out")
VENV_PY = os.environ.get("VERIF_REPO_PYTHON", "/venv/bin/python")

COMMON_ASSUMPTIONS = [
    "pyvc (front end, symbolic executor, encodings of DESIGN section 5) is trusted; mitigated by must-fail canaries, replay of every model on the real code, concrete differential runs and the mutation self-test",
    "z3 5.1.0 soundness (thorough tier re-checks proved obligations with z3 4.8.12 / cvc5 where the logic allows)",
    "CPython 3.12 semantics for the operations in the supported subset; no monkey-patching, subclass overriding or attribute injection on the classes under contract; private fields only touched by their class; single-threaded, non-re-entrant use",
    "logging calls have no effect on program state and do not raise (their argument expressions are still checked); MemoryError / RecursionError / KeyboardInterrupt out of scope",
    "ints are mathematical integers; values represented as bit-vectors carry proved range obligations; no machine arithmetic is treated as mathematical",
]

@dataclass
class PropResult:
    obligations: list
    engine: object = None
    functions: list = field(default_factory=list)        # functions under contract
    derived: list = field(default_factory=list)          # functions inlined (derived contract result == body)
    assumptions: list = field(default_factory=list)      # assumed contracts / trusted items specific to the property
    bounded: list = field(default_factory=list)          # bounded stand-ins: dicts {name, bound, evaluations, violations:[{...}], ...}
    not_decided: list = field(default_factory=list)      # clauses of the property this check does not decide (stated, never counted)
    undecided: list = field(default_factory=list)        # (name, reason) for functions the engine could not process
    notes: list = field(default_factory=list)
    level: str = "proof"
    explanation: str = ""

def load_known():
    p = os.path.join(VERIF, "known_findings.json")
    if not os.path.exists(p): return []
    return json.load(open(p)).get("findings", [])

def known_match(pid, oid, witness, known):
    for k in known:
        if k.get("property") != pid or k.get("status") != "open": continue
        if not any(fnmatch.fnmatch(oid, pat) for pat in k.get("obligations", [])): continue
        return k
    return None

def rt_call(pid, fn, payload, timeout=600):
    """run props/<pid>_rt.py:<fn>(payload) under the repository's interpreter against the real code"""
    os.makedirs(OUT, exist_ok=True)
    env = dict(os.environ, PYTHONPATH=REPO + os.pathsep + VERIF, VERIF_REPO=REPO, AMSHAN_VERIF="1")
    code = ("import json,sys,importlib; m=importlib.import_module('props.%s_rt'); "
            "print('@@RT@@'+json.dumps(getattr(m,%r)(json.load(sys.stdin))))" % (pid.lower(), fn))
    p = subprocess.run([VENV_PY, "-c", code], input=json.dumps(payload), capture_output=True, text=True, timeout=timeout, env=env, cwd=VERIF)
    for line in p.stdout.splitlines():
        if line.startswith("@@RT@@"): return json.loads(line[6:])
    return {"error": (p.stdout[-800:] + p.stderr[-1500:])}

def write_replay(pid, name, doc):
    d = os.path.join(OUT, "replays"); os.makedirs(d, exist_ok=True)
    h = hashlib.sha1(json.dumps(doc, sort_keys=True, default=str).encode()).hexdigest()[:10]
    path = os.path.join(d, f"{pid}_{h}.json")
    json.dump(doc, open(path, "w"), indent=1, default=str)
    return path

def run_property(pid, build, tier="quick", seed=0, budget_ms=None, thorough_extra=None, fallback=None):
    from pyvc import solve
    from pyvc.engine import Unsupported
    t0 = time.time()
    tier = os.environ.get("VERIF_TIER", tier) or tier
    if tier not in ("quick", "thorough"): tier = "quick"
    try: seed = int(os.environ.get("VERIF_SEED", seed))
    except ValueError: seed = 0
    os.makedirs(OUT, exist_ok=True); os.makedirs(os.path.join(VERIF, "evidence"), exist_ok=True)
    lines = []; exit_code = 0
    if tier == "thorough": os.environ.setdefault("VERIF_CROSS", "1")
    try:
        res = build(REPO, tier, seed)
    except Unsupported as ex:
        res = PropResult([], undecided=[("build", f"source outside the supported subset: {ex}")])
    except (SyntaxError, KeyError, FileNotFoundError) as ex:
        res = PropResult([], undecided=[("build", f"{type(ex).__name__}: {ex}\n{traceback.format_exc()[-1200:]}")])
    if res.undecided and fallback is not None:
        # part of the deductive side could not be built (e.g. the source keeps its state in another representation than the contracts talk about): the property is then
        # at least searched for a violation on the real code - bounded, labelled as such; a violation found this way is reported with its input, nothing found leaves `undecided`
        try:
            have = {b.get("name") for b in res.bounded}
            for b in fallback(REPO, tier, seed):
                if b.get("name") not in have: b = dict(b, only_because_undecided=True); res.bounded.append(b)
        except Exception as ex:
            res.bounded.append({"name": "fallback search", "error": repr(ex)})
    obls = res.obligations
    if budget_ms is None: budget_ms = 12000 if tier == "quick" else 60000
    if obls and not getattr(res, "pre_discharged", False):
        solve.discharge(res.engine, obls, budget_ms=budget_ms)
    cross = list(getattr(res, "cross", []) or [])
    if tier == "thorough" and obls and not getattr(res, "pre_discharged", False):
        try: cross.append({"group": "main", **solve.cross_check_many(res.engine, obls, max_n=300, seed=seed)})
        except Exception as ex: cross.append({"group": "main", "error": repr(ex)})
    solver_s = round(sum(o.secs for o in obls), 2)
    known = load_known()
    canaries = [o for o in obls if o.expect_refuted]
    real = [o for o in obls if not o.expect_refuted]
    violations = []; known_hits = []; undecided = list(res.undecided); disagreements = []
    for o in canaries:
        if o.result == "proved":
            disagreements.append(f"canary {o.oid} was PROVED (it is a false statement): the checker is unsound or vacuous")
    errors = [o for o in obls if o.result == "error"]
    for o in errors: disagreements.append(f"solver worker crashed on {o.oid}: {o.detail[-300:]}")
    # group refuted obligations by (function, kind-name) so one defect gives one replay
    seen_groups = {}; history_cache = {}
    for o in real:
        if o.result == "undecided": undecided.append((o.oid, o.detail)); continue
        if o.result != "refuted": continue
        key = o.oid.split(".")[0] if "#" not in o.oid else o.oid.rsplit(".", 1)[0]
        if key in seen_groups: seen_groups[key]["also"].append(o.oid); continue
        rec = {"property": pid, "obligation": o.oid, "function": o.func, "kind": o.kind, "line": o.line, "solver": o.backend, "solver_detail": o.detail,
               "model": o.model, "also": []}
        seen_groups[key] = rec
        replay = None
        if o.meta.get("replay"):
            try: replay = rt_call(pid, o.meta["replay"], {"witness": o.model, "obligation": o.oid})
            except Exception as ex: replay = {"error": repr(ex)}
        if o.meta.get("overapprox") and not (replay and replay.get("violated")):
            # the path read a field the contract's view does not constrain (any stored kind of value was assumed): the model counts only
            # if a history through the public interface of the real code shows the same clause failing
            hk = (o.meta.get("history_replay", "history_search"), tuple(o.meta["overapprox"]))
            if hk not in history_cache:
                try: history_cache[hk] = rt_call(pid, hk[0], {"obligation": o.oid, "fields": list(hk[1]), "seed": seed}, timeout=600)
                except Exception as ex: history_cache[hk] = {"error": repr(ex)}
            replay = history_cache[hk]
            if not (replay and replay.get("violated")):
                undecided.append((o.oid, f"over-approximated field(s) {o.meta['overapprox']}: no history of the real code reproduces the model; obligation stays undecided ({str(replay)[:160]})"))
                del seen_groups[key]; continue
        rec["replay_on_real_code"] = replay
        k = known_match(pid, o.oid, o.model, known)
        if replay and replay.get("violated") is False and isinstance(o.model, dict) and o.model.get("relaxed_candidate"):
            undecided.append((o.oid, "relaxed candidate model did not violate the contract on the real code; obligation stays undecided")); del seen_groups[key]; continue
        if replay and replay.get("violated") is False and not replay.get("inconclusive"):
            disagreements.append(f"ENGINE-DISAGREEMENT {o.oid}: solver model does not violate the contract on the real code: {json.dumps(replay)[:400]}")
            continue
        if k is not None:
            known_hits.append((k, o)); continue
        violations.append(rec)
    for b in res.bounded:
        for v in b.get("violations", []):
            k = known_match(pid, "bounded:" + b["name"], v, known)
            rec = {"property": pid, "obligation": "bounded:" + b["name"], "bound": b.get("bound"), "failing_input": v, "also": []}
            if k is not None: known_hits.append((k, None)); continue
            violations.append(rec)
        if b.get("error"): disagreements.append(f"bounded stand-in {b['name']} crashed: {str(b['error'])[-400:]}")
    printed_known = set()
    for k, o in known_hits:
        if k["id"] in printed_known: continue
        printed_known.add(k["id"]); lines.append(f"KNOWN-FINDING: property={pid} {k['what']}")
    for rec in violations:
        path = write_replay(pid, rec["obligation"], rec)
        rp = rec.get("replay_on_real_code")
        confirmed = bool(rp and rp.get("violated")) or "failing_input" in rec
        lines.append(f"VIOLATION property={pid} replay={path}" + ("" if confirmed else " no-failing-input-found"))
        lines.append(f"  failed obligation: {rec['obligation']}" + (f" (+{len(rec['also'])} more on the same clause)" if rec["also"] else ""))
        if rp and rp.get("violated"): lines.append(f"  replayed on the real code: {json.dumps(rp.get('detail', rp))[:300]}")
    for oid, why in undecided[:40]: lines.append(f"UNDECIDED obligation={oid} {str(why)[:200]}")
    for c in cross:
        for oid in c.get("disagreed", []): disagreements.append(f"CROSS-SOLVER-DISAGREEMENT {oid}: proved by z3 5.1.0, `sat` by {c.get('solver')}")
    for d in disagreements: lines.append(d)
    confirmed_any = any(bool(r.get("replay_on_real_code") and r["replay_on_real_code"].get("violated")) or "failing_input" in r for r in violations)
    # a violation replayed on the real code stands whatever else went wrong in the same run (disagreements are still printed); without one, a disagreement is a checker failure
    if confirmed_any: exit_code = 1
    elif disagreements: exit_code = 3
    elif violations: exit_code = 1
    elif undecided: exit_code = 2
    elif not real and not res.bounded: exit_code = 3; lines.append("no obligations were generated: vacuous run")
    proved = [o for o in real if o.result == "proved"]
    level = res.level
    by_backend = {}
    for o in proved: by_backend[o.backend] = by_backend.get(o.backend, 0) + 1
    slow = sorted(real, key=lambda o: -o.secs)[:5]
    def sample(o):
        return {"obligation": o.oid, "function": o.func, "line": o.line, "hypotheses": len(o.hyps), "goal": str(o.goal)[:240].replace("\n", " "), "result": o.result, "solver_s": o.secs, "backend": o.backend}
    cov = {
        "obligations": len(real), "discharged": len(proved),
        "checker_cmd": f"cd /verif && ./check {pid} --tier {tier}",
        "trusted_base": COMMON_ASSUMPTIONS[:2] + list(res.assumptions),
        "functions_under_contract": sorted(set(res.functions)),
        "derived_contracts_inlined": sorted(set(res.derived)),
        "discharged_by_backend": by_backend, "solver_s_total": solver_s,
        "slowest": [{"obligation": o.oid, "solver_s": o.secs} for o in slow],
        "canaries_must_fail": len(canaries), "canaries_refuted": sum(1 for o in canaries if o.result == "refuted"),
        "refuted": [o.oid for o in real if o.result == "refuted"][:50],
        "undecided": [u[0] for u in undecided][:50],
        "known_findings_hit": sorted(printed_known),
        "bounded": [{k: v for k, v in b.items() if k != "violations"} | {"violations": len(b.get("violations", []))} for b in res.bounded],
        "not_decided_clauses": res.not_decided,
        "samples": [sample(o) for o in (real[:2] + real[len(real)//2:len(real)//2+1] + slow[:1])],
        "explanation": res.explanation or "contracts on the real functions (source re-read through ast on this run), VCs generated by pyvc, discharged by z3; see DESIGN.md",
        "per_obligation": [{"id": o.oid, "result": o.result, "backend": o.backend, "solver_s": o.secs} for o in real] if len(real) <= 400 else
                          [{"id": o.oid, "result": o.result, "backend": o.backend, "solver_s": o.secs} for o in real if o.result != "proved" or o.secs > 0.5],
        "engine_stats": getattr(res.engine, "stats", {}),
        "cross_solver": cross,
        "notes": res.notes,
    }
    if res.bounded:
        cov["evaluations"] = sum(int(b.get("evaluations", 0)) for b in res.bounded)
        cov["distinct_nontrivial"] = sum(int(b.get("distinct_nontrivial", 0)) for b in res.bounded)
    if tier == "thorough":
        try:
            from pyvc import differential as _D
            dres = _D.differential(REPO, n=150, seed=seed)
        except Exception as ex:
            dres = {"error": repr(ex)}
        cov["executor_differential"] = dres
        if dres.get("disagreements"):
            lines.append(f"EXECUTOR-DISAGREEMENT: the symbolic executor and CPython disagree on concrete inputs: {json.dumps(dres['disagreements'][0])[:300]}")
            exit_code = 3
    if tier == "thorough" and os.path.realpath(REPO) == "/repo" and not os.environ.get("VERIF_NO_SELFTEST"):
        st_res = mutation_self_test(pid)
        cov["mutation_self_test"] = st_res
        if st_res.get("survivors"):
            lines.append(f"SELF-TEST: {len(st_res['survivors'])} seeded mutant(s) survived the quick check of {pid}: the contracts are too weak there (checker weakness, not a verdict about the code)")
            if exit_code == 0: exit_code = 3
    ev = {"property_id": pid, "tier": tier, "seed": seed, "level": level, "coverage": cov,
          "assumptions": COMMON_ASSUMPTIONS + list(res.assumptions), "wall_s": round(time.time() - t0, 2), "violations": len(violations)}
    evdir = os.path.join(VERIF, "evidence") if os.path.realpath(REPO) == "/repo" else os.path.join(OUT, "evidence_scratch")
    os.makedirs(evdir, exist_ok=True)
    json.dump(ev, open(os.path.join(evdir, f"{pid}.json"), "w"), indent=1, default=str)
    print(f"[{pid}] tier={tier} obligations={len(real)} proved={len(proved)} refuted={sum(1 for o in real if o.result=='refuted')} undecided={len(undecided)} "
          f"canaries={cov['canaries_refuted']}/{len(canaries)} bounded={len(res.bounded)} solver_s={solver_s} wall_s={ev['wall_s']}")
    for l in lines: print(l)
    return exit_code


def mutation_self_test(pid):
    """thorough tier: every mutant of props/mutants.py for this property, on a scratch copy outside /repo and /verif (removed afterwards),
    must make the quick check leave exit 0"""
    import shutil, tempfile
    try:
        from props.mutants import M
    except Exception as ex:
        return {"error": repr(ex)}
    out = {"mutants": 0, "killed": 0, "survivors": [], "details": []}
    for rel, old, new, what in M.get(pid, []):
        d = tempfile.mkdtemp(prefix="amshan_selftest_")
        try:
            shutil.copytree(REPO, d + "/repo", ignore=shutil.ignore_patterns(".git", "__pycache__", "*.egg-info"))
            pth = os.path.join(d, "repo", rel); src = open(pth).read()
            if src.count(old) != 1:
                out["details"].append({"mutant": what, "skipped": "pattern does not occur exactly once (source changed)"}); continue
            open(pth, "w").write(src.replace(old, new))
            p = subprocess.run([os.path.join(VERIF, "check"), pid, "--tier", "quick"], env=dict(os.environ, VERIF_REPO=d + "/repo", VERIF_TIER="quick"), capture_output=True, text=True, timeout=1800)
            out["mutants"] += 1
            first = next((l.strip() for l in p.stdout.splitlines() if "failed obligation" in l), None)
            if p.returncode != 0: out["killed"] += 1
            else: out["survivors"].append(what)
            out["details"].append({"mutant": what, "exit": p.returncode, "first_failed_obligation": first})
        finally:
            shutil.rmtree(d, ignore_errors=True)
    return out
