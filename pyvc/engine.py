"""pyvc: verification-condition generator for the Python subset used by toreamun/amshan.

The real source files under /repo are parsed with `ast` on every run (never imported); functions are executed
symbolically (forward, path by path); contracts are supplied by the sidecar drivers in /verif/props as Python
callables that build z3 terms.  Every obligation is a (hypotheses, goal) pair discharged by z3 / cvc5 (solve.py).

Values
  python int/bool/None/str/tuple/list (concrete) | SInt(z3 Int) | SBV(z3 BitVec: a non-negative bounded python int)
  SBool(z3 Bool) | SBytes(arr, n, off) offset view of a byte string | SOpt(isnone, val) Optional[int], split lazily
  SStr(z3 String) | Ref(oid) object in the symbolic heap | Raised(exc-class-name) | ("kind", ...) callables
State: locals, heap (oid -> (cls, {field: value})), pc (list of z3 Bool), ghost dict
"""
from __future__ import annotations
import ast, itertools, time
import copy as _copy
from dataclasses import dataclass, field
import z3

# ----------------------------------------------------------------------------- values
class SInt:
    def __init__(s, e): s.e = e
    def __repr__(s): return f"SInt({s.e})"
class SBV:
    def __init__(s, e): s.e = e; s.w = e.size()
    def __repr__(s): return f"SBV{s.w}({s.e})"
class SBool:
    def __init__(s, e): s.e = e
    def __repr__(s): return f"SBool({s.e})"
class SStr:
    def __init__(s, e): s.e = e
    def __repr__(s): return f"SStr({s.e})"
class SBytes:
    """byte string as an offset view: element k is arr[off + k], 0 <= k < n.  Slicing shifts the view (no fresh array)."""
    def __init__(s, arr, n, off=0):
        s.arr = arr; s.n = n if isinstance(n, z3.ExprRef) else z3.IntVal(n); s.off = off if isinstance(off, z3.ExprRef) else z3.IntVal(off)
    def at(s, k): return z3.Select(s.arr, z3.simplify(s.off + k))
    def __repr__(s): return f"SBytes(len={s.n},off={s.off})"
class STxt(SBytes):
    """str obtained by decoding ASCII bytes: the same offset view, character k is the octet arr[off+k] (< 0x80)"""
FSORT = z3.DeclareSort("PyFloat")           # IEEE-754 binary64 values as an abstract sort: float expressions are compared structurally
F_OF_INT = z3.Function("float_of_int", z3.IntSort(), FSORT)                    # float(i), exact for |i| < 2^53
F_CONST = z3.Function("float_const", z3.RealSort(), FSORT)                     # a Python float literal / constant, by its exact rational value
F_MUL = z3.Function("float_mul", FSORT, FSORT, FSORT); F_ROUND = z3.Function("float_round", FSORT, z3.IntSort(), FSORT)
F_DIV = z3.Function("float_div", FSORT, FSORT, FSORT); F_ADD = z3.Function("float_add", FSORT, FSORT, FSORT)
F_OF_DEC = z3.Function("float_of_decimal", z3.IntSort(), z3.IntSort(), FSORT)  # float(Decimal(m) * 10**e), correctly rounded (assumed)
class SFloat:
    def __init__(s, e): s.e = e
    def __repr__(s): return f"SFloat({s.e})"
def to_float(v):
    if isinstance(v, SFloat): return v.e
    if isinstance(v, float):
        n, d = v.as_integer_ratio(); return F_CONST(z3.RealVal(n) / z3.RealVal(d))
    if isinstance(v, bool): raise TypeError("bool as float")
    if isinstance(v, (int, SInt, SBV)): return F_OF_INT(to_int(v))
    raise TypeError(f"to_float {v!r}")
def float_binop(op, a, b, node):
    x, y = to_float(a), to_float(b)
    if isinstance(op, ast.Mult): return SFloat(F_MUL(x, y))
    if isinstance(op, ast.Div): return SFloat(F_DIV(x, y))
    if isinstance(op, ast.Add): return SFloat(F_ADD(x, y))
    raise Unsupported(f"float operator {type(op).__name__} line {getattr(node, 'lineno', 0)}")
class SIte:
    """value of a conditional expression whose branches have different kinds (e.g. int vs float): cond ? a : b"""
    def __init__(s, c, a, b): s.c = c; s.a = a; s.b = b
NOMERGE = object()
def merge_values(c, a, b):
    """one value standing for `a if c else b`, or NOMERGE"""
    intlike = lambda v: isinstance(v, (int, SInt, SBV)) and not isinstance(v, bool)
    if a is None and b is None: return None
    if intlike(a) and intlike(b): return SInt(z3.If(c, to_int(a), to_int(b)))
    if intlike(a) and b is None: return SOpt(z3.Not(c), to_int(a))
    if a is None and intlike(b): return SOpt(c, to_int(b))
    if isinstance(a, (bool, SBool)) and isinstance(b, (bool, SBool)): return SBool(z3.If(c, to_bool(a), to_bool(b)))
    if isinstance(a, SFloat) and isinstance(b, SFloat): return SFloat(z3.If(c, a.e, b.e))
    if (intlike(a) or isinstance(a, SFloat)) and (intlike(b) or isinstance(b, SFloat)): return SIte(c, a, b)
    if isinstance(a, tuple) and a and a[0] == "tz_min" and b is None: return ("tz_opt", z3.Not(c), a[1])
    if isinstance(b, tuple) and b and b[0] == "tz_min" and a is None: return ("tz_opt", c, b[1])
    return NOMERGE
def same_value(a, b):
    """structural identity of two engine values (no solver)"""
    if a is b: return True
    if type(a) is not type(b): return False
    if isinstance(a, (SInt, SBV, SBool, SStr, SFloat)): return a.e.eq(b.e) and getattr(a, "w", 0) == getattr(b, "w", 0)
    if isinstance(a, (SBytes,)): return a.arr.eq(b.arr) and z3.simplify(a.n == b.n).eq(z3.BoolVal(True)) and z3.simplify(to_int(a.off) == to_int(b.off)).eq(z3.BoolVal(True))
    if isinstance(a, SOpt): return a.isnone.eq(b.isnone) and a.val.eq(b.val)
    if isinstance(a, (tuple, list)): return len(a) == len(b) and all(same_value(x, y) for x, y in zip(a, b))
    if isinstance(a, z3.ExprRef): return a.eq(b)
    if isinstance(a, (int, str, bytes, float, bool, Ref, Raised)) or a is None: return a == b
    return False
def merge_numeric(c, a, b):
    """`a if c else b` for number-valued slots only (int / float kinds); NOMERGE otherwise (statement-level joins stay conservative)"""
    num = lambda v: (isinstance(v, (int, SInt, SBV)) and not isinstance(v, bool)) or isinstance(v, (SFloat, SIte))
    if isinstance(a, int) and isinstance(b, int): return NOMERGE          # two concrete values: keep the paths (later code may need the concrete number)
    bvs = [v for v in (a, b) if isinstance(v, SBV)]
    if bvs and all(isinstance(v, SBV) or (isinstance(v, int) and not isinstance(v, bool) and v >= 0) for v in (a, b)):
        w = max([v.w for v in bvs] + [max(1, v.bit_length()) for v in (a, b) if isinstance(v, int)])       # bounded values stay bounded (bit operators need the width)
        return SBV(z3.If(c, to_bv(a, w), to_bv(b, w)))
    if num(a) and num(b) and not isinstance(a, SIte) and not isinstance(b, SIte): return merge_values(c, a, b)
    if num(a) and num(b): return SIte(c, a, b)
    return NOMERGE
def merge_states(c, base, sa, sb):
    """join of the two branch states of `if c:` (both fell through normally): slots that differ must all be numeric; the branch-local path
    facts become implications.  Returns the merged state or None."""
    n0 = len(base.pc) + 1
    if set(sa.locals) != set(sb.locals) or set(sa.heap) != set(sb.heap) or set(sa.ghost) != set(sb.ghost): return None
    def slot(a, b):
        if same_value(a, b): return a
        if type(a) is dict and type(b) is dict and list(a) == list(b):
            out = {}
            for k in a:
                v = slot(a[k], b[k])
                if v is NOMERGE: return NOMERGE
                out[k] = v
            return out
        return merge_numeric(c, a, b)
    m = sa.fork(); m.pc = list(base.pc) + [z3.Implies(c, h) for h in sa.pc[n0:]] + [z3.Implies(z3.Not(c), h) for h in sb.pc[n0:]]
    for k in sa.locals:
        v = slot(sa.locals[k], sb.locals[k])
        if v is NOMERGE: return None
        m.locals[k] = v
    for k in sa.ghost:
        v = slot(sa.ghost[k], sb.ghost[k])
        if v is NOMERGE: return None
        m.ghost[k] = v
    for oid, (ca, fa) in sa.heap.items():
        cb, fb = sb.heap[oid]
        if ca != cb or set(fa) != set(fb): return None
        for fk in fa:
            v = slot(fa[fk], fb[fk])
            if v is NOMERGE: return None
            m.heap[oid][1][fk] = v
    return m
class SOpt:
    """Optional[int]: isnone (z3 Bool) + val (z3 Int), split lazily at `is None` tests"""
    def __init__(s, isnone, val): s.isnone = isnone; s.val = val
    def __repr__(s): return f"SOpt({s.isnone},{s.val})"
class SAny:
    """an object the engine knows nothing about except where it came from (e.g. a value read back from state kept between calls)"""
    def __init__(s, origin): s.origin = origin
    def __repr__(s): return f"SAny({s.origin})"
class SList:
    """list of abstract items (ints naming them) with symbolic length: element k is arr[k]"""
    def __init__(s, arr, n): s.arr = arr; s.n = n
class GhostList:
    """a result list whose elements are checked when they are appended (Engine.list_append_hook) and not tracked afterwards"""
    def __init__(s, name, nonempty=None): s.name = name; s.nonempty = nonempty if nonempty is not None else fresh(name + "_nonempty", z3.BoolSort())
class SStrList:
    """list of strings of symbolic length (str.split / str.splitlines results): element k is arr[k]"""
    def __init__(s, arr, n): s.arr = arr; s.n = n
STR_ARR = z3.ArraySort(z3.IntSort(), z3.StringSort())
@dataclass(frozen=True)
class Ref:
    oid: int
@dataclass(frozen=True)
class Raised:
    exc: str
    info: object = None
    cond_of: object = None      # optional {class name: z3 Bool}: when the alternatives of a multi-class exception are split by a handler, each side learns which class it was

BYTE_ARR = z3.ArraySort(z3.IntSort(), z3.BitVecSort(8))
INT_ARR = z3.ArraySort(z3.IntSort(), z3.IntSort())
_fresh = itertools.count()
def fresh(prefix, sort):
    return z3.Const(f"{prefix}__{next(_fresh)}", sort)

def is_sym(v): return isinstance(v, (SInt, SBV, SBool, SBytes, SOpt, SStr, SList, SFloat, SStrList))

_CUR = {"ctx": None, "st": None, "node": None}
def to_int(v):
    """value -> z3 Int term"""
    if isinstance(v, bool): return z3.IntVal(int(v))
    if isinstance(v, int): return z3.IntVal(v)
    if isinstance(v, z3.ArithRef): return v
    if isinstance(v, SInt): return v.e
    if isinstance(v, SBV): return z3.BV2Int(v.e)
    if isinstance(v, SBool): return z3.If(v.e, 1, 0)
    if isinstance(v, SOpt):
        if _CUR["ctx"] is not None: _CUR["ctx"].oblige(_CUR["st"], "safe:not-none", z3.Not(v.isnone), _CUR["node"])
        return v.val
    raise TypeError(f"to_int {v!r}")
def to_bv(v, w):
    if isinstance(v, int) and not isinstance(v, bool):
        assert 0 <= v < (1 << w), (v, w)
        return z3.BitVecVal(v, w)
    if isinstance(v, SBV):
        if v.w == w: return v.e
        assert v.w < w, (v.w, w)
        return z3.ZeroExt(w - v.w, v.e)
    raise TypeError(f"to_bv {v!r}")
def to_bool(v):
    """python truthiness as z3 Bool"""
    if isinstance(v, bool): return z3.BoolVal(v)
    if v is None: return z3.BoolVal(False)
    if isinstance(v, int): return z3.BoolVal(v != 0)
    if isinstance(v, z3.BoolRef): return v
    if isinstance(v, SBool): return v.e
    if isinstance(v, SInt): return v.e != 0
    if isinstance(v, SBV): return v.e != 0
    if isinstance(v, SBytes): return v.n != 0
    if isinstance(v, SStr): return z3.Length(v.e) != 0
    if isinstance(v, (SList, SStrList)): return v.n != 0
    if isinstance(v, GhostList): return v.nonempty
    if isinstance(v, SOpt): return z3.And(z3.Not(v.isnone), v.val != 0)
    if isinstance(v, Ref): return z3.BoolVal(True)
    if isinstance(v, (list, tuple, str, bytes, dict)): return z3.BoolVal(len(v) != 0)
    raise TypeError(f"to_bool {v!r}")
def to_str(v):
    if isinstance(v, str): return z3.StringVal(v)
    if isinstance(v, SStr): return v.e
    raise TypeError(f"to_str {v!r}")
def width_of(v):
    if isinstance(v, SBV): return v.w
    if isinstance(v, int) and not isinstance(v, bool) and v >= 0: return max(1, v.bit_length())
    return None
def is_none_z3(v): return v.isnone if isinstance(v, SOpt) else z3.BoolVal(v is None)
def int_nochk(v): return v.val if isinstance(v, SOpt) else z3.IntVal(0) if v is None else to_int(v)

# ----------------------------------------------------------------------------- state
class State:
    def __init__(s):
        s.locals = {}; s.heap = {}; s.pc = []; s.ghost = {}
    def fork(s):
        cp = lambda v: list(v) if type(v) is list else dict(v) if type(v) is dict else _copy.copy(v) if type(v) is GhostList else v      # plain mutable containers are per path (parse trees are immutable values)
        t = State(); t.locals = {k: cp(v) for k, v in s.locals.items()}; t.pc = list(s.pc); t.ghost = {k: cp(v) for k, v in s.ghost.items()}
        t.heap = {k: (c, {fk: cp(fv) for fk, fv in f.items()}) for k, (c, f) in s.heap.items()}
        return t
    def new_obj(s, cls, fields=None):
        oid = max(s.heap, default=0) + 1
        s.heap[oid] = (cls, dict(fields or {}))
        return Ref(oid)
    def getf(s, ref, name): return s.heap[ref.oid][1][name]
    def setf(s, ref, name, v): s.heap[ref.oid][1][name] = v
    def cls(s, ref): return s.heap[ref.oid][0]

def adopt(st, rd, rd2, sub=("_buffer",)):
    """havoc by replacement that keeps object identities: the fields of the freshly made symbolic object rd2 move onto the existing object rd, and the fields of
    its sub-objects named in `sub` onto the existing sub-objects (locals of the function under verification may alias either, e.g. `buffer = self._buffer`)"""
    old_fields = st.heap[rd.oid][1]; new_cls, new_fields = st.heap[rd2.oid]; new_fields = dict(new_fields)
    for name in sub:
        o, n = old_fields.get(name), new_fields.get(name)
        if isinstance(o, Ref) and isinstance(n, Ref) and o.oid in st.heap and n.oid in st.heap and o.oid != n.oid:
            st.heap[o.oid] = st.heap[n.oid]; del st.heap[n.oid]; new_fields[name] = o
    st.heap[rd.oid] = (new_cls, new_fields); del st.heap[rd2.oid]

class Unsupported(Exception): pass

_light_cache = {}
_uf_for = {}
def _light(e):
    """the form of a hypothesis used in path-feasibility checks: quantified facts are dropped and recursive spec functions are
    replaced by uninterpreted ones (weaker facts: a path can only look *more* feasible, which is sound, and the check stays cheap)"""
    k = e.get_id()
    r = _light_cache.get(k)
    if r is not None: return r[0]
    seen = set(); stack = [e]; quant = False; recs = {}
    while stack:
        x = stack.pop()
        if x.get_id() in seen: continue
        seen.add(x.get_id())
        if z3.is_quantifier(x): quant = True; break
        if z3.is_app(x):
            if z3.is_seq(x) or z3.is_re(x): quant = True; break       # string constraints are left out as well (slow in feasibility checks; dropping is sound)
            d = x.decl()
            if d.kind() == z3.Z3_OP_RECURSIVE: recs[d.name()] = d
            stack.extend(x.children())
    if quant: res = None
    elif not recs: res = e
    else:
        subs = []
        for nm, d in recs.items():
            if nm not in _uf_for:
                doms = [d.domain(i) for i in range(d.arity())]
                _uf_for[nm] = z3.Function(nm + "__uf", *doms, d.range())
            subs.append((d, _uf_for[nm](*[z3.Var(i, d.domain(i)) for i in range(d.arity())])))
        res = z3.substitute_funs(e, *subs)
    _light_cache[k] = (res, e)      # keep e alive so that ids are not reused
    return res

@dataclass
class Obligation:
    oid: str
    hyps: list
    goal: object
    line: int = 0
    reveal: bool = False          # substitute the transparent face of opaque spec functions before solving
    kind: str = ""
    func: str = ""
    use_axioms: bool = True
    expect_refuted: bool = False  # must-fail canary
    meta: dict = field(default_factory=dict)
    result: str = ""
    secs: float = 0.0
    backend: str = ""
    model: object = None
    detail: str = ""

NORMAL, RETURN, RAISE, BREAK, CONTINUE = "normal", "return", "raise", "break", "continue"

DEFAULT_EXC_PARENTS = {
    "UnicodeDecodeError": "UnicodeError", "UnicodeError": "ValueError", "ValueError": "Exception", "KeyError": "LookupError",
    "IndexError": "LookupError", "LookupError": "Exception", "TypeError": "Exception", "AttributeError": "Exception",
    "AssertionError": "Exception", "ZeroDivisionError": "ArithmeticError", "OverflowError": "ArithmeticError", "ArithmeticError": "Exception",
    "StopIteration": "Exception", "CancelledError": "BaseException",
    "construct.ConstructError": "Exception", "construct.ExplicitError": "construct.ConstructError", "Exception": "BaseException"}

class Engine:
    def __init__(s, modules: dict):
        """modules: dotted name -> file path"""
        s.paths = dict(modules)
        s.sources = {m: open(p).read() for m, p in modules.items()}
        s.trees = {m: ast.parse(src) for m, src in s.sources.items()}
        s.funcs = {}      # qualname -> (ast.FunctionDef, module, classname|None)
        s.classes = {}    # qualname -> ast.ClassDef
        s.bases = {}      # class qualname -> [base class qualnames known to the engine]
        s.consts = {}     # qualname -> value (module / class constants evaluated concretely by this engine)
        s.contracts = {}  # qualname -> Contract
        s.loop_specs = {}   # (qualname, loop_no) -> (inv_fn, dec_fn, {local: bit-width})
        s.prelude_axioms = []
        s.reveal_defs = []      # [(opaque FuncDecl, transparent body over z3.Var)] -- "reveal" by substitution
        s.refute_defs = []      # additional substitutions for the bounded refutation pass (fully transparent faces)
        s.prelude_methods = {}  # method name -> fn(eng, st, base, args, ctx, node) for SBytes/SStr receivers
        s.py_calls = {"typing.cast": lambda e, st, args, kw, ctx, node: [(st, args[1])],
                      "enum.auto": lambda e, st, args, kw, ctx, node: [(st, ("enumval", next(_fresh)))]}         # dotted name of an external callable -> fn(eng, st, args, kw, ctx, node)
        s.cuts = {}             # (qualname, selector) -> fn(st, eng) -> z3 Bool, asserted+assumed after the statement
        s.exc_parents = dict(DEFAULT_EXC_PARENTS)
        s.len_vars = []         # z3 Int constants that are lengths of symbolic sequences (bounded in the refutation pass)
        s.stats = {"paths": 0, "feasibility_checks": 0}
        s.derived = set()       # functions inlined at a call site (derived contract result == body)
        for m, t in s.trees.items():
            for node in t.body:
                if isinstance(node, (ast.FunctionDef, ast.AsyncFunctionDef)): s.funcs[f"{m}.{node.name}"] = (node, m, None)
                elif isinstance(node, ast.ClassDef):
                    s.classes[f"{m}.{node.name}"] = node
                    for sub in node.body:
                        if isinstance(sub, (ast.FunctionDef, ast.AsyncFunctionDef)):
                            s.funcs[f"{m}.{node.name}.{sub.name}"] = (sub, m, f"{m}.{node.name}")
        for m, t in s.trees.items():
            for node in t.body:
                if isinstance(node, ast.ClassDef):
                    bs = []
                    for b in node.bases:
                        nm = ast.unparse(b).split("[")[0]
                        for cand in (f"{m}.{nm}",) + tuple(f"{mm}.{nm.split('.')[-1]}" for mm in s.trees):
                            if cand in s.classes: bs.append(cand); break
                    s.bases[f"{m}.{node.name}"] = bs
        # module- and class-level statements, in source order, executed by this engine in concrete mode (assignments, loops that fill
        # tables, ...): what the constants are is what the source on disk computes, not what an imported module happens to hold
        for m, t in s.trees.items():
            s._exec_toplevel(m, None, t.body)
            for node in t.body:
                if isinstance(node, ast.ClassDef): s._exec_toplevel(m, f"{m}.{node.name}", node.body)

    def _exec_toplevel(s, m, cls, body):
        ms = State(); ctx = Ctx(s, m, cls, f"{cls or m}.<toplevel>")
        for node in body:
            if isinstance(node, (ast.FunctionDef, ast.AsyncFunctionDef, ast.ClassDef, ast.Import, ast.ImportFrom)): continue
            if isinstance(node, ast.Expr) and isinstance(node.value, ast.Constant): continue
            try:
                trial = ms.fork()
                res = s.exec(node, trial, ctx)
                if len(res) == 1 and res[0][1] == NORMAL: ms = res[0][0]
            except (Unsupported, KeyError, TypeError, AssertionError, ValueError, IndexError, AttributeError, ZeroDivisionError, RecursionError):
                continue
            for name, v in ms.locals.items():
                if name.startswith("__") or is_sym(v) or isinstance(v, Raised): continue
                s.consts[f"{cls or m}.{name}"] = v

    def _try_const(s, m, cls, node):
        name = node.targets[0].id
        st = State(); ctx = Ctx(s, m, cls, f"{cls or m}.<const {name}>")
        try:
            outs = s.eval(node.value, st, ctx)
            if len(outs) == 1 and not is_sym(outs[0][1]) and not isinstance(outs[0][1], Raised):
                s.consts[f"{cls or m}.{name}"] = outs[0][1]
        except (Unsupported, KeyError, TypeError, AssertionError, ValueError, IndexError, AttributeError):
            pass

    def is_subclass_of(s, cls, base):
        if cls == base: return True
        return any(s.is_subclass_of(b, base) for b in s.bases.get(cls, []))

    # ------------------------------------------------------------------ expression evaluation
    # eval returns list of (state, value); value may be Raised(..) which callers must propagate
    def eval(s, e, st, ctx):
        m = getattr(s, "e_" + type(e).__name__, None)
        if m is None: raise Unsupported(f"expr {type(e).__name__} at line {getattr(e,'lineno',0)}")
        _CUR.update(ctx=ctx, st=st, node=e)
        return m(e, st, ctx)

    def eval_seq(s, exprs, st, ctx):
        """evaluate expressions left to right -> list of (state, [values]) or (state, Raised)"""
        outs = [(st, [])]
        for ex in exprs:
            nxt = []
            for st1, vs in outs:
                if isinstance(vs, Raised): nxt.append((st1, vs)); continue
                for st2, v in s.eval(ex, st1, ctx):
                    nxt.append((st2, v if isinstance(v, Raised) else vs + [v]))
            outs = nxt
        return outs

    def e_Lambda(s, e, st, ctx):
        return [(st, ("closure", e, dict(st.locals), ctx.module, ctx.cls, ctx.qual))]
    def x_FunctionDef(s, stmt, st, ctx):
        st.locals[stmt.name] = ("closure", stmt, dict(st.locals), ctx.module, ctx.cls, ctx.qual); return [(st, NORMAL, None)]
    def call_closure(s, clo, st, args, ctx, node):
        _, fn, env, module, cls, qual = clo
        params = [a.arg for a in fn.args.args]
        if len(args) != len(params) or fn.args.vararg or fn.args.kwonlyargs: raise Unsupported(f"closure call arity line {node.lineno}")
        if ctx.depth > 12: raise Unsupported("closure depth")
        sub = Ctx(s, module, cls, qual, parent=ctx)
        saved = st.locals; st.locals = {**env, **dict(zip(params, args))}
        st.locals["$entry"] = tuple(args)          # ghost: the arguments on entry (parameters may be reassigned), for `old(param)` in invariants
        outs = []
        if isinstance(fn, ast.Lambda):
            for st1, v in s.eval(fn.body, st, sub):
                st1.locals = dict(saved); outs.append((st1, v))
            return outs
        for st1, flow, val in s.exec_block(fn.body, st, sub):
            st1.locals = dict(saved)
            if flow in (NORMAL, RETURN): outs.append((st1, val if flow == RETURN else None))
            elif flow == RAISE: outs.append((st1, val))
            else: raise Unsupported(f"flow {flow} out of a nested function")
        return outs
    def e_Constant(s, e, st, ctx): return [(st, e.value)]
    def e_NamedExpr(s, e, st, ctx):
        outs = []
        for st1, v in s.eval(e.value, st, ctx):
            if not isinstance(v, Raised): s.assign(e.target, v, st1, ctx)
            outs.append((st1, v))
        return outs
    def e_Yield(s, e, st, ctx):
        """inside a generator function executed eagerly (see inline): the yielded value is appended to the ghost list of results"""
        if "$yielded" not in st.locals: raise Unsupported(f"yield outside an eagerly evaluated generator line {e.lineno}")
        outs = []
        for st1, v in (s.eval(e.value, st, ctx) if e.value is not None else [(st, None)]):
            if not isinstance(v, Raised): st1.locals["$yielded"] = list(st1.locals["$yielded"]) + [v]
            outs.append((st1, v if isinstance(v, Raised) else None))
        return outs
    def e_Await(s, e, st, ctx):
        # sequential reading of a coroutine: `await x` evaluates x; what other tasks may do at the suspension point is the sidecar's rely condition
        hook = getattr(s, "await_hook", None)
        outs = []
        for st1, v in s.eval(e.value, st, ctx):
            if hook is not None and not isinstance(v, Raised): hook(st1, ctx, e)
            outs.append((st1, v))
        return outs
    def e_Name(s, e, st, ctx):
        if e.id in st.locals:
            v = st.locals[e.id]
            if isinstance(v, tuple) and len(v) == 3 and v[0] == "fieldref": return [(st, st.getf(v[1], v[2]))]      # a local that aliases a mutable byte buffer held in a field
            return [(st, v)]
        for q in (f"{ctx.cls}.{e.id}" if ctx.cls else None, f"{ctx.module}.{e.id}"):
            if q and q in s.consts: return [(st, s.consts[q])]
        if f"{ctx.module}.{e.id}" in s.classes: return [(st, ("class", f"{ctx.module}.{e.id}"))]
        if f"{ctx.module}.{e.id}" in s.funcs: return [(st, ("func", f"{ctx.module}.{e.id}"))]
        if e.id in ctx.imports: return [(st, ctx.imports[e.id])]
        if e.id in ("range", "len", "bytes", "bytearray", "cast", "int", "bool", "super", "isinstance", "max", "min", "abs", "str", "float", "round", "next", "hasattr", "all", "any", "list", "hash", "enumerate", "zip", "tuple", "dict", "sorted", "reversed", "getattr"):
            return [(st, ("builtin", e.id))]
        if e.id in s.exc_parents or e.id in ("ValueError", "Exception"): return [(st, ("excclass", e.id))]
        # a module-level name whose defining statement could not be evaluated when the module was loaded (e.g. a library object a sidecar models): evaluate it now
        for node in s.trees[ctx.module].body:
            tgt = node.targets[0] if isinstance(node, ast.Assign) and len(node.targets) == 1 else node.target if isinstance(node, ast.AnnAssign) and node.value is not None else None
            if isinstance(tgt, ast.Name) and tgt.id == e.id:
                tctx = Ctx(s, ctx.module, None, f"{ctx.module}.<toplevel>")
                r = s.eval(node.value, State(), tctx)
                if len(r) == 1 and not isinstance(r[0][1], Raised):
                    s.consts[f"{ctx.module}.{e.id}"] = r[0][1]; return [(st, r[0][1])]
        raise Unsupported(f"name {e.id} line {e.lineno}")

    def mangle(s, attr, ctx):
        if attr.startswith("__") and not attr.endswith("__") and ctx.cls: return "_" + ctx.cls.split(".")[-1].lstrip("_") + attr
        return attr
    def e_Attribute(s, e, st, ctx):
        out = []
        for st1, base in s.eval(e.value, st, ctx):
            if isinstance(base, Raised): out.append((st1, base)); continue
            out += s.getattr(st1, base, s.mangle(e.attr, ctx), ctx, e)
        return out

    def getattr(s, st, base, attr, ctx, node):
        hook = getattr(s, "getattr_hook", None)
        if hook is not None and not isinstance(base, Ref):
            r = hook(st, base, attr, ctx, node)
            if r is not None: return r
        if isinstance(base, Ref):
            cls = st.cls(base); flds = st.heap[base.oid][1]
            if attr in flds: return [(st, flds[attr])]
            q = s.lookup_method(cls, attr)
            if q is None and attr.startswith("_") and "__" in attr[1:]:
                q = s.lookup_method(cls, attr[attr.index("__", 1):])         # name-mangled private method
            if q:
                fn = s.funcs[q][0]
                decs = {ast.unparse(d) for d in fn.decorator_list}
                if "property" in decs: return s.call(q, st, [base], ctx, node)
                if "staticmethod" in decs: return [(st, ("func", q))]
                if "classmethod" in decs: return [(st, ("bound", q, ("class", cls)))]
                return [(st, ("bound", q, base))]
            c = s.lookup_const(cls, attr)
            if c is not None: return [(st, c[0])]
            alts = s.infer_field(cls, attr)
            if alts:
                # a field the contract's view of the object does not mention (e.g. a cache added to the class): it holds *some* value of the
                # kinds the class stores there.  Over-approximation: obligations on such paths are marked, and a model counts only if a
                # history through the public interface reproduces it on the real code.
                out = []
                for kind in alts:
                    st2 = st.fork(); v = None if kind == "none" else SBool(fresh(f"fld_{attr}", z3.BoolSort())) if kind == "bool" else SInt(fresh(f"fld_{attr}", z3.IntSort()))
                    st2.setf(base, attr, v); st2.ghost["$overapprox"] = tuple(st2.ghost.get("$overapprox", ())) + (f"{cls}.{attr}",)
                    out.append((st2, v))
                s.stats["inferred_fields"] = s.stats.get("inferred_fields", 0) + 1
                return out
            raise Unsupported(f"attr {attr} on {cls} line {getattr(node,'lineno',0)}")
        if isinstance(base, tuple) and base and base[0] == "class":
            c = s.lookup_const(base[1], attr)
            if c is not None: return [(st, c[0])]
            q = s.lookup_method(base[1], attr)
            if q:
                decs = {ast.unparse(d) for d in s.funcs[q][0].decorator_list}
                if "classmethod" in decs: return [(st, ("bound", q, base))]
                return [(st, ("func", q))]
            raise Unsupported(f"class attr {base[1]}.{attr}")
        if isinstance(base, tuple) and base and base[0] == "super":
            for b in s.bases.get(base[1], []):
                c = s.lookup_const(b, attr)
                if c is not None: return [(st, c[0])]
                q = s.lookup_method(b, attr)
                if q: return [(st, ("bound", q, base[2]))]
            return [(st, ("noop",))]
        if isinstance(base, tuple) and base and base[0] == "module":
            q = f"{base[1]}.{attr}"
            if q in s.consts: return [(st, s.consts[q])]
            if q in s.classes: return [(st, ("class", q))]
            if q in s.funcs: return [(st, ("func", q))]
            raise Unsupported(f"module attr {q}")
        if isinstance(base, tuple) and base == ("builtin", "dict") and attr == "fromkeys":
            def fromkeys(e_, st_, args, ctx_, node_):
                if not (1 <= len(args) <= 2 and isinstance(args[0], (list, tuple)) and all(not is_sym(k) for k in args[0])): raise Unsupported("dict.fromkeys form")
                return [(st_, {k: (args[1] if len(args) == 2 else None) for k in args[0]})]
            return [(st, ("abstract", fromkeys))]
        if isinstance(base, tuple) and base and base[0] in ("pymodule", "pyattr"):
            return [(st, ("pyattr", base[1] + "." + attr))]
        if isinstance(base, (SBytes, SStr, list, str, SList, dict, GhostList, SStrList)):
            return [(st, ("bmeth", base, attr, node))]
        hook = getattr(s, "getattr_hook", None)
        if hook is not None:
            r = hook(st, base, attr, ctx, node)
            if r is not None: return r
        raise Unsupported(f"getattr {attr} on {base!r} line {getattr(node,'lineno',0)}")

    def mutated_tables(s):
        """module-level dict / list constants that some function of the repository modifies (subscript store or a mutating method)"""
        if getattr(s, "_mutated", None) is None:
            names = set()
            for q, (fn, m, k) in s.funcs.items():
                for n in ast.walk(fn):
                    base = None
                    if isinstance(n, (ast.Assign, ast.AugAssign, ast.AnnAssign)):
                        for t in (n.targets if isinstance(n, ast.Assign) else [n.target]):
                            if isinstance(t, ast.Subscript): base = t.value
                    elif isinstance(n, ast.Delete):
                        for t in n.targets:
                            if isinstance(t, ast.Subscript): base = t.value
                    elif isinstance(n, ast.Call) and isinstance(n.func, ast.Attribute) and n.func.attr in ("update", "append", "extend", "clear", "pop", "insert", "remove", "setdefault", "sort", "reverse", "popitem"):
                        base = n.func.value
                    if isinstance(base, ast.Name) and f"{m}.{base.id}" in s.consts: names.add(f"{m}.{base.id}")
                    elif isinstance(base, ast.Attribute) and isinstance(base.value, ast.Name) and k and f"{k}.{base.attr}" in s.consts: names.add(f"{k}.{base.attr}")
            s._mutated = names
        return s._mutated
    def kept_state_read(s, st, base, default_value):
        """a read with a symbolic key from a table that functions of the repository modify: what it holds depends on earlier calls.  Either the
        key is absent (default / KeyError by the caller) or some stored object comes back; paths are marked as over-approximated."""
        owner = next((k for k, v in s.consts.items() if v is base), None)
        if owner is None or owner not in s.mutated_tables(): return None
        a = st.fork(); b = st.fork()
        for x in (a, b): x.ghost["$overapprox"] = tuple(x.ghost.get("$overapprox", ())) + (f"state kept in {owner}",)
        return [(a, default_value), (b, SAny(owner))]

    def infer_field(s, cls, attr):
        """kinds of value ('none' / 'bool' / 'int') the class's own methods store into self.<attr>; None when the field is not assigned in
        __init__ (then a constructed object need not have it) or when some stored expression is of a kind this inference does not know"""
        kinds = []; in_init = False
        for c in [cls] + list(s.bases.get(cls, [])):
            for q, (fn, _m, k) in s.funcs.items():
                if k != c or not q.startswith(c + "."): continue
                for n in ast.walk(fn):
                    tgt = val = None
                    if isinstance(n, ast.Assign) and len(n.targets) == 1: tgt, val = n.targets[0], n.value
                    elif isinstance(n, ast.AnnAssign) and n.value is not None: tgt, val = n.target, n.value
                    elif isinstance(n, ast.AugAssign): tgt, val = n.target, n
                    if not (isinstance(tgt, ast.Attribute) and isinstance(tgt.value, ast.Name) and tgt.value.id == "self" and tgt.attr == attr): continue
                    if fn.name == "__init__": in_init = True
                    if isinstance(val, ast.Constant) and val.value is None: kinds.append("none")
                    elif (isinstance(val, ast.Constant) and isinstance(val.value, bool)) or isinstance(val, (ast.Compare, ast.BoolOp)) or (isinstance(val, ast.UnaryOp) and isinstance(val.op, ast.Not)): kinds.append("bool")
                    elif isinstance(val, ast.Constant) and isinstance(val.value, int): kinds.append("int")
                    else: return None
        if not in_init or not kinds: return None
        return sorted(set(kinds))

    def lookup_method(s, cls, name):
        q = f"{cls}.{name}"
        if q in s.funcs: return q
        for b in s.bases.get(cls, []):
            r = s.lookup_method(b, name)
            if r: return r
        return None
    def lookup_const(s, cls, name):
        q = f"{cls}.{name}"
        if q in s.consts: return (s.consts[q],)
        for b in s.bases.get(cls, []):
            r = s.lookup_const(b, name)
            if r is not None: return r
        return None

    def e_BoolOp(s, e, st, ctx):
        is_and = isinstance(e.op, ast.And)
        def rec(i, st_i):
            outs = []
            for st2, v in s.eval(e.values[i], st_i, ctx):
                if isinstance(v, Raised) or i == len(e.values) - 1: outs.append((st2, v)); continue
                c = z3.simplify(to_bool(v))
                if z3.is_true(c):
                    outs += rec(i + 1, st2) if is_and else [(st2, v)]
                elif z3.is_false(c):
                    outs += [(st2, v)] if is_and else rec(i + 1, st2)
                else:
                    sa = st2.fork(); sa.pc.append(c)
                    sb = st2.fork(); sb.pc.append(z3.Not(c))
                    simple = (not is_sym(v)) or isinstance(v, SBool)
                    if is_and: outs += rec(i + 1, sa) + [(sb, False if simple else v)]
                    else: outs += [(sa, True if simple else v)] + rec(i + 1, sb)
            return outs
        return rec(0, st)

    def e_UnaryOp(s, e, st, ctx):
        out = []
        for st1, v in s.eval(e.operand, st, ctx):
            if isinstance(v, Raised): out.append((st1, v)); continue
            if isinstance(e.op, ast.Not):
                c = z3.simplify(z3.Not(to_bool(v)))
                out.append((st1, True if z3.is_true(c) else False if z3.is_false(c) else SBool(c)))
            elif isinstance(e.op, ast.USub):
                out.append((st1, -v if isinstance(v, int) else SInt(-to_int(v))))
            else: raise Unsupported("unary")
        return out

    def e_IfExp(s, e, st, ctx):
        out = []
        for st1, c in s.eval(e.test, st, ctx):
            if isinstance(c, Raised): out.append((st1, c)); continue
            parts = s.split(st1, c, check=True)
            if len(parts) == 2:
                # both branches feasible: try to merge the two values into one (no path split) when neither branch raises or forks
                (sa, _), (sb, _) = parts; n0 = len(st1.pc) + 1
                ra = s.eval(e.body, sa, ctx); rb = s.eval(e.orelse, sb, ctx)
                if len(ra) == 1 and len(rb) == 1 and not isinstance(ra[0][1], Raised) and not isinstance(rb[0][1], Raised):
                    cz = sa.pc[len(st1.pc)]
                    mv = merge_values(cz, ra[0][1], rb[0][1])
                    if mv is not NOMERGE:
                        stm = st1.fork()
                        stm.pc += [z3.Implies(cz, h) for h in ra[0][0].pc[n0:]] + [z3.Implies(z3.Not(cz), h) for h in rb[0][0].pc[n0:]]
                        out.append((stm, mv)); continue
                out += ra + rb; continue
            for st2, branch in parts:
                out += s.eval(e.body if branch else e.orelse, st2, ctx)
        return out

    def split(s, st, cond, check=False):
        c = z3.simplify(to_bool(cond))
        if z3.is_true(c): return [(st, True)]
        if z3.is_false(c): return [(st, False)]
        a = st.fork(); a.pc.append(c); b = st.fork(); b.pc.append(z3.Not(c))
        res = [(a, True), (b, False)]
        if check: res = [(x, y) for x, y in res if s.feasible(x)]
        return res

    def e_Compare(s, e, st, ctx):
        outs = []
        def rec(st_i, left, idx):
            res = []
            for st2, right in s.eval(e.comparators[idx], st_i, ctx):
                if isinstance(right, Raised): res.append((st2, right)); continue
                c = s.compare(e.ops[idx], left, right, st2, ctx, e)
                if idx == len(e.ops) - 1: res.append((st2, c))
                else:
                    for st3, b in s.split(st2, c):
                        res += rec(st3, right, idx + 1) if b else [(st3, False)]
            return res
        for st1, left in s.eval(e.left, st, ctx):
            if isinstance(left, Raised): outs.append((st1, left)); continue
            outs += rec(st1, left, 0)
        return outs

    def compare(s, op, a, b, st=None, ctx=None, node=None):
        hook = getattr(s, "compare_hook", None)
        if hook is not None:
            r = hook(op, a, b)
            if r is not None: return r
        if isinstance(op, (ast.In, ast.NotIn)):
            r = s.contains(a, b)
            if isinstance(op, ast.NotIn): r = (not r) if isinstance(r, bool) else SBool(z3.Not(r.e))
            return r
        if isinstance(op, (ast.Is, ast.IsNot)) and (isinstance(a, SOpt) or isinstance(b, SOpt)):
            o, other = (a, b) if isinstance(a, SOpt) else (b, a)
            if other is not None: raise Unsupported("SOpt identity with non-None")
            return SBool(o.isnone) if isinstance(op, ast.Is) else SBool(z3.Not(o.isnone))
        if isinstance(op, (ast.Is, ast.IsNot)):
            same = (a is None and b is None) or (isinstance(a, Ref) and isinstance(b, Ref) and a == b) or \
                   (isinstance(a, tuple) and isinstance(b, tuple) and a == b)          # abstract objects are named by tagged tuples
            if (a is None) != (b is None): same = False
            return same if isinstance(op, ast.Is) else not same
        if isinstance(a, SOpt) or isinstance(b, SOpt):
            o, other = (a, b) if isinstance(a, SOpt) else (b, a)
            if isinstance(op, (ast.Eq, ast.NotEq)):
                if isinstance(other, SOpt): eq = z3.Or(z3.And(o.isnone, other.isnone), z3.And(z3.Not(o.isnone), z3.Not(other.isnone), o.val == other.val))
                else: eq = o.isnone if other is None else z3.And(z3.Not(o.isnone), o.val == to_int(other))
                return SBool(eq if isinstance(op, ast.Eq) else z3.Not(eq))
        if a is None or b is None:
            r = (a is None and b is None)
            if isinstance(op, ast.Eq): return r
            if isinstance(op, ast.NotEq): return not r
            raise Unsupported("ordering with None")
        if isinstance(a, (SStr, str)) and isinstance(b, (SStr, str)) and (is_sym(a) or is_sym(b)):
            if isinstance(op, ast.Eq): return SBool(to_str(a) == to_str(b))
            if isinstance(op, ast.NotEq): return SBool(to_str(a) != to_str(b))
            raise Unsupported("string ordering")
        if isinstance(a, tuple) and isinstance(b, tuple) and isinstance(op, (ast.Eq, ast.NotEq)) and not (a and isinstance(a[0], str) and a[0] in ("class", "func")):
            if len(a) != len(b): return isinstance(op, ast.NotEq)
            parts = [to_bool(s.compare(ast.Eq(), x, y, st, ctx, node)) for x, y in zip(a, b)]
            eq = z3.simplify(z3.And(*parts)) if parts else z3.BoolVal(True)
            r = eq if isinstance(op, ast.Eq) else z3.Not(eq)
            r = z3.simplify(r)
            return True if z3.is_true(r) else False if z3.is_false(r) else SBool(r)
        if not is_sym(a) and not is_sym(b) and not isinstance(a, Ref):
            return {ast.Eq: lambda: a == b, ast.NotEq: lambda: a != b, ast.Lt: lambda: a < b, ast.LtE: lambda: a <= b, ast.Gt: lambda: a > b, ast.GtE: lambda: a >= b}[type(op)]()
        if isinstance(a, (bytes, SBytes)) or isinstance(b, (bytes, SBytes)):
            # int vs bytes comparison (e.g. char == b"!") is simply False in Python
            if isinstance(a, (bytes, SBytes)) != isinstance(b, (bytes, SBytes)):
                if isinstance(op, ast.Eq): return False
                if isinstance(op, ast.NotEq): return True
            if isinstance(op, (ast.Eq, ast.NotEq)):
                # byte strings of which one has a known short length: same length and the same octets (no quantifier needed)
                def klen(v):
                    if isinstance(v, bytes): return len(v)
                    n_ = z3.simplify(v.n); return n_.as_long() if z3.is_int_value(n_) else None
                ka, kb = klen(a), klen(b)
                short, other = (a, b) if ka is not None and ka <= 32 else (b, a) if kb is not None and kb <= 32 else (None, None)
                if short is not None and (isinstance(a, SBytes) or isinstance(b, SBytes)):
                    k_ = klen(short); ref = a if isinstance(a, SBytes) else b
                    esort = ref.arr.sort().range()
                    lit = (lambda v: z3.BitVecVal(v, esort.size())) if z3.is_bv_sort(esort) else (lambda v: z3.IntVal(v))
                    el = lambda v, k: lit(v[k]) if isinstance(v, bytes) else v.at(z3.IntVal(k))
                    ln = lambda v: z3.IntVal(len(v)) if isinstance(v, bytes) else v.n
                    eq = z3.And(ln(other) == k_, *[el(short, k) == el(other, k) for k in range(k_)])
                    return SBool(eq if isinstance(op, ast.Eq) else z3.Not(eq))
            raise Unsupported(f"bytes comparison {a!r} {b!r}")
        if isinstance(a, SBV) or isinstance(b, SBV):
            wa, wb = width_of(a), width_of(b)
            if wa is not None and wb is not None:
                w = max(wa, wb); x, y = to_bv(a, w), to_bv(b, w)
                z = {ast.Eq: lambda: x == y, ast.NotEq: lambda: x != y, ast.Lt: lambda: z3.ULT(x, y), ast.LtE: lambda: z3.ULE(x, y), ast.Gt: lambda: z3.UGT(x, y), ast.GtE: lambda: z3.UGE(x, y)}[type(op)]()
                return SBool(z)
        x, y = to_int(a), to_int(b)
        z = {ast.Eq: lambda: x == y, ast.NotEq: lambda: x != y, ast.Lt: lambda: x < y, ast.LtE: lambda: x <= y, ast.Gt: lambda: x > y, ast.GtE: lambda: x >= y}[type(op)]()
        return SBool(z)

    def contains(s, item, coll):
        if isinstance(coll, tuple) and len(coll) == 2 and coll[0] == "range" and isinstance(coll[1], list) and 1 <= len(coll[1]) <= 2:
            lo, hi = (0, coll[1][0]) if len(coll[1]) == 1 else coll[1]
            if item is None or isinstance(item, (str, SStr)): return False
            if not is_sym(item) and not is_sym(lo) and not is_sym(hi): return item in range(lo, hi)
            x = to_int(item); return SBool(z3.And(x >= to_int(lo), x < to_int(hi)))
        if isinstance(coll, (tuple, list, dict)) and not is_sym(item): return item in coll
        if isinstance(coll, (tuple, list, dict)):
            keys = list(coll)
            parts = [to_bool(s.compare(ast.Eq(), item, k)) for k in keys]
            return SBool(z3.Or(*parts)) if parts else False
        if isinstance(coll, SBytes) and isinstance(item, (int, SInt, SBV)) and not isinstance(item, bool):
            # octet in <byte string>: some position holds it
            k = fresh("k_in", z3.IntSort()); w = item if isinstance(item, int) else None
            val = z3.BitVecVal(item, 8) if w is not None else (to_bv(item, 8) if isinstance(item, SBV) and item.w <= 8 else z3.Int2BV(to_int(item), 8))
            inrange = z3.BoolVal(0 <= item <= 255) if w is not None else z3.And(to_int(item) >= 0, to_int(item) <= 255)
            return SBool(z3.And(inrange, z3.Exists([k], z3.And(k >= 0, k < coll.n, coll.at(k) == val))))
        raise Unsupported("in on symbolic collection")

    def e_BinOp(s, e, st, ctx):
        out = []
        for st1, vs in s.eval_seq([e.left, e.right], st, ctx):
            out.append((st1, vs if isinstance(vs, Raised) else s.binop(e.op, vs[0], vs[1], e, st1, ctx)))
        return out

    def binop(s, op, a, b, node, st=None, ctx=None):
        hook = getattr(s, "binop_hook", None)
        if hook is not None:
            r = hook(op, a, b, node, st, ctx)
            if r is not None: return r
        if isinstance(a, SFloat) or isinstance(b, SFloat) or (isinstance(a, float) and is_sym(b)) or (isinstance(b, float) and is_sym(a)):
            return float_binop(op, a, b, node)
        if isinstance(a, (str, SStr)) and isinstance(b, (str, SStr)) and isinstance(op, ast.Add):
            if not is_sym(a) and not is_sym(b): return a + b
            return SStr(z3.Concat(to_str(a), to_str(b)))
        if not is_sym(a) and not is_sym(b):
            import operator as o
            f = {ast.Add: o.add, ast.Sub: o.sub, ast.Mult: o.mul, ast.BitXor: o.xor, ast.BitAnd: o.and_, ast.BitOr: o.or_,
                 ast.LShift: o.lshift, ast.RShift: o.rshift, ast.FloorDiv: o.floordiv, ast.Mod: o.mod, ast.Pow: o.pow, ast.Div: o.truediv}[type(op)]
            return f(a, b)
        bitop = isinstance(op, (ast.BitXor, ast.BitAnd, ast.BitOr))
        if bitop:
            wa, wb = width_of(a), width_of(b)
            if wa is None or wb is None: raise Unsupported(f"bit operator on unbounded int line {node.lineno}")
            w = max(wa, wb)
            x, y = to_bv(a, w), to_bv(b, w)
            r = {ast.BitXor: lambda: x ^ y, ast.BitAnd: lambda: x & y, ast.BitOr: lambda: x | y}[type(op)]()
            if isinstance(op, ast.BitAnd):  # result fits the narrower operand
                nw = min(wa, wb)
                if nw < w: r = z3.Extract(nw - 1, 0, r)
            return SBV(r)
        if isinstance(op, ast.RShift) and isinstance(a, SBV) and isinstance(b, int):
            return SBV(z3.LShR(a.e, b)) if b < a.w else 0
        if isinstance(op, ast.LShift) and isinstance(a, SBV) and isinstance(b, int):
            return SBV(z3.ZeroExt(b, a.e) << b)
        x, y = to_int(a), to_int(b)
        if isinstance(op, ast.Add): return SInt(x + y)
        if isinstance(op, ast.Sub): return SInt(x - y)
        if isinstance(op, ast.Mult): return SInt(x * y)
        if isinstance(op, ast.Mod) and isinstance(b, int) and b > 0: return SInt(x % y)
        if isinstance(op, ast.FloorDiv) and isinstance(b, int) and b > 0: return SInt(x / y)
        raise Unsupported(f"binop {type(op).__name__} line {node.lineno}")

    def e_Subscript(s, e, st, ctx):
        out = []
        for st1, base in s.eval(e.value, st, ctx):
            if isinstance(base, Raised): out.append((st1, base)); continue
            if isinstance(e.slice, ast.Slice):
                parts = [x if x is not None else ast.Constant(value=None) for x in (e.slice.lower, e.slice.upper)]
                for st3, vs in s.eval_seq(parts, st1, ctx):
                    out.append((st3, vs if isinstance(vs, Raised) else s.slice(st3, base, vs[0], vs[1], ctx, e)))
            else:
                for st2, idx in s.eval(e.slice, st1, ctx):
                    if isinstance(idx, Raised): out.append((st2, idx)); continue
                    out += s.index(st2, base, idx, ctx, e)
        return out

    def implicit_failure(s, st, ctx, kind, ok, exc, node):
        """a language-level operation that fails unless `ok`.  Either a safety obligation (default) or, when the
        function's contract admits exceptions (ctx.fork_implicit), a forked exceptional edge.  Returns [(state, None|Raised)]"""
        okc = z3.simplify(ok) if isinstance(ok, z3.ExprRef) else z3.BoolVal(bool(ok))
        if z3.is_true(okc): return [(st, None)]
        if ctx.root.fork_implicit:
            outs = []
            if not z3.is_false(okc):
                a = st.fork(); a.pc.append(okc); outs.append((a, None))
            b = st.fork(); b.pc.append(z3.Not(okc))
            if s.feasible(b): outs.append((b, Raised(exc, kind)))
            return outs
        ctx.oblige(st, kind, okc, node); st.pc.append(okc)
        return [(st, None)]

    def index(s, st, base, idx, ctx, node):
        if isinstance(base, (list, tuple, str, bytes)) and isinstance(idx, int) and not isinstance(idx, bool):
            res = []
            for st1, r in s.implicit_failure(st, ctx, "safe:index", -len(base) <= idx < len(base), "IndexError", node):
                res.append((st1, r if r is not None else base[idx]))
            return res
        if isinstance(base, dict):
            if not is_sym(idx):
                res = []
                for st1, r in s.implicit_failure(st, ctx, "safe:key", idx in base, "KeyError", node):
                    res.append((st1, r if r is not None else base[idx]))
                return res
            hook = getattr(s, "index_hook", None)
            r = hook(st, base, idx, ctx, node) if hook is not None else None
            if r is not None: return r
            raise Unsupported("symbolic dict key")
        if isinstance(base, list) and is_sym(idx):
            if all(isinstance(x, int) and not isinstance(x, bool) for x in base) and isinstance(idx, SBV):
                # concrete table with symbolic index (the CRC table): balanced if-then-else tree over the index bits (pure bit-vectors)
                w = max(1, max(x.bit_length() for x in base)); iw = idx.w
                def tree(lo_, hi_, bit):
                    if hi_ - lo_ == 1 or bit < 0: return z3.BitVecVal(base[lo_] if lo_ < len(base) else 0, w)
                    mid = lo_ + (1 << bit)
                    return z3.If(z3.Extract(bit, bit, idx.e) == 1, tree(mid, hi_, bit - 1), tree(lo_, mid, bit - 1))
                lookup = tree(0, 1 << iw, iw - 1) if iw <= 12 else None
                if lookup is None: raise Unsupported("table index wider than 12 bits")
                ok = z3.BoolVal(True)
                if not (len(base) >= (1 << iw)): ok = z3.ULT(z3.ZeroExt(32 - iw, idx.e), z3.BitVecVal(len(base), 32))
                res = []
                for st1, r in s.implicit_failure(st, ctx, "safe:index", ok, "IndexError", node):
                    res.append((st1, r if r is not None else SBV(lookup)))
                return res
            ie = to_int(idx); res = []
            for st1, r in s.implicit_failure(st, ctx, "safe:index", z3.And(ie >= 0, ie < len(base)), "IndexError", node):
                if r is not None: res.append((st1, r)); continue
                for k, item in enumerate(base):
                    sk = st1.fork(); sk.pc.append(ie == k)
                    if s.feasible(sk): res.append((sk, item))
            return res
        if isinstance(base, SBytes):
            i = to_int(idx); n = base.n; res = []
            for st1, r in s.implicit_failure(st, ctx, "safe:index", z3.And(i >= -n, i < n), "IndexError", node):
                if r is not None: res.append((st1, r)); continue
                if (isinstance(idx, int) and idx >= 0) or isinstance(idx, SBV): i2 = i
                else:
                    neg = st1.fork(); neg.pc.append(i < 0)      # negative indices count from the end; skip the case split when the path excludes them
                    i2 = z3.If(i < 0, i + n, i) if s.feasible(neg) else i
                res.append((st1, SBV(base.at(i2))))
            return res
        if isinstance(base, SStrList):
            i = to_int(idx); res = []
            for st1, r in s.implicit_failure(st, ctx, "safe:index", z3.And(i >= -base.n, i < base.n), "IndexError", node):
                res.append((st1, r if r is not None else SStr(z3.Select(base.arr, z3.If(i < 0, i + base.n, i)))))
            return res
        if isinstance(base, SStr):
            i = to_int(idx); n = z3.Length(base.e); res = []
            for st1, r in s.implicit_failure(st, ctx, "safe:index", z3.And(i >= -n, i < n), "IndexError", node):
                if r is not None: res.append((st1, r)); continue
                i2 = i if (isinstance(idx, int) and idx >= 0) else z3.If(i < 0, i + n, i)
                res.append((st1, SStr(z3.SubString(base.e, i2, 1))))
            return res
        hook = getattr(s, "index_hook", None)
        if hook is not None:
            r = hook(st, base, idx, ctx, node)
            if r is not None: return r
        raise Unsupported(f"index on {base!r} line {node.lineno}")

    def slice(s, st, base, lo, hi, ctx, node):
        if isinstance(base, (list, tuple, str, bytes)) and not is_sym(lo) and not is_sym(hi): return base[lo:hi]
        if isinstance(base, SBytes):
            n = base.n
            def can(c):
                t = st.fork(); t.pc.append(c); return s.feasible(t)
            def norm(v, default):
                if v is None: return default
                x = to_int(v)
                if isinstance(v, int) and v >= 0: return x if not can(x > n) else z3.If(x > n, n, x)
                neg, big = can(x < 0), can(x > n)         # drop the clamping cases the path condition excludes (keeps index terms linear)
                if not neg and not big: return x
                if not neg: return z3.If(x > n, n, x)
                return z3.If(x < 0, z3.If(x + n < 0, 0, x + n), z3.If(x > n, n, x))
            l, h = norm(lo, z3.IntVal(0)), norm(hi, n)
            ln = h - l if not can(h < l) else z3.If(h > l, h - l, 0)
            return base.__class__(base.arr, z3.simplify(ln), z3.simplify(base.off + l))
        if isinstance(base, (SStr, str)):
            e = to_str(base); n = z3.Length(e)
            def norm(v, default):
                if v is None: return default
                x = to_int(v)
                return z3.If(x < 0, z3.If(x + n < 0, 0, x + n), z3.If(x > n, n, x))
            l, h = norm(lo, z3.IntVal(0)), norm(hi, n)
            return SStr(z3.SubString(e, l, z3.If(h > l, h - l, 0)))
        raise Unsupported(f"slice of {base!r}")

    def e_Call(s, e, st, ctx):
        out = []
        if s.is_logger_call(e) and e.func.attr == "isEnabledFor":
            # the logging configuration belongs to the environment: whether a level is enabled is an arbitrary Boolean at every test
            # (over-approximation: a property that holds must hold with and without debug logging)
            return [(st, SBool(fresh("log_enabled", z3.BoolSort())))]
        for st1, f in s.eval(e.func, st, ctx):
            if isinstance(f, Raised): out.append((st1, f)); continue
            arg_exprs = [a.value if isinstance(a, ast.Starred) else a for a in e.args]
            for st2, vs in s.eval_seq(arg_exprs + [k.value for k in e.keywords], st1, ctx):
                if isinstance(vs, Raised): out.append((st2, vs)); continue
                args = []
                for a, v in zip(e.args, vs[:len(e.args)]):
                    if isinstance(a, ast.Starred):
                        if not isinstance(v, (tuple, list)): raise Unsupported("star-argument is not a concrete sequence")
                        args += list(v)
                    else: args.append(v)
                kw = {k.arg: v for k, v in zip(e.keywords, vs[len(e.args):])}
                out += s.apply(f, st2, args, ctx, e, kw)
        return out

    def apply(s, f, st, args, ctx, node, kw=None):
        kw = kw or {}
        if isinstance(f, tuple):
            kind = f[0]
            if kind == "pyattr":
                h = s.py_calls.get(f[1])
                if h is None: raise Unsupported(f"external call {f[1]} line {node.lineno}")
                return h(s, st, args, kw, ctx, node)
            if kind == "abstract": return f[1](s, st, args, ctx, node)
            if kind == "closure":
                if kw: raise Unsupported("closure kwargs")
                return s.call_closure(f, st, args, ctx, node)
            if kind == "noop": return [(st, None)]
            if kind == "bmeth": return s.bmeth(f[1], f[2], st, args, ctx, node, kw)
            if kind == "builtin": return s.builtin(f[1], st, args, ctx, node, kw)
            if kind == "excclass": return [(st, ("exc", f[1]))]
            if kw and kind in ("func", "bound"):
                # keyword arguments of a repository function: bound to its parameters by name
                fn_ = s.funcs[f[1]][0]; params = [a.arg for a in fn_.args.args]; full = ([f[2]] if kind == "bound" else []) + list(args)
                if fn_.args.vararg or fn_.args.kwarg or any(k not in params[len(full):] for k in kw): raise Unsupported(f"keyword arguments line {node.lineno}")
                defaults = fn_.args.defaults; nd = len(defaults)
                for i in range(len(full), len(params)):
                    if params[i] in kw: full.append(kw[params[i]]); continue
                    di = i - (len(params) - nd)
                    if di < 0: raise Unsupported(f"missing argument {params[i]}")
                    (st_, dv), = s.eval(defaults[di], st, ctx); full.append(dv)
                return s.call(f[1], st, full, ctx, node)
            if kw: raise Unsupported(f"kwargs line {node.lineno}")
            if kind == "func": return s.call(f[1], st, args, ctx, node)
            if kind == "bound": return s.call(f[1], st, [f[2]] + args, ctx, node)
            if kind == "class": return s.construct(f[1], st, args, ctx, node)
        raise Unsupported(f"call {f!r} line {node.lineno}")

    def builtin(s, name, st, args, ctx, node, kw=None):
        h = s.py_calls.get("builtins." + name)
        if h is not None:
            r = h(s, st, args, kw or {}, ctx, node)
            if r is not None: return r
        if name == "int" and args and all(not is_sym(a) and isinstance(a, (str, int, float)) for a in args) and not (kw or {}):
            res = []
            try: val = int(*args)
            except ValueError: val = None
            for st1, r in s.implicit_failure(st, ctx, "safe:int", val is not None, "ValueError", node):
                res.append((st1, r if r is not None else val))
            return res
        if name in ("tuple", "list") and len(args) == 1 and isinstance(args[0], (list, tuple)): return [(st, tuple(args[0]) if name == "tuple" else list(args[0]))]
        if name == "getattr" and 2 <= len(args) <= 3 and isinstance(args[1], str):
            outs = []
            probe_ctx = ctx
            saved = ctx.root.fork_implicit; ctx.root.fork_implicit = True
            try:
                try: res_ = s.getattr(st, args[0], args[1], ctx, node)
                except Unsupported:
                    if len(args) == 3: res_ = [(st, Raised("AttributeError", args[1]))]
                    else: raise
            finally: ctx.root.fork_implicit = saved
            for st1, v in res_:
                if isinstance(v, Raised) and v.exc == "AttributeError" and len(args) == 3: outs.append((st1, args[2]))
                else: outs.append((st1, v))
            return outs
        if name == "len":
            v = args[0]
            if isinstance(v, SBytes): return [(st, SInt(v.n))]
            if isinstance(v, SStr): return [(st, SInt(z3.Length(v.e)))]
            if isinstance(v, (SList, SStrList)): return [(st, SInt(v.n))]
            if isinstance(v, (list, tuple, str, bytes, dict)): return [(st, len(v))]
            if hasattr(v, "py_len"): return [(st, v.py_len())]
            if isinstance(v, Ref):
                q = s.lookup_method(st.cls(v), "__len__")
                if q: return s.call(q, st, [v], ctx, node)
        if name == "cast": return [(st, args[1])]
        if name == "range": return [(st, ("range", args))]
        if name in ("bytes", "bytearray") and len(args) == 1 and isinstance(args[0], SBytes): return [(st, SBytes(args[0].arr, args[0].n, args[0].off))]
        if name in ("bytes", "bytearray") and not args:
            return [(st, SBytes(fresh("ba", BYTE_ARR), 0))]
        if name in ("bytes", "bytearray") and len(args) == 1 and isinstance(args[0], (list, tuple)):
            arr = fresh("lit", BYTE_ARR); res = []
            oks = []
            for i, b in enumerate(args[0]):
                if isinstance(b, int) and not isinstance(b, bool):
                    if not 0 <= b <= 255: return [(st, Raised("ValueError", "bytes must be in range(0, 256)"))]
                    arr = z3.Store(arr, i, z3.BitVecVal(b, 8))
                elif isinstance(b, SBV) and b.w <= 8: arr = z3.Store(arr, i, to_bv(b, 8))
                else:
                    x = to_int(b); oks.append(z3.And(x >= 0, x <= 255)); arr = z3.Store(arr, i, z3.Int2BV(x, 8))
            for st1, r in s.implicit_failure(st, ctx, "safe:byte-range", z3.And(*oks) if oks else True, "ValueError", node):
                res.append((st1, r if r is not None else SBytes(arr, len(args[0]))))
            return res
        if name == "list" and len(args) == 1 and isinstance(args[0], (list, tuple)): return [(st, list(args[0]))]
        if name == "super" and not args:
            return [(st, ("super", ctx.cls, st.locals.get("self")))]
        if name == "isinstance":
            v, cl = args
            cls_list = cl if isinstance(cl, tuple) and cl and isinstance(cl[0], tuple) else (cl,)
            if isinstance(v, Ref):
                return [(st, any(c[0] == "class" and s.is_subclass_of(st.cls(v), c[1]) for c in cls_list))]
            if isinstance(v, (str, SStr, int, SInt, SBV, SBytes, bytes)) and all(isinstance(c, tuple) and c and c[0] == "class" for c in cls_list):
                return [(st, False)]            # a str / int / bytes value is not an instance of a class defined in the repository
        if name in ("max", "min") and len(args) == 2:
            a, b = args
            if not is_sym(a) and not is_sym(b): return [(st, max(a, b) if name == "max" else min(a, b))]
            x, y = to_int(a), to_int(b)
            return [(st, SInt(z3.If(x >= y, x, y) if name == "max" else z3.If(x <= y, x, y)))]
        if name == "bool" and len(args) == 1:
            c = z3.simplify(to_bool(args[0])); return [(st, True if z3.is_true(c) else False if z3.is_false(c) else SBool(c))]
        if name == "str" and len(args) == 1:
            return [(st, s.format_value(args[0]))]
        if name == "enumerate" and 1 <= len(args) <= 2 and isinstance(args[0], (list, tuple)) and all(isinstance(a, int) for a in args[1:]):
            return [(st, [(i, x) for i, x in enumerate(args[0], *args[1:])])]
        if name == "zip" and args and all(isinstance(a, (list, tuple)) for a in args): return [(st, [tuple(t) for t in zip(*args)])]
        if name == "round" and len(args) == 2 and isinstance(args[1], int):
            if isinstance(args[0], SFloat): return [(st, SFloat(F_ROUND(args[0].e, z3.IntVal(args[1]))))]
            if not is_sym(args[0]): return [(st, round(args[0], args[1]))]
        if name == "float" and len(args) == 1:
            if isinstance(args[0], (SInt, SBV)): return [(st, SFloat(F_OF_INT(to_int(args[0]))))]
            if isinstance(args[0], SFloat): return [(st, args[0])]
            if isinstance(args[0], (int, float)) and not isinstance(args[0], bool): return [(st, float(args[0]))]
        if name == "abs" and len(args) == 1:
            if not is_sym(args[0]): return [(st, abs(args[0]))]
            x = to_int(args[0]); return [(st, SInt(z3.If(x >= 0, x, -x)))]
        if name == "next" and 1 <= len(args) <= 2 and isinstance(args[0], list):
            if args[0]: return [(st, args[0][0])]
            if len(args) == 2: return [(st, args[1])]
            return [(st, Raised("StopIteration"))]
        if name in ("all", "any") and len(args) == 1 and isinstance(args[0], tuple) and args[0] and args[0][0] == "symgen":
            _, sl, kvar, elt = args[0]; rng = z3.And(kvar >= 0, kvar < sl.n); c = to_bool(elt)
            return [(st, SBool(z3.Exists([kvar], z3.And(rng, c)) if name == "any" else z3.ForAll([kvar], z3.Implies(rng, c))))]
        if name in ("all", "any") and len(args) == 1 and isinstance(args[0], (tuple, list)):
            parts = [to_bool(x) for x in args[0]]
            c = z3.simplify((z3.And if name == "all" else z3.Or)(*parts)) if parts else z3.BoolVal(name == "all")
            return [(st, True if z3.is_true(c) else False if z3.is_false(c) else SBool(c))]
        if name == "hash" and len(args) == 1:
            return [(st, ("hashof", args[0]))]
        raise Unsupported(f"builtin {name} line {node.lineno}")

    def format_value(s, v):
        """str(v) / f"{v}" """
        if isinstance(v, (str, SStr)): return v
        if v is None: return "None"
        if isinstance(v, bool): return str(v)
        if isinstance(v, int): return str(v)
        if isinstance(v, (SInt, SBV)):
            x = to_int(v)
            return SStr(z3.If(x >= 0, z3.IntToStr(x), z3.Concat(z3.StringVal("-"), z3.IntToStr(-x))))
        if isinstance(v, SOpt):
            return SStr(z3.If(v.isnone, z3.StringVal("None"), z3.If(v.val >= 0, z3.IntToStr(v.val), z3.Concat(z3.StringVal("-"), z3.IntToStr(-v.val)))))
        raise Unsupported(f"format {v!r}")

    def e_JoinedStr(s, e, st, ctx):
        parts = []
        for p in e.values:
            if isinstance(p, ast.Constant): parts.append(p)
            elif isinstance(p, ast.FormattedValue):
                if p.format_spec is not None or p.conversion != -1: raise Unsupported("format spec")
                parts.append(p.value)
        out = []
        for st1, vs in s.eval_seq(parts, st, ctx):
            if isinstance(vs, Raised): out.append((st1, vs)); continue
            strs = [s.format_value(v) for v in vs]
            if all(isinstance(x, str) for x in strs): out.append((st1, "".join(strs)))
            else: out.append((st1, SStr(z3.Concat(*[to_str(x) for x in strs])) if len(strs) > 1 else strs[0]))
        return out

    def bmeth(s, base, attr, st, args, ctx, node, kw=None):
        if isinstance(base, SBytes) and attr in ("startswith", "endswith") and len(args) == 1 and (isinstance(args[0], (bytes, bytearray)) or (isinstance(args[0], SBytes) and z3.is_int_value(z3.simplify(args[0].n)))):
            # bytes.startswith / endswith with an operand of known length: length test and octet-wise equality
            pre = args[0]; k = len(pre) if isinstance(pre, (bytes, bytearray)) else z3.simplify(pre.n).as_long()
            pat = (lambda i: z3.BitVecVal(pre[i], 8)) if isinstance(pre, (bytes, bytearray)) else (lambda i: pre.at(i))
            at = (lambda i: base.at(i)) if attr == "startswith" else (lambda i: base.at(base.n - k + i))
            return [(st, SBool(z3.And(base.n >= k, *[at(i) == pat(i) for i in range(k)])))]
        if isinstance(base, (list, GhostList)) and attr == "append":
            hook = getattr(s, "list_append_hook", None)
            if hook is not None: hook(st, base, args[0], ctx, node)
            if isinstance(base, list): base.append(args[0])
            else: base.nonempty = z3.BoolVal(True)
            return [(st, None)]
        if isinstance(base, str) and attr == "join" and len(args) == 1 and isinstance(args[0], (list, tuple)):
            items = [s.format_value(x) if not isinstance(x, (str, SStr)) else x for x in args[0]]
            if all(isinstance(x, str) for x in items): return [(st, base.join(items))]
            parts = []
            for i, x in enumerate(items):
                if i: parts.append(z3.StringVal(base))
                parts.append(to_str(x))
            return [(st, SStr(z3.Concat(*parts)) if len(parts) > 1 else SStr(parts[0]))]
        if isinstance(base, (dict, list)) and attr in ("update", "append", "extend", "clear", "pop", "insert", "remove", "setdefault", "sort", "reverse"):
            # frame condition: module- and class-level tables are never modified by a function under contract (they are shared by every later call)
            owner = next((k for k, v in s.consts.items() if v is base), None)
            if owner is not None: ctx.oblige(st, f"frame:module-level table {owner} is not modified", z3.BoolVal(False), node, overapprox=[f"state kept in {owner}"])
        if isinstance(base, dict) and attr == "update" and len(args) == 1 and isinstance(args[0], dict) and type(base) is dict:
            base.update(args[0]); return [(st, None)]
        if isinstance(base, dict) and attr in ("items", "keys", "values") and not args:
            return [(st, [tuple(kv) for kv in base.items()] if attr == "items" else list(base.keys()) if attr == "keys" else list(base.values()))]
        if isinstance(base, dict) and attr == "get" and 1 <= len(args) <= 2 and is_sym(args[0]):
            r = s.kept_state_read(st, base, args[1] if len(args) == 2 else None)
            if r is not None: return r
        if isinstance(base, dict) and attr == "get" and 1 <= len(args) <= 2 and isinstance(args[0], SStr) and base and all(isinstance(k, str) and isinstance(v, str) for k, v in base.items()):
            # constant str -> str table looked up with a symbolic key: absent (default) or one of the entries
            keys = list(base); miss = st.fork(); miss.pc += [args[0].e != z3.StringVal(k) for k in keys]
            hit = st.fork(); r = fresh("dictval", z3.StringSort()); hit.pc.append(z3.Or(*[z3.And(args[0].e == z3.StringVal(k), r == z3.StringVal(base[k])) for k in keys]))
            return [(miss, args[1] if len(args) == 2 else None), (hit, SStr(r))]
        if isinstance(base, dict) and attr == "get" and 1 <= len(args) <= 2 and not is_sym(args[0]):
            try: return [(st, base.get(args[0], args[1] if len(args) == 2 else None))]
            except TypeError: raise Unsupported("dict.get key")
        if isinstance(base, str) and attr in ("lower", "upper", "strip", "startswith", "endswith", "split", "splitlines", "find", "isdigit") and all(not is_sym(a) for a in args):
            return [(st, getattr(base, attr)(*args))]
        if isinstance(base, SStr):
            e_ = base.e
            if attr == "find" and 1 <= len(args) <= 2 and isinstance(args[0], str):
                start = to_int(args[1]) if len(args) == 2 else z3.IntVal(0)
                r = fresh("sfind", z3.IntSort()); n_ = z3.Length(e_)
                # str.find(sub, start): start is clamped to [0, len]; the result is -1 or an index >= start where sub occurs
                st.pc.append(r == z3.IndexOf(e_, z3.StringVal(args[0]), z3.If(start < 0, z3.If(start + n_ < 0, 0, start + n_), start)))
                st.pc.append(z3.Or(r == -1, z3.And(r >= 0, r >= start, r + len(args[0]) <= n_)))
                return [(st, SInt(r))]
            if attr in ("strip", "lower", "upper") and not args:
                r = fresh("s" + attr, z3.StringSort())
                st.pc.append(z3.Length(r) <= z3.Length(e_) if attr == "strip" else z3.Length(r) == z3.Length(e_))
                return [(st, SStr(r))]
            if attr in ("splitlines", "split") and len(args) <= 1:
                n_ = fresh("nparts", z3.IntSort()); st.pc.append(n_ >= (0 if attr == "splitlines" else 1))
                return [(st, SStrList(fresh("parts", STR_ARR), n_))]
        if isinstance(base, list) and attr == "clear" and not args:
            base.clear(); return [(st, None)]
        if type(base) is list and attr == "pop" and len(args) <= 1 and all(isinstance(a, int) and not isinstance(a, bool) for a in args):
            i = args[0] if args else -1
            outs = []
            for st1, r in s.implicit_failure(st, ctx, "safe:pop-index", -len(base) <= i < len(base), "IndexError", node):
                if r is not None: outs.append((st1, r)); continue
                # the list object of this path (copied per path by State.fork): find it again in st1 by position in locals / heap is not needed when no fork happened
                if st1 is not st: raise Unsupported("list.pop on a forked state")
                outs.append((st1, base.pop(i)))
            return outs
        h = s.prelude_methods.get(attr)
        if h is not None: return h(s, st, base, args, ctx, node)
        raise Unsupported(f"method {attr} line {node.lineno} on {type(base).__name__}({', '.join(type(a).__name__ for a in args)})")

    def comprehension(s, e, st, ctx):
        """[elt for x in <concrete list> if <concretely decidable cond>] evaluated eagerly (also for generator expressions)"""
        if len(e.generators) != 1 or e.generators[0].is_async: raise Unsupported("nested comprehension")
        gen = e.generators[0]; outs = []
        for st0, it in s.eval(gen.iter, st, ctx):
            if isinstance(it, Raised): outs.append((st0, it)); continue
            if isinstance(it, dict): it = list(it)
            if isinstance(it, tuple) and len(it) == 2 and it[0] == "range" and isinstance(it[1], list):
                if not all(isinstance(a, int) and not isinstance(a, bool) for a in it[1]): raise Unsupported(f"comprehension over a symbolic range line {e.lineno}")
                it = list(range(*it[1]))
            if isinstance(it, SStrList) and isinstance(e.elt, ast.Name) and isinstance(gen.target, ast.Name) and e.elt.id == gen.target.id:
                # [x for x in <strings> if cond(x)]: some sub-list of the strings (which ones is not tracked)
                n2 = fresh("sub_n", z3.IntSort()); st0.pc += [n2 >= 0, n2 <= it.n]
                outs.append((st0, SStrList(fresh("sub", STR_ARR), n2))); continue
            if isinstance(it, (SList, SBytes)) and not gen.ifs:
                # generator over a symbolic-length list / byte string: kept lazy, element expression evaluated once at a bound index (used by any()/all())
                kvar = fresh("k_gen", z3.IntSort()); saved_l = dict(st0.locals); n0 = len(st0.pc)
                probe = st0.fork()
                s.assign(gen.target, SInt(z3.Select(it.arr, kvar)) if isinstance(it, SList) else SBV(it.at(kvar)), probe, ctx)
                r = s.eval(e.elt, probe, ctx)
                if any(isinstance(v, Raised) for _, v in r): raise Unsupported("generator element over a symbolic sequence raises")
                if len(r) == 1: elt = r[0][1]
                else:       # the element expression short-circuits: one boolean for all its paths
                    elt = SBool(z3.Or(*[z3.And(*(list(sx.pc[n0:]) + [to_bool(v)])) for sx, v in r]))
                outs.append((st0, ("symgen", it, kvar, elt))); continue
            if not isinstance(it, (list, tuple)): raise Unsupported(f"comprehension over {it!r} line {e.lineno}")
            frontier = [(st0, [])]
            for item in it:
                nxt = []
                for st1, acc in frontier:
                    if isinstance(acc, Raised): nxt.append((st1, acc)); continue
                    saved = {k: st1.locals.get(k, "__absent__") for k in [n.id for n in ast.walk(gen.target) if isinstance(n, ast.Name)]}
                    s.assign(gen.target, item, st1, ctx)
                    conds = [(st1, True)]
                    for cnd in gen.ifs:
                        nc = []
                        for st2, ok in conds:
                            if ok is not True: nc.append((st2, ok)); continue
                            for st3, c in s.eval(cnd, st2, ctx):
                                if isinstance(c, Raised): nc.append((st3, c)); continue
                                for st4, b in s.split(st3, c, check=True): nc.append((st4, b))
                        conds = nc
                    for st2, ok in conds:
                        if isinstance(ok, Raised): nxt.append((st2, ok)); continue
                        if ok is False: nxt.append((st2, acc)); continue
                        for st3, v in s.eval(e.elt, st2, ctx):
                            nxt.append((st3, v if isinstance(v, Raised) else acc + [v]))
                    for st2, _ in nxt[-len(conds):] if conds else []:
                        for k, v in saved.items():
                            if v == "__absent__": st2.locals.pop(k, None)
                            else: st2.locals[k] = v
                frontier = nxt
            outs += frontier
        return outs
    def e_ListComp(s, e, st, ctx): return s.comprehension(e, st, ctx)
    def e_GeneratorExp(s, e, st, ctx): return s.comprehension(e, st, ctx)

    def e_Tuple(s, e, st, ctx):
        return [(st1, vs if isinstance(vs, Raised) else tuple(vs)) for st1, vs in s.eval_seq(e.elts, st, ctx)]
    def e_List(s, e, st, ctx):
        return [(st1, vs if isinstance(vs, Raised) else list(vs)) for st1, vs in s.eval_seq(e.elts, st, ctx)]
    def e_Dict(s, e, st, ctx):
        outs = []
        keys = [k if k is not None else ast.Constant(value=None) for k in e.keys]          # `**mapping` entries have no key expression
        for st1, vs in s.eval_seq(keys + list(e.values), st, ctx):
            if isinstance(vs, Raised): outs.append((st1, vs)); continue
            k = len(keys); d = {}
            for key_node, kv, vv in zip(e.keys, vs[:k], vs[k:]):
                if key_node is None:
                    if type(vv) is not dict: raise Unsupported(f"** of a non-dictionary line {e.lineno}")
                    d.update(vv)
                else: d[kv] = vv
            outs.append((st1, d))
        return outs

    # ------------------------------------------------------------------ statements
    def exec_block(s, stmts, st, ctx):
        """returns list of (state, flow, value)"""
        frontier = [(st, NORMAL, None)]
        stmts = s.unrotate_loops(list(stmts))
        for stmt in stmts:
            nxt = []
            for st1, flow, val in frontier:
                if flow != NORMAL: nxt.append((st1, flow, val)); continue
                res = s.exec(stmt, st1, ctx)
                cut = s.cuts.get((ctx.qual, stmt.lineno)) or s.cuts.get((ctx.qual, s.stmt_selector(stmt)))
                if cut is None and isinstance(stmt, (ast.For, ast.While)): cut = s.cuts.get((ctx.qual, f"loop:{ctx.loop_ordinal(stmt)}"))
                if cut:
                    for st2, f2, v2 in res:
                        if f2 == NORMAL:
                            g = cut(st2, s)
                            ctx.oblige(st2, "cut", g, stmt, reveal=True); st2.pc.append(g)
                nxt += res
            frontier = nxt
        return frontier

    def unrotate_loops(s, stmts):
        """`x = E; while c(x): B; x = E`  ==>  `while True: x = E; if not c(x): break; B`  (same behaviour when B has no `continue` of its own level): the loop head is then
        the point *before* E runs, which is where loop invariants over the object state are stated (same as for `while True:` / walrus loops)"""
        out = []; i = 0
        while i < len(stmts):
            a = stmts[i]; w = stmts[i + 1] if i + 1 < len(stmts) else None
            if (isinstance(a, ast.Assign) and isinstance(w, ast.While) and not w.orelse and w.body and isinstance(w.body[-1], ast.Assign)
                    and ast.dump(a) == ast.dump(w.body[-1]) and len(a.targets) == 1 and isinstance(a.targets[0], ast.Name)
                    and any(isinstance(x, ast.Name) and x.id == a.targets[0].id for x in ast.walk(w.test))
                    and not s._has_own_continue(w.body[:-1]) and isinstance(a.value, ast.Call)):
                first = _copy.deepcopy(a)
                brk = ast.If(test=ast.UnaryOp(op=ast.Not(), operand=_copy.deepcopy(w.test)), body=[ast.Break()], orelse=[])
                nw = ast.While(test=ast.Constant(value=True), body=[first, brk] + list(w.body[:-1]), orelse=[])
                for n_ in (brk, nw): ast.copy_location(n_, w)
                ast.fix_missing_locations(nw)
                nw.lineno, nw.col_offset = w.lineno, w.col_offset
                out.append(nw); i += 2; continue
            out.append(a); i += 1
        return out
    def _has_own_continue(s, body):
        def walk(nodes):
            for n in nodes:
                if isinstance(n, ast.Continue): return True
                if isinstance(n, (ast.For, ast.While, ast.FunctionDef, ast.Lambda)): continue
                for ch in ast.iter_child_nodes(n):
                    if walk([ch]): return True
            return False
        return walk(body)

    def stmt_selector(s, stmt):
        """shape-based selector for cut points: 'assign:<name>' for the statement assigning that name"""
        if isinstance(stmt, ast.Assign) and len(stmt.targets) == 1 and isinstance(stmt.targets[0], ast.Name): return "assign:" + stmt.targets[0].id
        if isinstance(stmt, ast.AugAssign) and isinstance(stmt.target, ast.Name): return "augassign:" + stmt.target.id
        return None

    def exec(s, stmt, st, ctx):
        m = getattr(s, "x_" + type(stmt).__name__, None)
        if m is None: raise Unsupported(f"stmt {type(stmt).__name__} line {stmt.lineno}")
        return m(stmt, st, ctx)

    def is_logger_call(s, e):
        return isinstance(e, ast.Call) and isinstance(e.func, ast.Attribute) and isinstance(e.func.value, ast.Name) and e.func.value.id == "_LOGGER"

    def x_Expr(s, stmt, st, ctx):
        if isinstance(stmt.value, ast.Constant): return [(st, NORMAL, None)]   # docstring
        if s.is_logger_call(stmt.value):
            # the logging call itself is a no-op (assumed); its argument expressions are still evaluated for safety
            outs = []
            for st1, vs in s.eval_seq([a for a in stmt.value.args[1:]], st, ctx):
                outs.append((st1, RAISE, vs) if isinstance(vs, Raised) else (st1, NORMAL, None))
            return outs
        if isinstance(stmt.value, ast.Call) and isinstance(stmt.value.func, ast.Attribute):
            r = s.mutating_call(stmt.value, st, ctx)
            if r is not None: return r
        return [((st1, RAISE, v) if isinstance(v, Raised) else (st1, NORMAL, None)) for st1, v in s.eval(stmt.value, st, ctx)]

    def mutating_call(s, call, st, ctx):
        """x.append(b) / x.clear() / x.extend(c) where x is a local or o.field holding SBytes"""
        meth = call.func.attr
        if meth not in ("append", "clear", "extend"): return None
        target = call.func.value
        outs = []
        for st1, cur in s.eval(target, st, ctx):
            if not isinstance(cur, SBytes): return None
            for st2, args in s.eval_seq(call.args, st1, ctx):
                if isinstance(args, Raised): outs.append((st2, RAISE, args)); continue
                if meth == "append":
                    b = args[0]
                    if not (isinstance(b, SBV) and b.w <= 8) and not (isinstance(b, int) and 0 <= b < 256):
                        bi = to_int(b); ctx.oblige(st2, "safe:byte-range", z3.And(bi >= 0, bi < 256), call)
                        be = z3.Int2BV(bi, 8)
                    else: be = to_bv(b, 8)
                    new = SBytes(z3.Store(cur.arr, z3.simplify(cur.off + cur.n), be), z3.simplify(cur.n + 1), cur.off)
                elif meth == "clear":
                    new = SBytes(cur.arr, z3.IntVal(0), cur.off)
                else:
                    ch = args[0]
                    if not isinstance(ch, SBytes): raise Unsupported("extend with non-bytes")
                    if z3.is_int_value(z3.simplify(cur.n)) and z3.simplify(cur.n).as_long() == 0:
                        # extending an empty bytearray: the result has the content of the argument (same view, copied by value)
                        s.assign_mut(target, SBytes(ch.arr, ch.n, ch.off), st2, ctx); outs.append((st2, NORMAL, None)); continue
                    if cur.arr.eq(ch.arr):
                        gap = st2.fork(); gap.pc.append(cur.off + cur.n != ch.off)
                        if not s.feasible(gap):
                            # the argument is the slice that directly follows the receiver in the same array: the view just grows
                            s.assign_mut(target, SBytes(cur.arr, z3.simplify(cur.n + ch.n), cur.off), st2, ctx); outs.append((st2, NORMAL, None)); continue
                    arr2 = fresh("ext", BYTE_ARR); k = z3.Int("k__e"); o = cur.off; n = cur.n
                    st2.pc.append(z3.ForAll([k], z3.Implies(z3.And(o <= k, k < o + n), arr2[k] == cur.arr[k])))
                    st2.pc.append(z3.ForAll([k], z3.Implies(z3.And(0 <= k, k < ch.n), arr2[o + n + k] == ch.at(k))))
                    new = SBytes(arr2, z3.simplify(n + ch.n), cur.off)
                s.assign_mut(target, new, st2, ctx)
                outs.append((st2, NORMAL, None))
        return outs

    def is_bytearray_field(s, cls, attr):
        """the class stores a bytearray in self.<attr> (assignment `self.attr = bytearray(...)` or an annotation naming bytearray)"""
        for c in [cls] + list(s.bases.get(cls, [])):
            for q, (fn, _m, k) in s.funcs.items():
                if k != c: continue
                for n in ast.walk(fn):
                    tgt = val = ann = None
                    if isinstance(n, ast.Assign) and len(n.targets) == 1: tgt, val = n.targets[0], n.value
                    elif isinstance(n, ast.AnnAssign): tgt, val, ann = n.target, n.value, n.annotation
                    if not (isinstance(tgt, ast.Attribute) and isinstance(tgt.value, ast.Name) and tgt.value.id == "self" and tgt.attr == attr): continue
                    if isinstance(val, ast.Call) and isinstance(val.func, ast.Name) and val.func.id == "bytearray": return True
                    if ann is not None and "bytearray" in ast.unparse(ann): return True
        return False
    def x_Assign(s, stmt, st, ctx):
        outs = []
        # `x = obj.field` where the field holds a bytearray: x aliases the same mutable object (x.clear() / x.append() act on the field, and the field's later changes show through x)
        if len(stmt.targets) == 1 and isinstance(stmt.targets[0], ast.Name) and isinstance(stmt.value, ast.Attribute):
            for st1, base in s.eval(stmt.value.value, st, ctx):
                attr = s.mangle(stmt.value.attr, ctx)
                if isinstance(base, Ref) and attr in st1.heap[base.oid][1] and isinstance(st1.getf(base, attr), SBytes) and s.is_bytearray_field(st1.cls(base), attr):
                    st1.locals[stmt.targets[0].id] = ("fieldref", base, attr); outs.append((st1, NORMAL, None))
                else: outs = None; break
            if outs is not None: return outs
            outs = []
        for st1, v in s.eval(stmt.value, st, ctx):
            if isinstance(v, Raised): outs.append((st1, RAISE, v)); continue
            for t in stmt.targets: s.assign(t, v, st1, ctx)          # a = b = value: evaluated once, bound left to right
            outs.append((st1, NORMAL, None))
        return outs
    def x_Delete(s, stmt, st, ctx):
        """del E[:k]  /  del E[k:]  on a byte buffer held in a local or a field: the in-place form of E = E[k:] / E = E[:k]
        (the buffers under contract are never aliased: bytes(...) copies)"""
        states = [st]
        for t in stmt.targets:
            if not (isinstance(t, ast.Subscript) and isinstance(t.slice, ast.Slice) and t.slice.step is None and isinstance(t.value, (ast.Name, ast.Attribute))): raise Unsupported(f"stmt Delete line {stmt.lineno}")
            lo, hi = t.slice.lower, t.slice.upper
            if lo is None or (isinstance(lo, ast.Constant) and lo.value == 0): sl = ast.Slice(lower=hi, upper=None) if hi is not None else None
            elif hi is None: sl = ast.Slice(lower=None, upper=lo)
            else: raise Unsupported(f"stmt Delete (inner slice) line {stmt.lineno}")
            load = _copy.deepcopy(t.value); load.ctx = ast.Load()
            value = ast.Subscript(value=load, slice=sl, ctx=ast.Load()) if sl is not None else ast.Subscript(value=load, slice=ast.Slice(lower=ast.Constant(value=0), upper=ast.Constant(value=0)), ctx=ast.Load())
            store = _copy.deepcopy(t.value); store.ctx = ast.Store()
            value = ast.fix_missing_locations(ast.copy_location(value, stmt)); store = ast.copy_location(store, stmt)
            nxt = []
            for s0 in states:
                for st1, v in s.eval(value, s0, ctx):
                    if isinstance(v, Raised): return [(st1, RAISE, v)] if len(states) == 1 else (_ for _ in ()).throw(Unsupported("Delete raising on a forked state"))
                    s.assign_mut(store, v, st1, ctx); nxt.append(st1)
            states = nxt
        return [(x, NORMAL, None) for x in states]
    def x_AnnAssign(s, stmt, st, ctx):
        if stmt.value is None: return [(st, NORMAL, None)]
        outs = []
        for st1, v in s.eval(stmt.value, st, ctx):
            if isinstance(v, Raised): outs.append((st1, RAISE, v)); continue
            s.assign(stmt.target, v, st1, ctx); outs.append((st1, NORMAL, None))
        return outs
    def x_AugAssign(s, stmt, st, ctx):
        outs = []
        load = ast.copy_location(ast.Name(id=stmt.target.id, ctx=ast.Load()), stmt.target) if isinstance(stmt.target, ast.Name) else \
               ast.copy_location(ast.Attribute(value=stmt.target.value, attr=stmt.target.attr, ctx=ast.Load()), stmt.target)
        for st1, vs in s.eval_seq([load, stmt.value], st, ctx):
            if isinstance(vs, Raised): outs.append((st1, RAISE, vs)); continue
            s.assign_mut(stmt.target, s.binop(stmt.op, vs[0], vs[1], stmt, st1, ctx), st1, ctx); outs.append((st1, NORMAL, None))      # `x += y` on an aliased bytearray is in place
        return outs
    def assign_mut(s, target, v, st, ctx):
        """the receiver of an in-place operation gets its new value: through a field reference when the local aliases a field"""
        if isinstance(target, ast.Name):
            cur = st.locals.get(target.id)
            if isinstance(cur, tuple) and len(cur) == 3 and cur[0] == "fieldref": st.setf(cur[1], cur[2], v); return
        s.assign(target, v, st, ctx)
    def assign(s, target, v, st, ctx):
        if isinstance(target, ast.Tuple) and isinstance(v, (SStrList, SList)):
            # unpacking a list of symbolic length: supported when the path condition fixes the length to the number of targets
            k = len(target.elts); probe = st.fork(); probe.pc.append(v.n != k)
            if s.feasible(probe): raise Unsupported(f"unpacking a list whose length is not known to be {k}")
            v = [SStr(z3.Select(v.arr, i)) for i in range(k)] if isinstance(v, SStrList) else [SInt(z3.Select(v.arr, i)) for i in range(k)]
        if isinstance(target, ast.Tuple):
            assert isinstance(v, (tuple, list)) and len(target.elts) == len(v), (ast.unparse(target), v)
            for t, x in zip(target.elts, v): s.assign(t, x, st, ctx)
            return
        if isinstance(target, ast.Name): st.locals[target.id] = v
        elif isinstance(target, ast.Attribute):
            (st1, base), = s.eval(target.value, st, ctx)
            assert st1 is st and isinstance(base, Ref)
            st.setf(base, s.mangle(target.attr, ctx), v)
        elif isinstance(target, ast.Subscript):
            (st1, base), = s.eval(target.value, st, ctx)
            (st2, key), = s.eval(target.slice, st1, ctx)
            if isinstance(base, dict) and not is_sym(key):
                owner = next((k for k, c in s.consts.items() if c is base), None)
                if owner is not None and not ctx.qual.endswith("<toplevel>"): ctx.oblige(st, f"frame:module-level table {owner} is not modified", z3.BoolVal(False), target, overapprox=[f"state kept in {owner}"])
                base[key] = v
            elif isinstance(base, dict) and next((k for k, c in s.consts.items() if c is base), None) in s.mutated_tables():
                # store with a symbolic key into state kept between calls: not tracked (every read of such a table is havocked); the frame
                # obligation records that the function's result may now depend on earlier calls
                owner = next(k for k, c in s.consts.items() if c is base)
                ctx.oblige(st, f"frame:module-level table {owner} is not modified", z3.BoolVal(False), target, overapprox=[f"state kept in {owner}"])
            else:
                hook = getattr(s, "setitem_hook", None)
                if hook is None or not hook(st, base, key, v, ctx, target): raise Unsupported("subscript store")
        else: raise Unsupported("assign target")

    def x_Return(s, stmt, st, ctx):
        if stmt.value is None: return [(st, RETURN, None)]
        return [((st1, RAISE, v) if isinstance(v, Raised) else (st1, RETURN, v)) for st1, v in s.eval(stmt.value, st, ctx)]
    def x_Pass(s, stmt, st, ctx): return [(st, NORMAL, None)]
    def x_Raise(s, stmt, st, ctx):
        if stmt.exc is None:
            return [(st, RAISE, st.locals.get("__handling__", Raised("Exception")))]
        outs = []
        for st1, v in s.eval(stmt.exc, st, ctx):
            if isinstance(v, Raised): outs.append((st1, RAISE, v)); continue
            if isinstance(v, tuple) and v and v[0] in ("exc", "excclass"): outs.append((st1, RAISE, Raised(v[1])))
            elif isinstance(v, tuple) and v and v[0] == "pyattr": outs.append((st1, RAISE, Raised(v[1])))
            else: raise Unsupported(f"raise {v!r}")
        return outs
    def x_Try(s, stmt, st, ctx):
        if stmt.finalbody or stmt.orelse: raise Unsupported("try/finally/else")
        outs = []
        for st1, flow, val in s.exec_block(stmt.body, st, ctx):
            if flow != RAISE: outs.append((st1, flow, val)); continue
            handled = False
            for h in stmt.handlers:
                if h.type is None: names = ["BaseException"]
                else:
                    ts = h.type.elts if isinstance(h.type, ast.Tuple) else [h.type]
                    names = [ast.unparse(t) for t in ts]
                alts = val.exc if isinstance(val.exc, tuple) else (val.exc,)
                caught = tuple(a for a in alts if any(s.exc_matches(a, nm) for nm in names))
                if caught and len(caught) < len(alts):
                    # some of the possible classes are caught here, others propagate: split the path
                    rest = tuple(a for a in alts if a not in caught)
                    st_rest = st1.fork()
                    if val.cond_of:
                        st_rest.pc.append(z3.Or([val.cond_of[a] for a in rest if a in val.cond_of] or [z3.BoolVal(True)]))
                        st1.pc.append(z3.Or([val.cond_of[a] for a in caught if a in val.cond_of] or [z3.BoolVal(True)]))
                    outs += s._dispatch_rest(stmt, h, st_rest, Raised(rest if len(rest) > 1 else rest[0], val.info, val.cond_of), ctx)
                    val = Raised(caught if len(caught) > 1 else caught[0], val.info, val.cond_of)
                if caught:
                    if h.name: st1.locals[h.name] = ("exc", val.exc)       # the caught exception object (a plain value, not a pending raise)
                    saved = st1.locals.get("__handling__"); st1.locals["__handling__"] = val
                    for st2, f2, v2 in s.exec_block(h.body, st1, ctx):
                        if saved is None: st2.locals.pop("__handling__", None)
                        else: st2.locals["__handling__"] = saved
                        outs.append((st2, f2, v2))
                    handled = True; break
            if not handled: outs.append((st1, RAISE, val))
        return outs
    def _dispatch_rest(s, stmt, h_done, st, val, ctx):
        """the alternatives not caught by handler h_done are offered to the handlers after it"""
        hs = stmt.handlers[stmt.handlers.index(h_done) + 1:]
        for h in hs:
            ts = [] if h.type is None else (h.type.elts if isinstance(h.type, ast.Tuple) else [h.type])
            names = ["BaseException"] if h.type is None else [ast.unparse(t) for t in ts]
            alts = val.exc if isinstance(val.exc, tuple) else (val.exc,)
            if all(any(s.exc_matches(a, nm) for nm in names) for a in alts):
                if h.name: st.locals[h.name] = ("exc", val.exc)
                st.locals["__handling__"] = val
                return s.exec_block(h.body, st, ctx)
            if any(any(s.exc_matches(a, nm) for nm in names) for a in alts): raise Unsupported("exception alternatives split across several handlers")
        return [(st, RAISE, val)]
    def exc_matches(s, exc, name):
        cur = exc.exc if isinstance(exc, Raised) else exc
        seen = 0
        while cur is not None and seen < 20:
            if cur == name or cur.split(".")[-1] == name.split(".")[-1]: return True
            cur = s.exc_parents.get(cur); seen += 1
        return False
    def x_Break(s, stmt, st, ctx): return [(st, BREAK, None)]
    def x_Continue(s, stmt, st, ctx): return [(st, CONTINUE, None)]
    def x_Assert(s, stmt, st, ctx):
        outs = []
        for st1, c in s.eval(stmt.test, st, ctx):
            if isinstance(c, Raised): outs.append((st1, RAISE, c)); continue
            for st2, r in s.implicit_failure(st1, ctx, "safe:assert", to_bool(c), "AssertionError", stmt):
                outs.append((st2, RAISE, r) if r is not None else (st2, NORMAL, None))
        return outs

    def x_If(s, stmt, st, ctx):
        outs = []
        for st1, c in s.eval(stmt.test, st, ctx):
            if isinstance(c, Raised): outs.append((st1, RAISE, c)); continue
            parts = [(st2, b) for st2, b in s.split(st1, c) if s.feasible(st2)]
            res = [s.exec_block(stmt.body if b else stmt.orelse, st2, ctx) for st2, b in parts]
            if len(parts) == 2 and all(len(r) == 1 and r[0][1] == NORMAL for r in res):
                # join: both branches fall through on a single path each and differ only in number-valued slots (e.g. `x = a` / `x = float(b)`):
                # one state with conditional values instead of two paths (keeps element-wise decoding loops linear)
                sa, sb = res[0][0][0], res[1][0][0]          # split() returns the true branch first
                if parts[0][1] is True and len(sa.pc) > len(st1.pc) and len(sb.pc) > len(st1.pc):
                    m = merge_states(parts[0][0].pc[len(st1.pc)], st1, sa, sb)
                    if m is not None:
                        s.stats["joins"] = s.stats.get("joins", 0) + 1; outs.append((m, NORMAL, None)); continue
            for r in res: outs += r
        return outs

    def feasible(s, st):
        s.stats["feasibility_checks"] += 1
        # quantified hypotheses are left out: dropping facts can only make a path look feasible (sound), and keeps the check cheap
        sol = z3.Solver(); sol.set("timeout", 1500); sol.add(*[x for x in (_light(h) for h in st.pc) if x is not None])
        return sol.check() != z3.unsat

    def x_For(s, stmt, st, ctx):
        outs = []
        for st1, it in s.eval(stmt.iter, st, ctx):
            if isinstance(it, Raised): outs.append((st1, RAISE, it)); continue
            if isinstance(it, tuple) and it and it[0] == "range" and all(isinstance(a, int) for a in it[1]):
                outs += s.unroll(stmt, st1, list(range(*it[1])), ctx)
            elif isinstance(it, list) and isinstance(stmt.iter, (ast.Name, ast.Attribute)):
                outs += s.unroll_live(stmt, st1, ctx)
            elif isinstance(it, (list, tuple, dict)) and not (isinstance(it, tuple) and it and it[0] == "range"):
                outs += s.unroll(stmt, st1, list(it), ctx)
            elif isinstance(it, tuple) and it[0] == "range":
                outs += s.loop_inv(stmt, st1, ctx, range_args=it[1])
            elif isinstance(it, (SBytes, SList, SStrList)):
                outs += s.loop_inv(stmt, st1, ctx, seq=it)
            else: raise Unsupported(f"for iterable {it!r} line {stmt.lineno}")
        return outs

    def unroll(s, stmt, st, items, ctx):
        if stmt.orelse: raise Unsupported("for/else")
        frontier = [(st, NORMAL, None)]; done = []
        for item in items:
            nxt = []
            for st1, flow, val in frontier:
                s.assign(stmt.target, item, st1, ctx)
                for st2, f2, v2 in s.exec_block(stmt.body, st1, ctx):
                    if f2 in (NORMAL, CONTINUE): nxt.append((st2, NORMAL, None))
                    elif f2 == BREAK: done.append((st2, NORMAL, None))
                    else: done.append((st2, f2, v2))
            frontier = nxt
        return done + frontier

    def unroll_live(s, stmt, st, ctx, limit=64):
        """for x in <list held in a variable or field>: Python's list iterator re-reads the list on every step (index < len), so a body
        that clears or extends the list changes the iteration; the list is re-evaluated in the current state before every step"""
        if stmt.orelse: raise Unsupported("for/else")
        frontier = [(st, NORMAL, None)]; done = []; i = 0
        while frontier:
            if i > limit: raise Unsupported("list iteration does not end")
            nxt = []
            for st1, flow, val in frontier:
                (st_, cur), = s.eval(stmt.iter, st1, ctx)
                if not isinstance(cur, list): raise Unsupported("iterated variable no longer holds a list")
                if i >= len(cur): done.append((st1, NORMAL, None)); continue
                s.assign(stmt.target, cur[i], st1, ctx)
                for st2, f2, v2 in s.exec_block(stmt.body, st1, ctx):
                    if f2 in (NORMAL, CONTINUE): nxt.append((st2, NORMAL, None))
                    elif f2 == BREAK: done.append((st2, NORMAL, None))
                    else: done.append((st2, f2, v2))
            frontier = nxt; i += 1
        return done

    def assigned_names(s, body):
        names = set()
        for n in ast.walk(ast.Module(body=body, type_ignores=[])):
            if isinstance(n, (ast.Assign, ast.AugAssign, ast.AnnAssign)):
                ts = n.targets if isinstance(n, ast.Assign) else [n.target]
                def tnames(t):
                    if isinstance(t, ast.Name): names.add(t.id)
                    elif isinstance(t, (ast.Tuple, ast.List)):
                        for x in t.elts: tnames(x)
                for t in ts: tnames(t)
            if isinstance(n, ast.For):
                for x in ast.walk(n.target):
                    if isinstance(x, ast.Name): names.add(x.id)
            if isinstance(n, ast.NamedExpr) and isinstance(n.target, ast.Name): names.add(n.target.id)
            if isinstance(n, ast.Call) and isinstance(n.func, ast.Attribute) and n.func.attr in ("append", "clear", "extend") and isinstance(n.func.value, ast.Name):
                names.add(n.func.value.id)
        return names

    def loop_inv(s, stmt, st, ctx, range_args=None, seq=None):
        """for i in range(lo, hi) with symbolic bounds / for x in <symbolic sequence> / while cond -- needs a loop spec.
        spec = (inv(st, eng) -> z3 Bool, dec(st, eng) -> z3 Int | None, {local: width}, optional havoc(st, eng) for heap state)"""
        if stmt.orelse: raise Unsupported("loop else")
        no = ctx.loop_ordinal(stmt)
        spec = s.loop_specs.get((ctx.qual, no))
        sel = getattr(s, "loop_spec_selector", None)
        if sel is not None:
            r = sel(ctx.qual, stmt, no)
            if r is not None: spec = r
        if spec is None: raise Unsupported(f"loop #{no} of {ctx.qual} needs an invariant")
        inv, dec, ltypes = spec[:3]; havoc_heap = spec[3] if len(spec) > 3 else None
        is_for = isinstance(stmt, ast.For)
        idx_name = f"__idx{no}"
        if is_for and seq is None:
            lo, hi = (0, range_args[0]) if len(range_args) == 1 else range_args[:2]
            ivar = stmt.target.id
            st.locals[ivar] = lo
            lo_e, hi_e = to_int(lo), to_int(hi)
        elif is_for:
            lo_e, hi_e = z3.IntVal(0), seq.n
            ivar = idx_name; st.locals[ivar] = 0; st.locals[f"__seq{no}"] = seq       # ghost locals: position in, and value of, the iterated sequence
        for nm, g in _inv_parts(inv(st, s)): ctx.oblige(st, f"inv-entry#{no}{nm}", g, stmt)
        st_h = st.fork()
        for name in sorted(s.assigned_names(stmt.body + ([ast.Expr(value=stmt.test)] if isinstance(stmt, ast.While) else [])) | ({ivar} if is_for else set())):
            cur = st_h.locals.get(name)
            if name in ltypes:
                w = ltypes[name]
                if isinstance(cur, int): ctx.oblige(st, f"range#{no}", z3.BoolVal(0 <= cur < (1 << w)), stmt)
                elif isinstance(cur, SBV): assert cur.w <= w
                st_h.locals[name] = SBV(fresh(name, z3.BitVecSort(w)))
            elif name in st_h.locals:
                if isinstance(cur, tuple) and len(cur) == 3 and cur[0] == "fieldref": continue          # alias of a field: the binding stays, the field is havocked with its object
                try: st_h.locals[name] = s.havoc_like(cur, name)
                except Unsupported:
                    # a local the loop body always assigns before it reads it (and that is not read after the loop through this path) carries nothing between iterations
                    fn_ = s.funcs.get(ctx.qual)
                    if _reads_incoming(stmt.body, name) == "read" or (isinstance(stmt, ast.While) and any(isinstance(x, ast.Name) and x.id == name and isinstance(x.ctx, ast.Load) for x in ast.walk(stmt.test))): raise
                    st_h.locals.pop(name, None)
        shapes = [st_h]
        if havoc_heap:
            r = havoc_heap(st_h, s)
            if isinstance(r, list): shapes = r
        outs = []
        for st_h in shapes:
            outs += s._loop_from(stmt, st_h, ctx, no, inv, dec, ltypes, is_for, seq, ivar if is_for else None, lo_e if is_for else None, hi_e if is_for else None)
        return outs

    def _loop_from(s, stmt, st_h, ctx, no, inv, dec, ltypes, is_for, seq, ivar, lo_e, hi_e):
        if is_for:
            iv = st_h.locals[ivar]
            st_h.pc += [to_int(iv) >= lo_e, to_int(iv) <= z3.If(hi_e > lo_e, hi_e, lo_e)]
        st_h.pc += [g for _, g in _inv_parts(inv(st_h, s))]
        outs = []
        d_head = dec(st_h.fork(), s) if dec else None          # the measure at the loop head, before the test runs (the test may have effects)
        if is_for:
            guard = to_int(st_h.locals[ivar]) < hi_e
            sb = st_h.fork(); sb.pc.append(guard)
            se = st_h.fork(); se.pc.append(z3.Not(guard))
            if seq is not None:
                k = to_int(sb.locals[ivar])
                s.assign(stmt.target, SBV(seq.at(k)) if isinstance(seq, SBytes) else SStr(z3.Select(seq.arr, k)) if isinstance(seq, SStrList) else SInt(z3.Select(seq.arr, k)), sb, ctx)
            bodies = [sb]; exits = [se]
        else:
            bodies, exits = [], []
            for sg, c in s.eval(stmt.test, st_h.fork(), ctx):
                if isinstance(c, Raised): outs.append((sg, RAISE, c)); continue
                for s2, b in s.split(sg, c): (bodies if b else exits).append(s2)
        for sb in bodies:
            if not s.feasible(sb): continue
            d0 = d_head
            for st2, f2, v2 in s.exec_block(stmt.body, sb, ctx):
                if f2 in (NORMAL, CONTINUE):
                    if is_for: st2.locals[ivar] = SInt(to_int(st2.locals[ivar]) + 1)
                    for name, w in ltypes.items():
                        v = st2.locals[name]
                        if isinstance(v, SBV) and v.w <= w: st2.locals[name] = SBV(to_bv(v, w))
                        elif isinstance(v, int) and not isinstance(v, bool): ctx.oblige(st2, f"range#{no}", z3.BoolVal(0 <= v < (1 << w)), stmt)
                        else: raise Unsupported(f"range of {name}: {v!r}")
                    for nm, g in _inv_parts(inv(st2, s)): ctx.oblige(st2, f"inv-keep#{no}{nm}", g, stmt)
                    if dec:
                        d1 = dec(st2, s); ctx.oblige(st2, f"dec#{no}", z3.And(d0 >= 0, d1 < d0), stmt)
                elif f2 == BREAK: outs.append((st2, NORMAL, None))
                else: outs.append((st2, f2, v2))
        for se in exits: outs.append((se, NORMAL, None))
        return outs

    def x_While(s, stmt, st, ctx):
        return s.loop_inv(stmt, st, ctx)

    def havoc_like(s, cur, name):
        if isinstance(cur, SBV): return SBV(fresh(name, z3.BitVecSort(cur.w)))
        if isinstance(cur, bool) or isinstance(cur, SBool): return SBool(fresh(name, z3.BoolSort()))
        if isinstance(cur, (int, SInt)): return SInt(fresh(name, z3.IntSort()))
        if isinstance(cur, SBytes):
            n = fresh(name + "_n", z3.IntSort()); s.len_vars.append(n); return SBytes(fresh(name, BYTE_ARR), n, 0)
        if isinstance(cur, (str, SStr)): return SStr(fresh(name, z3.StringSort()))
        if isinstance(cur, SOpt) or cur is None: return SOpt(fresh(name + "_none", z3.BoolSort()), fresh(name, z3.IntSort()))
        if isinstance(cur, SList):
            n = fresh(name + "_n", z3.IntSort()); s.len_vars.append(n); return SList(fresh(name, INT_ARR), n)
        if isinstance(cur, (list, GhostList)): return GhostList(name)
        if isinstance(cur, SStrList):
            n = fresh(name + "_n", z3.IntSort()); return SStrList(fresh(name, STR_ARR), n)
        if isinstance(cur, tuple): return tuple(s.havoc_like(x, f"{name}_{i}") for i, x in enumerate(cur))
        raise Unsupported(f"havoc {name}: {cur!r}")

    # ------------------------------------------------------------------ calls
    def construct(s, cls, st, args, ctx, node):
        ref = st.new_obj(cls)
        q = s.lookup_method(cls, "__init__")
        if q is None: return [(st, ref)]
        return [(st1, r if isinstance(r, Raised) else ref) for st1, r in s.call(q, st, [ref] + args, ctx, node)]

    def call(s, q, st, args, ctx, node):
        c = s.contracts.get(q)
        if c is not None and q != ctx.root.verifying and c._apply is not None:
            ctx.root.callees.add(q)
            return c.apply(s, st, args, ctx, node)
        return s.inline(q, st, args, ctx, node)

    def inline(s, q, st, args, ctx, node):
        """derived contract `result == body`: the callee body is executed in place (expression-bodied getters and small helpers)"""
        fn, mod, cls = s.funcs[q]
        if ctx.depth > 12: raise Unsupported(f"inline depth at {q}")
        s.derived.add(q); ctx.root.callees.add(q)
        sub = Ctx(s, mod, cls, q, parent=ctx)
        saved = st.locals
        params = [a.arg for a in fn.args.args]
        if len(args) < len(params):
            defaults = fn.args.defaults; nd = len(defaults)
            for i in range(len(args), len(params)):
                di = i - (len(params) - nd)
                if di < 0: raise Unsupported(f"missing argument {params[i]} for {q}")
                (st_, dv), = s.eval(defaults[di], st, sub); args = args + [dv]
        st.locals = dict(zip(params, args))
        st.locals["$entry"] = tuple(args)
        yields = sorted((n.lineno for n in ast.walk(fn) if isinstance(n, (ast.Yield, ast.YieldFrom))))
        if yields:
            # generator function: evaluated eagerly into the list of yielded values.  Equivalent to lazy evaluation when, after its first yield, the generator reads
            # nothing the consumer could have changed: checked syntactically (no attribute of self / module state is read below the first yield)
            if any(isinstance(n, ast.YieldFrom) for n in ast.walk(fn)): raise Unsupported(f"yield from in {q}")
            for n in ast.walk(fn):
                if isinstance(n, ast.Attribute) and isinstance(n.ctx, ast.Load) and getattr(n, "lineno", 0) > yields[0] and isinstance(n.value, ast.Name) and n.value.id in ("self", "cls"):
                    raise Unsupported(f"generator {q} reads object state after its first yield (eager evaluation would not be faithful)")
            st.locals["$yielded"] = []
        outs = []
        for st1, flow, val in s.exec_block(fn.body, st, sub):
            if yields and flow in (NORMAL, RETURN): val = list(st1.locals.get("$yielded", [])); flow = RETURN
            st1.locals = dict(saved)
            if flow in (NORMAL, RETURN): outs.append((st1, val if flow == RETURN else None))
            elif flow == RAISE: outs.append((st1, val))
            else: raise Unsupported(f"flow {flow} out of {q}")
        return outs

    # ------------------------------------------------------------------ top level: verify one function against its contract
    def verify(s, q, contract, label=None):
        """Run the body of q from every initial state of the contract; emit post / raises obligations.  Returns the obligation list."""
        fn, mod, cls = s.funcs[q]
        all_obls = []
        for shape_no, init in enumerate(contract.initial_states(s)):
            st, args = init[0], init[1]; shape = init[2] if len(init) > 2 else ""
            root = f"{label or q}" + (f"[{shape}]" if shape else "")
            ctx = Ctx(s, mod, cls, q, root_name=root); ctx.verifying = q; ctx.fork_implicit = contract.fork_implicit
            old = contract.snapshot(st, args, s)
            params = [a.arg for a in fn.args.args]
            st.locals = dict(zip(params, args)); st.locals["$entry"] = tuple(args)
            for st1, flow, val in s.exec_block(fn.body, st, ctx):
                s.stats["paths"] += 1
                if flow == RAISE:
                    if not s.feasible(st1): continue
                    goals = contract.raises(st1, args, val, old, s) if contract.raises else [(f"nothing escapes ({val.exc})", z3.BoolVal(False))]
                    for name, goal in goals: ctx.oblige(st1, f"raises:{name}", goal, fn)
                    continue
                if flow not in (NORMAL, RETURN): raise Unsupported(f"flow {flow}")
                for name, goal in contract.post(st1, args, val if flow == RETURN else None, old, s):
                    ctx.oblige(st1, f"post:{name}", goal, fn, reveal=contract.reveal_post)
            contract.callees |= ctx.callees
            all_obls += ctx.obls
        return all_obls

def _reads_incoming(stmts, nm):
    """does this statement list read the value `nm` had on entry?  'read' (it may), 'written' (always overwritten, or control leaves, first), 'open'"""
    def ld(n): return n is not None and any(isinstance(x, ast.Name) and x.id == nm and isinstance(x.ctx, ast.Load) for x in ast.walk(n))
    def sto(n): return any(isinstance(x, ast.Name) and x.id == nm and isinstance(x.ctx, ast.Store) for x in ast.walk(n))
    def one(st):
        if isinstance(st, ast.Assign):
            if ld(st.value) or any(ld(t) for t in st.targets): return "read"
            return "written" if any(isinstance(t, ast.Name) and t.id == nm for t in st.targets) or any(isinstance(t, (ast.Tuple, ast.List)) and sto(t) for t in st.targets) else "open"
        if isinstance(st, ast.AugAssign):
            if (isinstance(st.target, ast.Name) and st.target.id == nm) or ld(st.value) or ld(st.target): return "read"
            return "open"
        if isinstance(st, ast.AnnAssign):
            if ld(st.value) or ld(st.target): return "read"
            return "written" if st.value is not None and isinstance(st.target, ast.Name) and st.target.id == nm else "open"
        if isinstance(st, ast.If):
            if ld(st.test): return "read"
            a, b = _reads_incoming(st.body, nm), _reads_incoming(st.orelse, nm)
            if "read" in (a, b): return "read"
            return "written" if a == b == "written" else "open"
        if isinstance(st, (ast.For, ast.AsyncFor)):
            if ld(st.iter): return "read"
            if not sto(st.target) and _reads_incoming(st.body, nm) == "read": return "read"
            return "read" if _reads_incoming(st.orelse, nm) == "read" else "open"
        if isinstance(st, ast.While):
            if ld(st.test) or _reads_incoming(st.body, nm) == "read" or _reads_incoming(st.orelse, nm) == "read": return "read"
            return "open"
        if isinstance(st, ast.Try):
            for blk in [st.body] + [h.body for h in st.handlers] + [st.orelse, st.finalbody]:
                if _reads_incoming(blk, nm) == "read": return "read"
            return "open"
        if isinstance(st, (ast.With, ast.AsyncWith)):
            if any(ld(i.context_expr) for i in st.items): return "read"
            return _reads_incoming(st.body, nm)
        if isinstance(st, (ast.Return, ast.Raise)): return "read" if ld(st) else "written"
        if isinstance(st, (ast.Break, ast.Continue)): return "open"
        return "read" if ld(st) else "open"
    for st in stmts:
        r = one(st)
        if r != "open": return r
    return "open"

def loop_roles(fn, loop):
    """names of a loop's variables by role, so that invariants do not depend on what the locals are called:
    index   = the target of `for x in ...`, or the single variable a `while` loop steps by a constant (x += c / x = x + c)
    carried = names assigned in the body whose value from the previous iteration (or from before the loop) is read: loaded in the body
              no later than their first assignment there, in the loop test, or after the loop"""
    body = loop.body
    def stores(n): return {x.id for x in ast.walk(n) if isinstance(x, ast.Name) and isinstance(x.ctx, ast.Store)}
    def loads(n): return {x.id for x in ast.walk(n) if isinstance(x, ast.Name) and isinstance(x.ctx, ast.Load)} | \
                         {x.target.id for x in ast.walk(n) if isinstance(x, ast.AugAssign) and isinstance(x.target, ast.Name)}
    index = None
    if isinstance(loop, ast.For) and isinstance(loop.target, ast.Name): index = loop.target.id
    else:
        steps = set()
        for x in ast.walk(loop):
            if isinstance(x, ast.AugAssign) and isinstance(x.target, ast.Name) and isinstance(x.op, (ast.Add, ast.Sub)) and isinstance(x.value, ast.Constant): steps.add(x.target.id)
            if isinstance(x, ast.Assign) and len(x.targets) == 1 and isinstance(x.targets[0], ast.Name) and isinstance(x.value, ast.BinOp) and isinstance(x.value.op, (ast.Add, ast.Sub)) \
               and isinstance(x.value.left, ast.Name) and x.value.left.id == x.targets[0].id and isinstance(x.value.right, ast.Constant): steps.add(x.targets[0].id)
        if len(steps) == 1: index = next(iter(steps))
    assigned = set().union(*[stores(b) for b in body]) if body else set()
    carried = []
    end = max(getattr(x, "end_lineno", 0) or 0 for x in ast.walk(loop))
    after = {x.id for x in ast.walk(fn) if isinstance(x, ast.Name) and isinstance(x.ctx, ast.Load) and x.lineno > end}
    test_loads = loads(loop.test) if isinstance(loop, ast.While) else set()
    for nm in sorted(assigned):
        if nm == index and isinstance(loop, ast.For): continue
        if _reads_incoming(body, nm) == "read" or nm in after or nm in test_loads: carried.append(nm)
    return {"index": index, "carried": carried}

def _inv_parts(r):
    """a loop invariant is a z3 Bool or a list of (name, z3 Bool) clauses (one obligation per clause)"""
    if isinstance(r, (list, tuple)): return [(":" + nm, g) for nm, g in r]
    return [("", r)]

class Ctx:
    def __init__(s, eng, module, cls, qual, parent=None, root_name=None):
        s.eng = eng; s.module = module; s.cls = cls; s.qual = qual
        s.obls = parent.obls if parent else []
        s.root = parent.root if parent else s
        s.depth = parent.depth + 1 if parent else 0
        s._loop = itertools.count()
        if parent is None:
            s.root_name = root_name or qual; s.verifying = None; s.fork_implicit = False; s.callees = set(); s.counts = {}
        s.imports = {}
        for node in eng.trees[module].body:
            if isinstance(node, ast.ImportFrom):
                for al in node.names:
                    full = f"{node.module}.{al.name}"
                    if full in eng.trees: s.imports[al.asname or al.name] = ("module", full)
                    elif full in eng.classes: s.imports[al.asname or al.name] = ("class", full)
                    elif full in eng.funcs: s.imports[al.asname or al.name] = ("func", full)
                    elif full in eng.consts: s.imports[al.asname or al.name] = eng.consts[full]
                    else: s.imports[al.asname or al.name] = ("pyattr", full)
            elif isinstance(node, ast.Import):
                for al in node.names:
                    s.imports[al.asname or al.name.split(".")[0]] = ("module", al.name) if al.name in eng.trees else ("pymodule", al.name)
    def next_loop(s): return next(s._loop)
    def loop_ordinal(s, stmt):
        """lexical ordinal of a loop statement inside its function (stable across paths)"""
        fn = s.eng.funcs.get(s.qual)
        if fn is None: return s.next_loop()
        loops = sorted((n for n in ast.walk(fn[0]) if isinstance(n, (ast.For, ast.While))), key=lambda n: (n.lineno, n.col_offset))
        for i, n in enumerate(loops):
            if n is stmt: return i
        for i, n in enumerate(loops):          # a loop node synthesised from this function's source (un-rotated loop): same position
            if (n.lineno, n.col_offset) == (getattr(stmt, "lineno", -1), getattr(stmt, "col_offset", -1)) and type(n) is type(stmt): return i
        return s.next_loop()
    def oblige(s, st, kind, goal, node, reveal=False, **meta):
        g = goal if isinstance(goal, z3.ExprRef) else z3.BoolVal(bool(goal))
        if z3.is_true(z3.simplify(g)):
            s.eng.stats["trivially_true_after_simplification"] = s.eng.stats.get("trivially_true_after_simplification", 0) + 1; return
        key = (s.qual, kind)
        n = s.root.counts.get(key, 0); s.root.counts[key] = n + 1
        where = "" if s.qual == s.root.qual else f"@{s.qual.split('.')[-1]}"
        if st.ghost.get("$overapprox"): meta = dict(meta, overapprox=list(st.ghost["$overapprox"]))
        s.obls.append(Obligation(f"{s.root.root_name}#{kind}{where}.{n}", list(st.pc), g, getattr(node, 'lineno', 0), reveal=reveal,
                                 kind=kind.split(":")[0].split("#")[0], func=s.root.qual, meta=meta))

class Contract:
    """contract given as python callables building z3 terms:
      initial_states(eng) -> iterable of (state, args[, shape-label])   symbolic pre-states satisfying the precondition + invariants
      post(st, args, result, old, eng) -> iterable of (name, z3 Bool)    postconditions, one obligation each per path
      raises(st, args, Raised, old, eng) -> iterable of (name, z3 Bool)  exceptional postcondition (default: nothing escapes)
      apply(eng, st, args, ctx, node) -> [(state, value)]               call-site form: assert pre, havoc frame, assume post
      snapshot(st, args, eng) -> old"""
    def __init__(s, initial_states=None, post=None, apply=None, snapshot=None, raises=None, fork_implicit=False, reveal_post=False):
        s.initial_states = initial_states; s.post = post; s._apply = apply; s.raises = raises
        s.snapshot = snapshot or (lambda st, args, eng: None); s.fork_implicit = fork_implicit; s.reveal_post = reveal_post
        s.callees = set()
    def apply(s, eng, st, args, ctx, node):
        return s._apply(eng, st, args, ctx, node)
