"""Spec library, z3 face.  Every function here is written from the property statement or the cited standard
(RFC 1662, ISO/IEC 13239, IEC 62056-21), not from the code.  The executable Python twins used for replay and bounded
checks are in props/spec_py.py.

Opaque / transparent faces: bit-level step functions are uninterpreted symbols in loop and fold VCs and are
revealed *by substitution* (Engine.reveal_defs) in the obligations that need bit-level facts.
"""
import z3
from pyvc.engine import BYTE_ARR

BV8, BV16, I, B = z3.BitVecSort(8), z3.BitVecSort(16), z3.IntSort(), z3.BoolSort()
a = z3.Const("a", BYTE_ARR); lo, hi, i, n, j, p, m, k_ = z3.Ints("lo hi i n j p m k_"); v = z3.BitVec("v", 8)

# ---- RFC 1662 appendix C.2, bit-serial: one octet through the reflected CRC, generator x^16+x^12+x^5+1 (0x8408 reflected)
def fcs16_bit_def(reg, octet):
    c = reg ^ z3.ZeroExt(8, octet)
    for _ in range(8):
        c = z3.If(z3.Extract(0, 0, c) == 1, z3.LShR(c, 1) ^ z3.BitVecVal(0x8408, 16), z3.LShR(c, 1))
    return c
fcs16_bit = z3.Function("fcs16_bit", BV16, BV8, BV16)            # opaque face
FCS16_BIT_REVEAL = (fcs16_bit, fcs16_bit_def(z3.Var(0, BV16), z3.Var(1, BV8)))

FOLD = z3.RecFunction("fcs_fold", BYTE_ARR, I, I, BV16)          # fcs16_bit folded over a[lo:hi] from 0xFFFF
z3.RecAddDefinition(FOLD, [a, lo, hi], z3.If(hi <= lo, z3.BitVecVal(0xFFFF, 16), fcs16_bit(FOLD(a, lo, hi - 1), a[hi - 1])))
FOLD_T = z3.RecFunction("fcs_fold_T", BYTE_ARR, I, I, BV16)      # fully transparent face (refutation pass only)
z3.RecAddDefinition(FOLD_T, [a, lo, hi], z3.If(hi <= lo, z3.BitVecVal(0xFFFF, 16), fcs16_bit_def(FOLD_T(a, lo, hi - 1), a[hi - 1])))
FOLD_REFUTE = (FOLD, FOLD_T(z3.Var(0, BYTE_ARR), z3.Var(1, I), z3.Var(2, I)))
def fcs16(arr, l, h): return FOLD(arr, l, h) ^ 0xFFFF

def residue_goal(r, b1, b2, good=0xF0B8):
    """after the two FCS octets the register is the 'good' constant exactly when they are the complemented register, low octet first"""
    return (fcs16_bit(fcs16_bit(r, b1), b2) == good) == z3.And(b1 == z3.Extract(7, 0, ~r), b2 == z3.Extract(15, 8, ~r))

# ---- ISO/IEC 13239 field layout
def odd(x): return z3.Extract(0, 0, x) == 1
FO = z3.RecFunction("first_odd", BYTE_ARR, I, I, I)              # least index >= i with odd octet (address extension bit), else n
z3.RecAddDefinition(FO, [a, i, n], z3.If(i >= n, n, z3.If(odd(a[i]), i, FO(a, i + 1, n))))
def CP(arr, nn):
    """position of the control field (after destination and source address, which start at octet 2), -1 when not yet known"""
    e1 = FO(arr, 2, nn); e2 = FO(arr, e1 + 1, nn)
    return z3.If(nn <= 3, -1, z3.If(e1 + 1 >= nn, -1, z3.If(e2 >= nn, -1, e2 + 1)))
def len_field(arr): return z3.Concat(arr[0], arr[1]) & 0x7FF      # BV16: 11-bit frame length sub-field
def valid_frame(arr, nn):
    """statement of C01: length field equals the octet count and the FCS over all octets but the last two equals those two, low octet first"""
    f = fcs16(arr, 0, nn - 2)
    return z3.And(nn >= 2, z3.BV2Int(len_field(arr)) == nn, arr[nn - 2] == z3.Extract(7, 0, f), arr[nn - 1] == z3.Extract(15, 8, f))

FI = z3.RecFunction("flag_idx", BYTE_ARR, I, I, I)               # first index in [i,n) holding 0x7E, else n
z3.RecAddDefinition(FI, [a, i, n], z3.If(i >= n, n, z3.If(a[i] == 0x7E, i, FI(a, i + 1, n))))

# ---- RFC 1662 octet un-stuffing over the raw octets [0,k): 0x7D x -> x ^ 0x20
ESC = z3.RecFunction("esc_after", BYTE_ARR, I, B)                # an escape octet is pending after raw[0:k]
CNT = z3.RecFunction("cnt_after", BYTE_ARR, I, I)                # number of un-stuffed octets produced by raw[0:k]
z3.RecAddDefinition(ESC, [a, k_], z3.If(k_ <= 0, False, z3.And(z3.Not(ESC(a, k_ - 1)), a[k_ - 1] == 0x7D)))
z3.RecAddDefinition(CNT, [a, k_], z3.If(k_ <= 0, 0, CNT(a, k_ - 1) + z3.If(z3.And(z3.Not(ESC(a, k_ - 1)), a[k_ - 1] == 0x7D), 0, 1)))

# ---- CRC-16/ARC (IEC 62056-21 mode D check character): poly 0xA001 reflected, init 0, bit by bit
def crc16_arc_step_def(reg, octet):
    c = reg ^ z3.ZeroExt(8, octet)
    for _ in range(8):
        c = z3.If(z3.Extract(0, 0, c) == 1, z3.LShR(c, 1) ^ z3.BitVecVal(0xA001, 16), z3.LShR(c, 1))
    return c
arc_step = z3.Function("crc16_arc_step", BV16, BV8, BV16)
ARC_STEP_REVEAL = (arc_step, crc16_arc_step_def(z3.Var(0, BV16), z3.Var(1, BV8)))
ARC = z3.RecFunction("crc16_arc", BYTE_ARR, I, I, BV16)
z3.RecAddDefinition(ARC, [a, lo, hi], z3.If(hi <= lo, z3.BitVecVal(0, 16), arc_step(ARC(a, lo, hi - 1), a[hi - 1])))
ARC_T = z3.RecFunction("crc16_arc_T", BYTE_ARR, I, I, BV16)
z3.RecAddDefinition(ARC_T, [a, lo, hi], z3.If(hi <= lo, z3.BitVecVal(0, 16), crc16_arc_step_def(ARC_T(a, lo, hi - 1), a[hi - 1])))
ARC_REFUTE = (ARC, ARC_T(z3.Var(0, BYTE_ARR), z3.Var(1, I), z3.Var(2, I)))

# ---- back-off
POW2 = z3.RecFunction("pow2", I, I)
z3.RecAddDefinition(POW2, [n], z3.If(n <= 0, 1, 2 * POW2(n - 1)))
def backoff(nn, cap):
    return z3.If(nn <= 0, 0, z3.If(POW2(nn - 1) < cap, POW2(nn - 1), cap))

# ---- induction lemmas over the recursive spec functions: (obligations, axioms).  Each lemma is proved by explicit induction
#      (base + step obligations, no axioms in context) and then used as a pattern-annotated axiom.
def hdlc_lemmas(Obligation):
    obl = []; S = z3.Store(a, j, v)
    L1 = lambda h_: FOLD(S, lo, h_) == FOLD(a, lo, h_)
    obl.append(Obligation("lemma.fcs_fold_frame#base", [hi <= lo, j >= hi], L1(hi), use_axioms=False, kind="lemma"))
    obl.append(Obligation("lemma.fcs_fold_frame#step", [hi > lo, j >= hi, L1(hi - 1)], L1(hi), use_axioms=False, kind="lemma"))
    ax_fold_frame = z3.ForAll([a, j, v, lo, hi], z3.Implies(j >= hi, FOLD(z3.Store(a, j, v), lo, hi) == FOLD(a, lo, hi)), patterns=[FOLD(z3.Store(a, j, v), lo, hi)])
    # first_odd under an append at index j (two independently inductive halves: z3 is unstable on their conjunction)
    L2a = lambda p_: z3.Implies(FO(a, p_, j) < j, FO(S, p_, j + 1) == FO(a, p_, j))
    L2b = lambda p_: z3.Implies(FO(a, p_, j) >= j, FO(S, p_, j + 1) == z3.If(odd(v), j, j + 1))
    for nm, L2 in (("lt", L2a), ("ge", L2b)):
        obl.append(Obligation(f"lemma.first_odd_append_{nm}#base", [p == j], L2(p), use_axioms=False, kind="lemma"))
        obl.append(Obligation(f"lemma.first_odd_append_{nm}#step", [p < j, L2(p + 1)], L2(p), use_axioms=False, kind="lemma"))
    ax_fo_append = z3.ForAll([a, j, v, p, m], z3.Implies(z3.And(m == j + 1, p <= j),
        z3.And(z3.Implies(FO(a, p, j) < j, FO(z3.Store(a, j, v), p, m) == FO(a, p, j)),
               z3.Implies(FO(a, p, j) >= j, FO(z3.Store(a, j, v), p, m) == z3.If(odd(v), j, j + 1)))), patterns=[FO(z3.Store(a, j, v), p, m)])
    bnd = lambda f, p_: z3.And(f(a, p_, n) >= p_, f(a, p_, n) <= n)
    obl.append(Obligation("lemma.first_odd_bounds#base", [p == n], bnd(FO, p), use_axioms=False, kind="lemma"))
    obl.append(Obligation("lemma.first_odd_bounds#step", [p < n, bnd(FO, p + 1)], bnd(FO, p), use_axioms=False, kind="lemma"))
    ax_fo_bounds = z3.ForAll([a, p, n], z3.Implies(p <= n, bnd(FO, p)), patterns=[FO(a, p, n)])
    obl.append(Obligation("lemma.flag_idx_bounds#base", [p == n], bnd(FI, p), use_axioms=False, kind="lemma"))
    obl.append(Obligation("lemma.flag_idx_bounds#step", [p < n, bnd(FI, p + 1)], bnd(FI, p), use_axioms=False, kind="lemma"))
    ax_fi_bounds = z3.ForAll([a, p, n], z3.Implies(p <= n, bnd(FI, p)), patterns=[FI(a, p, n)])
    r = z3.BitVec("r", 16); b1, b2 = z3.BitVecs("b1 b2", 8)
    obl.append(Obligation("lemma.fcs_residue", [], residue_goal(r, b1, b2), reveal=True, use_axioms=False, kind="lemma"))
    ax_residue = z3.ForAll([r, b1, b2], residue_goal(r, b1, b2), patterns=[fcs16_bit(fcs16_bit(r, b1), b2)])
    can = Obligation("canary.fcs_residue_wrong_constant", [], residue_goal(r, b1, b2, good=0xF0B9), reveal=True, use_axioms=False, kind="canary", expect_refuted=True)
    obl.append(can)
    return obl, {"fold_frame": ax_fold_frame, "fo_append": ax_fo_append, "fo_bounds": ax_fo_bounds, "fi_bounds": ax_fi_bounds, "residue": ax_residue}

def unstuff_lemmas(Obligation):
    obl = []; kk = z3.Int("kk"); Sx = z3.Store(a, j, v)
    L = lambda k: z3.And(ESC(Sx, k) == ESC(a, k), CNT(Sx, k) == CNT(a, k))
    obl.append(Obligation("lemma.unstuff_frame#base", [kk <= 0, j >= kk], L(kk), use_axioms=False, kind="lemma"))
    obl.append(Obligation("lemma.unstuff_frame#step", [kk > 0, j >= kk, L(kk - 1)], L(kk), use_axioms=False, kind="lemma"))
    B_ = lambda k: z3.And(CNT(a, k) >= 0, CNT(a, k) <= k)
    obl.append(Obligation("lemma.cnt_bounds#base", [kk == 0], B_(kk), use_axioms=False, kind="lemma"))
    obl.append(Obligation("lemma.cnt_bounds#step", [kk > 0, B_(kk - 1)], B_(kk), use_axioms=False, kind="lemma"))
    ax = {"unstuff_frame": z3.ForAll([a, j, v, kk], z3.Implies(j >= kk, L(kk)), patterns=[ESC(Sx, kk), CNT(Sx, kk)]),
          "cnt_bounds": z3.ForAll([a, kk], z3.Implies(kk >= 0, B_(kk)), patterns=[CNT(a, kk)])}
    return obl, ax

# ---- content of the un-stuffed octets: U(a,k,i) = i-th octet produced after consuming raw[0:k]
U = z3.RecFunction("unstuffed_at", BYTE_ARR, I, I, BV8)
_prev_esc = ESC(a, k_ - 1); _c = a[k_ - 1]
z3.RecAddDefinition(U, [a, k_, i], z3.If(k_ <= 0, z3.BitVecVal(0, 8),
    z3.If(_prev_esc, z3.If(i == CNT(a, k_ - 1), _c ^ 0x20, U(a, k_ - 1, i)),
          z3.If(_c == 0x7D, U(a, k_ - 1, i), z3.If(i == CNT(a, k_ - 1), _c, U(a, k_ - 1, i))))))

def unstuff_content_lemmas(Obligation):
    obl = []; kk = z3.Int("kk"); Sx = z3.Store(a, j, v)
    L = lambda k: U(Sx, k, i) == U(a, k, i)
    fr = z3.And(ESC(Sx, kk - 1) == ESC(a, kk - 1), CNT(Sx, kk - 1) == CNT(a, kk - 1))     # instance of lemma unstuff_frame
    obl.append(Obligation("lemma.unstuffed_at_frame#base", [kk <= 0, j >= kk], L(kk), use_axioms=False, kind="lemma"))
    obl.append(Obligation("lemma.unstuffed_at_frame#step", [kk > 0, j >= kk, L(kk - 1), fr], L(kk), use_axioms=False, kind="lemma"))
    R = lambda k: k <= 2 * CNT(a, k) + z3.If(ESC(a, k), 1, 0)
    obl.append(Obligation("lemma.raw_length_bound#base", [kk == 0], R(kk), use_axioms=False, kind="lemma"))
    obl.append(Obligation("lemma.raw_length_bound#step", [kk > 0, R(kk - 1)], R(kk), use_axioms=False, kind="lemma"))
    ax = {"unstuffed_at_frame": z3.ForAll([a, j, v, kk, i], z3.Implies(j >= kk, L(kk)), patterns=[U(Sx, kk, i)]),
          "raw_length_bound": z3.ForAll([a, kk], z3.Implies(kk >= 0, R(kk)), patterns=[CNT(a, kk)])}
    return obl, ax

# ---- text helpers over byte arrays (P1 / IEC 62056-21)
bv = z3.BitVec("bv", 8)
FIDX = z3.RecFunction("first_index_of", BYTE_ARR, BV8, I, I, I)   # first index in [i,n) holding the octet, else n
z3.RecAddDefinition(FIDX, [a, bv, i, n], z3.If(i >= n, n, z3.If(a[i] == bv, i, FIDX(a, bv, i + 1, n))))
ALLASCII = z3.RecFunction("all_ascii", BYTE_ARR, I, I, B)         # every octet in [lo,hi) is < 0x80
z3.RecAddDefinition(ALLASCII, [a, lo, hi], z3.If(hi <= lo, True, z3.And(z3.ULT(a[hi - 1], 0x80), ALLASCII(a, lo, hi - 1))))
def is_bytes_ws(c): return z3.Or(c == 0x20, z3.And(z3.UGE(c, 0x09), z3.ULE(c, 0x0D)))                    # bytes.lstrip(): ASCII whitespace
def is_str_ws(c): return z3.Or(c == 0x20, z3.And(z3.UGE(c, 0x09), z3.ULE(c, 0x0D)), z3.And(z3.UGE(c, 0x1C), z3.ULE(c, 0x1F)))   # str.strip() on ASCII text
LSKIP_B = z3.RecFunction("lskip_bytes_ws", BYTE_ARR, I, I, I)      # first index in [i,n) that is not bytes-whitespace, else n
z3.RecAddDefinition(LSKIP_B, [a, i, n], z3.If(i >= n, n, z3.If(is_bytes_ws(a[i]), LSKIP_B(a, i + 1, n), i)))
LSKIP_S = z3.RecFunction("lskip_str_ws", BYTE_ARR, I, I, I)
z3.RecAddDefinition(LSKIP_S, [a, i, n], z3.If(i >= n, n, z3.If(is_str_ws(a[i]), LSKIP_S(a, i + 1, n), i)))
RSKIP_S = z3.RecFunction("rskip_str_ws", BYTE_ARR, I, I, I)        # least h in [lo,hi] such that [h,hi) is all str-whitespace
z3.RecAddDefinition(RSKIP_S, [a, lo, hi], z3.If(hi <= lo, lo, z3.If(is_str_ws(a[hi - 1]), RSKIP_S(a, lo, hi - 1), hi)))
def is_hex(c): return z3.Or(z3.And(z3.UGE(c, 0x30), z3.ULE(c, 0x39)), z3.And(z3.UGE(c, 0x41), z3.ULE(c, 0x46)), z3.And(z3.UGE(c, 0x61), z3.ULE(c, 0x66)))
def hexdigit(c): return z3.If(z3.ULE(c, 0x39), z3.BV2Int(c) - 0x30, z3.If(z3.ULE(c, 0x46), z3.BV2Int(c) - 0x41 + 10, z3.BV2Int(c) - 0x61 + 10))
def is_hex4(arr, l): return z3.And(*[is_hex(arr[l + q]) for q in range(4)])
def hexval4(arr, l): return ((hexdigit(arr[l]) * 16 + hexdigit(arr[l + 1])) * 16 + hexdigit(arr[l + 2])) * 16 + hexdigit(arr[l + 3])
# abstract (assumed) library functions: int(text, 16) and the identification-line pattern
INT16_OK = z3.Function("int16_ok", BYTE_ARR, I, I, B)              # int(text[lo:hi], 16) succeeds
INT16_VAL = z3.Function("int16_val", BYTE_ARR, I, I, I)            # its value
IDENT = z3.Function("is_ident_text", BYTE_ARR, I, I, B)            # re match of the identification-line pattern on text[lo:hi]

def text_lemmas(Obligation):
    obl = []; ax = {}
    bnd = lambda f, *pre: z3.And(f(*pre, p, n) >= p, f(*pre, p, n) <= n)
    for nm, f, pre in (("first_index_of", FIDX, (a, bv)), ("lskip_bytes_ws", LSKIP_B, (a,)), ("lskip_str_ws", LSKIP_S, (a,))):
        obl.append(Obligation(f"lemma.{nm}_bounds#base", [p == n], bnd(f, *pre), use_axioms=False, kind="lemma"))
        obl.append(Obligation(f"lemma.{nm}_bounds#step", [p < n, z3.And(f(*pre, p + 1, n) >= p + 1, f(*pre, p + 1, n) <= n)], bnd(f, *pre), use_axioms=False, kind="lemma"))
        ax[nm + "_bounds"] = z3.ForAll(list(pre) + [p, n], z3.Implies(p <= n, bnd(f, *pre)), patterns=[f(*pre, p, n)])
    rb = lambda h_: z3.And(RSKIP_S(a, lo, h_) >= lo, RSKIP_S(a, lo, h_) <= h_)
    obl.append(Obligation("lemma.rskip_str_ws_bounds#base", [hi == lo], rb(hi), use_axioms=False, kind="lemma"))
    obl.append(Obligation("lemma.rskip_str_ws_bounds#step", [hi > lo, rb(hi - 1)], rb(hi), use_axioms=False, kind="lemma"))
    ax["rskip_bounds"] = z3.ForAll([a, lo, hi], z3.Implies(lo <= hi, rb(hi)), patterns=[RSKIP_S(a, lo, hi)])
    # what first_index_of finds really holds the octet, and nothing before it does
    hit = lambda p_: z3.Implies(FIDX(a, bv, p_, n) < n, a[FIDX(a, bv, p_, n)] == bv)
    obl.append(Obligation("lemma.first_index_of_hit#base", [p >= n], hit(p), use_axioms=False, kind="lemma"))
    obl.append(Obligation("lemma.first_index_of_hit#step", [p < n, hit(p + 1)], hit(p), use_axioms=False, kind="lemma"))
    ax["fidx_hit"] = z3.ForAll([a, bv, p, n], hit(p), patterns=[FIDX(a, bv, p, n)])
    # all_ascii: closed under sub-ranges, and pointwise
    l2, h2, kq = z3.Ints("l2 h2 kq")
    Sx = lambda h_: z3.Implies(ALLASCII(a, lo, h_), ALLASCII(a, l2, h_))
    obl.append(Obligation("lemma.all_ascii_suffix#base", [lo <= l2, hi <= lo], Sx(hi), use_axioms=False, kind="lemma"))
    obl.append(Obligation("lemma.all_ascii_suffix#step", [lo <= l2, hi > lo, Sx(hi - 1)], Sx(hi), use_axioms=False, kind="lemma"))
    Px = lambda h_: z3.Implies(ALLASCII(a, l2, h_), ALLASCII(a, l2, h2))
    obl.append(Obligation("lemma.all_ascii_prefix#base", [hi == h2], Px(hi), use_axioms=False, kind="lemma"))
    obl.append(Obligation("lemma.all_ascii_prefix#step", [hi > h2, Px(hi - 1)], Px(hi), use_axioms=False, kind="lemma"))
    Tx = lambda h_: z3.Implies(z3.And(ALLASCII(a, lo, h_), lo <= kq, kq < h_), z3.ULT(a[kq], 0x80))
    obl.append(Obligation("lemma.all_ascii_pointwise#base", [hi <= lo], Tx(hi), use_axioms=False, kind="lemma"))
    obl.append(Obligation("lemma.all_ascii_pointwise#step", [hi > lo, Tx(hi - 1)], Tx(hi), use_axioms=False, kind="lemma"))
    ax["ascii_sub"] = z3.ForAll([a, lo, hi, l2, h2], z3.Implies(z3.And(ALLASCII(a, lo, hi), lo <= l2, h2 <= hi), ALLASCII(a, l2, h2)),
                                patterns=[z3.MultiPattern(ALLASCII(a, lo, hi), ALLASCII(a, l2, h2))])
    ax["ascii_pt"] = z3.ForAll([a, lo, hi, kq], Tx(hi), patterns=[z3.MultiPattern(ALLASCII(a, lo, hi), a[kq])])
    return obl, ax

def fidx_le_lemma(Obligation):
    """an occurrence at k bounds first_index_of from above"""
    kq = z3.Int("kq")
    L = lambda p_: z3.Implies(z3.And(p_ <= kq, kq < n, a[kq] == bv), FIDX(a, bv, p_, n) <= kq)
    obl = [Obligation("lemma.first_index_of_le#base", [p >= n], L(p), use_axioms=False, kind="lemma"),
           Obligation("lemma.first_index_of_le#step", [p < n, L(p + 1)], L(p), use_axioms=False, kind="lemma")]
    ax = z3.ForAll([a, bv, p, n, kq], L(p), patterns=[z3.MultiPattern(FIDX(a, bv, p, n), a[kq])])
    return obl, {"fidx_le": ax}

def fidx_stable_lemma(Obligation):
    """first_index_of does not depend on the upper bound once the octet has been found below it"""
    n2 = z3.Int("n2")
    L = lambda p_: z3.Implies(z3.And(FIDX(a, bv, p_, n) < n, n2 > FIDX(a, bv, p_, n)), FIDX(a, bv, p_, n2) == FIDX(a, bv, p_, n))
    obl = [Obligation("lemma.first_index_of_stable#base", [p >= n], L(p), use_axioms=False, kind="lemma"),
           Obligation("lemma.first_index_of_stable#step", [p < n, L(p + 1), z3.And(FIDX(a, bv, p + 1, n) >= p + 1)], L(p), use_axioms=False, kind="lemma")]
    ax = z3.ForAll([a, bv, p, n, n2], L(p), patterns=[z3.MultiPattern(FIDX(a, bv, p, n), FIDX(a, bv, p, n2))])
    return obl, {"fidx_stable": ax}

def _apps_of(exprs, decl):
    seen = set(); out = []; stack = list(exprs)
    while stack:
        x = stack.pop()
        if x.get_id() in seen: continue
        seen.add(x.get_id())
        if z3.is_quantifier(x): continue            # ground terms only
        if z3.is_app(x):
            if x.decl().eq(decl): out.append(x)
            stack.extend(x.children())
    return out

def fidx_instantiator(exprs):
    """explicit instances of lemma first_index_of_stable for every pair of ground first_index_of terms over the same array and octet
    (the start arguments may be arithmetically equal without being syntactically equal, which defeats trigger matching)"""
    apps = _apps_of(exprs, FIDX)[:14]; out = []
    for t in apps:      # lemmas first_index_of_hit and first_index_of_bounds at every ground term
        a_, v_, p1, n1 = t.children()
        out.append(z3.Implies(t < n1, a_[t] == v_)); out.append(z3.Implies(p1 <= n1, z3.And(t >= p1, t <= n1)))
    for t1 in apps:
        for t2 in apps:
            if t1.get_id() == t2.get_id() or not (t1.arg(0).eq(t2.arg(0)) and t1.arg(1).eq(t2.arg(1))): continue
            a_, v_, p1, n1 = t1.children(); p2, n2 = t2.arg(2), t2.arg(3)
            out.append(z3.Implies(z3.And(p1 == p2, t1 < n1, n2 > t1), t2 == t1))
    return out

def ascii_instantiator(exprs):
    """explicit instances of lemmas all_ascii_sub / all_ascii_pointwise over the ground terms of a VC"""
    apps = _apps_of(exprs, ALLASCII)[:10]; out = []
    for t1 in apps:
        for t2 in apps:
            if t1.get_id() != t2.get_id() and t1.arg(0).eq(t2.arg(0)):
                out.append(z3.Implies(z3.And(t1, t1.arg(1) <= t2.arg(1), t2.arg(2) <= t1.arg(2)), t2))
    sels = []
    seen = set(); stack = list(exprs)
    while stack:
        x = stack.pop()
        if x.get_id() in seen: continue
        seen.add(x.get_id())
        if z3.is_quantifier(x): continue
        if z3.is_app(x):
            if x.decl().kind() == z3.Z3_OP_SELECT and x.sort() == BV8: sels.append(x)
            stack.extend(x.children())
    for t1 in apps:
        for sx in sels[:12]:
            if sx.arg(0).eq(t1.arg(0)):
                kx = sx.arg(1); out.append(z3.Implies(z3.And(t1, t1.arg(1) <= kx, kx < t1.arg(2)), z3.ULT(sx, 0x80)))
    return out


def cnt_instantiator(exprs):
    """explicit instances of lemma cnt_bounds (0 <= cnt_after(a,k) <= k) at every ground cnt_after term"""
    out = []
    for t in _apps_of(exprs, CNT)[:20]:
        kx = t.arg(1); out.append(z3.Implies(kx >= 0, z3.And(t >= 0, t <= kx)))
    return out


LSKIPV = z3.RecFunction("lskip_octet", BYTE_ARR, BV8, I, I, I)      # first index in [i,n) whose octet differs from the given one, else n
z3.RecAddDefinition(LSKIPV, [a, bv, i, n], z3.If(i >= n, n, z3.If(a[i] == bv, LSKIPV(a, bv, i + 1, n), i)))
def lskipv_lemma(Obligation):
    bnd = lambda p_: z3.And(LSKIPV(a, bv, p_, n) >= p_, LSKIPV(a, bv, p_, n) <= n)
    obl = [Obligation("lemma.lskip_octet_bounds#base", [p == n], bnd(p), use_axioms=False, kind="lemma"),
           Obligation("lemma.lskip_octet_bounds#step", [p < n, bnd(p + 1)], bnd(p), use_axioms=False, kind="lemma")]
    return obl, {"lskipv_bounds": z3.ForAll([a, bv, p, n], z3.Implies(p <= n, bnd(p)), patterns=[LSKIPV(a, bv, p, n)])}
def lskipv_instantiator(exprs):
    out = []
    for t in _apps_of(exprs, LSKIPV)[:10]:
        a_, v_, p1, n1 = t.children(); out.append(z3.Implies(p1 <= n1, z3.And(t >= p1, t <= n1)))
    return out
