"""Grammar layer: symbolic parsing through the REAL construct object graphs of /repo.

The object graph (han.aidon.LlcPdu, ...) is dumped mechanically under /venv/bin/python on every run (tools/dump_grammar.py):
class of every combinator, constants, enum tables, switch cases, this-expressions as operator trees, and for every user
lambda its source position so that the Python layer (pyvc.engine) executes the lambda's AST from the real source.

Inputs have a FIXED LAYOUT: a Python list of octets, each a concrete int (tags, lengths, OBIS codes) or a symbolic 8-bit value
(registers, scalers, date-time fields, characters).  Offsets are concrete, so Array / GreedyRange / Select / Peek resolve
structurally, while every value-dependent decision forks on the path condition.

ASSUMED: the parse rule of each combinator class below is the semantics of construct 2.10.70 (DESIGN appendix C).  Every model
produced by the solver is replayed through the real `parse`, which is what cross-checks these rules.
"""
from __future__ import annotations
import ast, json, subprocess, os
import z3
from pyvc.engine import *

class Container(dict):
    """parse result of Struct (attribute access in the Python layer)"""
class PStr:
    """text decoded from octets (ASCII): list of octet values; compares / prints like the Python str it stands for"""
    def __init__(s, octs): s.octs = list(octs)
class EnumVal:
    def __init__(s, v, mapping): s.v = v; s.mapping = mapping     # v: int | SBV
class CErr(Exception):
    pass

def dump_grammars(repo, specs):
    here = os.path.dirname(os.path.dirname(os.path.abspath(__file__)))
    p = subprocess.run([os.environ.get("VERIF_REPO_PYTHON", "/venv/bin/python"), os.path.join(here, "tools", "dump_grammar.py"), repo] + list(specs), capture_output=True, text=True)
    if p.returncode != 0: raise Unsupported("grammar dump failed: " + p.stderr[-400:])
    return json.loads(p.stdout)

def byte_bv(b): return z3.BitVecVal(b, 8) if isinstance(b, int) else b
def ints_concrete(bs): return all(isinstance(b, int) for b in bs)
def be_value(bs, signed=False):
    """big-endian integer of a list of octets -> python int | SBV | SInt"""
    k = len(bs)
    if ints_concrete(bs):
        v = int.from_bytes(bytes(bs), "big", signed=signed); return v
    bv = byte_bv(bs[0]) if k == 1 else z3.Concat(*[byte_bv(b) for b in bs])
    if not signed: return SBV(bv)
    w = 8 * k
    return SInt(z3.If(z3.Extract(w - 1, w - 1, bv) == 1, z3.BV2Int(bv) - (1 << w), z3.BV2Int(bv)))

OK, FAIL, RAISE_ = "ok", "fail", "raise"

class GParser:
    def __init__(s, eng, inp, lambdas_of):
        s.eng = eng; s.inp = inp; s.lambdas_of = lambdas_of       # lambdas_of(file, line, args) -> (ast.Lambda, module, ctxobj)
        s.rules_used = set()

    # ---- this-expressions
    def ev(s, x, cctx):
        if isinstance(x, dict) and "path" in x:
            v = cctx
            for f in x["path"]:
                if not isinstance(v, dict) or f not in v: raise Unsupported(f"this-path {x['path']} not in context")
                v = v[f]
            return v
        if isinstance(x, dict) and "enum" in x: return x["int"]
        if isinstance(x, dict) and "func" in x:
            a = s.ev(x["arg"], cctx)
            if x["func"] == "len" and isinstance(a, list): return len(a)
            raise Unsupported(f"this-function {x['func']}")
        if isinstance(x, dict) and "bin" in x:
            l, r = s.ev(x["l"], cctx), s.ev(x["r"], cctx)
            l = l.v if isinstance(l, EnumVal) else l; r = r.v if isinstance(r, EnumVal) else r
            if x["bin"] in ("eq", "ne"):
                return s.eng.compare(ast.Eq() if x["bin"] == "eq" else ast.NotEq(), l, r)
            if x["bin"] == "mul": return s.eng.binop(ast.Mult(), l, r, ast.parse("0").body[0])
            raise Unsupported(f"this-operator {x['bin']}")
        if isinstance(x, dict): raise Unsupported(f"this-expression {list(x)}")
        return x

    def run_lambda(s, spec, argvals, st, ctx):
        lam, module = s.lambdas_of(spec["file"], spec["line"], spec["args"])
        sub = Ctx(s.eng, module, None, f"{module}.<lambda@{spec['line']}>", parent=ctx)
        free = {}
        for nm, v in (spec.get("freevars") or {}).items():
            if isinstance(v, dict): raise Unsupported(f"closure variable {nm} of the function at line {spec['line']} holds {v.get('obj')}")
            free[nm] = v
        saved = st.locals; st.locals = {**free, **dict(zip([a.arg for a in lam.args.args], argvals))}
        outs = []
        if isinstance(lam, ast.FunctionDef):       # a named function given to Computed / ExprAdapter
            for st1, flow, val in s.eng.exec_block(lam.body, st, sub):
                st1.locals = dict(saved)
                if flow in (NORMAL, RETURN): outs.append((st1, val if flow == RETURN else None))
                elif flow == RAISE: outs.append((st1, val))
                else: raise Unsupported(f"flow {flow} out of {lam.name}")
            return outs
        for st1, v in s.eng.eval(lam.body, st, sub):
            st1.locals = dict(saved); outs.append((st1, v))
        return outs

    def call_func(s, f, args, st, cctx, ctx):
        """Computed / Check / condfunc / keyfunc: a this-expression, a constant or a user lambda"""
        if isinstance(f, dict) and "lambda" in f: return s.run_lambda(f["lambda"], args, st, ctx)
        return [(st, s.ev(f, cctx))]

    # ---- parse
    def parse(s, node, st, off, cctx, ctx):
        """-> list of (kind, state, value|error, offset)"""
        cls = node["cls"]; s.rules_used.add(cls)
        m = getattr(s, "p_" + cls, None)
        if m is None: raise Unsupported(f"construct class {cls} has no parse rule")
        return m(node, st, off, cctx, ctx)

    def need(s, st, off, k):
        return off + k <= len(s.inp)

    def p_FormatField(s, node, st, off, cctx, ctx):
        k = node["length"]; fmt = node["fmtstr"]
        if not s.need(st, off, k): return [(FAIL, st, "StreamError", off)]
        signed = fmt[-1] in "bhiq"
        return [(OK, st, be_value(s.inp[off:off + k], signed), off + k)]
    def p_Renamed(s, node, st, off, cctx, ctx): return s.parse(node["subcon"], st, off, cctx, ctx)
    def p_Pass(s, node, st, off, cctx, ctx): return [(OK, st, None, off)]
    def p_Error(s, node, st, off, cctx, ctx): return [(FAIL, st, "ExplicitError", off)]
    def p_GreedyBytes(s, node, st, off, cctx, ctx): return [(OK, st, list(s.inp[off:]), len(s.inp))]

    def p_Enum(s, node, st, off, cctx, ctx):
        outs = []
        for kind, st1, v, o1 in s.parse(node["subcon"], st, off, cctx, ctx):
            outs.append((kind, st1, EnumVal(v, node["decmapping"]) if kind == OK else v, o1))
        return outs
    def p_Const(s, node, st, off, cctx, ctx):
        outs = []; want = s.ev(node["value"], cctx) if isinstance(node["value"], dict) else node["value"]
        if isinstance(want, dict) and "bytes" in want: raise Unsupported("bytes Const")
        for kind, st1, v, o1 in s.parse(node["subcon"], st, off, cctx, ctx):
            if kind != OK: outs.append((kind, st1, v, o1)); continue
            vv = v.v if isinstance(v, EnumVal) else v
            c = s.eng.compare(ast.Eq(), vv, want)
            for st2, b in s.eng.split(st1, c, check=True):
                outs.append((OK, st2, v, o1) if b else (FAIL, st2, "ConstError", o1))
        return outs
    def p_ExprAdapter(s, node, st, off, cctx, ctx):
        outs = []
        for kind, st1, v, o1 in s.parse(node["subcon"], st, off, cctx, ctx):
            if kind != OK: outs.append((kind, st1, v, o1)); continue
            for st2, r in s.run_lambda(node["decoder"]["lambda"], [v, cctx], st1, ctx):
                outs.append((RAISE_, st2, r, o1) if isinstance(r, Raised) else (OK, st2, r, o1))
        return outs
    def p_Computed(s, node, st, off, cctx, ctx):
        outs = []
        for st1, r in s.call_func(node["func"], [cctx], st, cctx, ctx):
            outs.append((RAISE_, st1, r, off) if isinstance(r, Raised) else (OK, st1, r, off))
        return outs
    def p_Check(s, node, st, off, cctx, ctx):
        outs = []
        for st1, r in s.call_func(node["func"], [cctx], st, cctx, ctx):
            if isinstance(r, Raised): outs.append((RAISE_, st1, r, off)); continue
            for st2, b in s.eng.split(st1, r, check=True):
                outs.append((OK, st2, None, off) if b else (FAIL, st2, "CheckError", off))
        return outs
    def p_Peek(s, node, st, off, cctx, ctx):
        outs = []
        for kind, st1, v, o1 in s.parse(node["subcon"], st, off, cctx, ctx):
            if kind == OK: outs.append((OK, st1, v, off))
            elif kind == FAIL and v != "ExplicitError": outs.append((OK, st1, None, off))       # Peek swallows ConstructError only
            else: outs.append((kind, st1, v, o1))
        return outs
    def p_IfThenElse(s, node, st, off, cctx, ctx):
        outs = []
        for st0, c in s.call_func(node["condfunc"], [cctx], st, cctx, ctx):
            if isinstance(c, Raised): outs.append((RAISE_, st0, c, off)); continue
            for st1, b in s.eng.split(st0, c, check=True):
                outs += s.parse(node["then"] if b else node["else"], st1, off, cctx, ctx)
        return outs
    def p_Switch(s, node, st, off, cctx, ctx):
        outs = []
        for st0, key in s.call_func(node["keyfunc"], [cctx], st, cctx, ctx):
            if isinstance(key, Raised): outs.append((RAISE_, st0, key, off)); continue
            kv = key.v if isinstance(key, EnumVal) else key
            rest = st0; matched_any = False
            for k, sub in node["cases"]:
                kk = s.ev(k, cctx)
                c = s.eng.compare(ast.Eq(), kv, kk) if kv is not None else False
                cz = z3.simplify(to_bool(c))
                if z3.is_false(cz): continue
                yes = rest.fork(); yes.pc.append(cz)
                if s.eng.feasible(yes): outs += s.parse(sub, yes, off, cctx, ctx)
                if z3.is_true(cz): rest = None; break
                rest = rest.fork(); rest.pc.append(z3.Not(cz))
            if rest is not None and s.eng.feasible(rest): outs += s.parse(node["default"], rest, off, cctx, ctx)
        return outs
    def struct_like(s, node, st, off, cctx, ctx, focus=None):
        frontier = [(st, Container(), Container(_=cctx, **({"_index": cctx["_index"]} if isinstance(cctx, dict) and "_index" in cctx else {})), off)]
        outs = []
        for sc in node["subcons"]:
            nxt = []
            for st1, obj, c1, o1 in frontier:
                for kind, st2, v, o2 in s.parse(sc, st1, o1, c1, ctx):
                    if kind != OK: outs.append((kind, st2, v, o2)); continue
                    obj2, c2 = Container(obj), Container(c1)
                    if sc.get("name"): obj2[sc["name"]] = v; c2[sc["name"]] = v
                    nxt.append((st2, obj2, c2, o2))
            frontier = nxt
        for st1, obj, c1, o1 in frontier:
            outs.append((OK, st1, obj[focus] if focus else obj, o1))
        return outs
    def p_Struct(s, node, st, off, cctx, ctx): return s.struct_like(node, st, off, cctx, ctx)
    def p_FocusedSeq(s, node, st, off, cctx, ctx):
        f = node["parsebuildfrom"]
        if not isinstance(f, str): raise Unsupported("FocusedSeq with computed focus")
        return s.struct_like(node, st, off, cctx, ctx, focus=f)
    def p_Array(s, node, st, off, cctx, ctx):
        cnt = s.ev(node["count"], cctx) if isinstance(node["count"], dict) else node["count"]
        cnt = cnt.v if isinstance(cnt, EnumVal) else cnt
        if not isinstance(cnt, int) or isinstance(cnt, bool): raise Unsupported("Array count is not concrete in this layout")
        if cnt < 0: return [(FAIL, st, "RangeError", off)]
        frontier = [(st, [], off)]; outs = []
        for i in range(cnt):
            nxt = []
            for st1, items, o1 in frontier:
                c1 = Container(cctx); c1["_index"] = i
                for kind, st2, v, o2 in s.parse(node["subcon"], st1, o1, c1, ctx):
                    if kind != OK: outs.append((kind, st2, v, o2)); continue
                    nxt.append((st2, items + [v], o2))
            frontier = nxt
        return outs + [(OK, st1, items, o1) for st1, items, o1 in frontier]
    def p_GreedyRange(s, node, st, off, cctx, ctx):
        outs = []; frontier = [(st, [], off)]; guard = 0
        while frontier:
            guard += 1
            if guard > 300: raise Unsupported("GreedyRange does not end")
            nxt = []
            for st1, items, o1 in frontier:
                c1 = Container(cctx); c1["_index"] = len(items)
                for kind, st2, v, o2 in s.parse(node["subcon"], st1, o1, c1, ctx):
                    if kind == OK:
                        nxt.append((st2, items + [v], o2))
                    elif kind == FAIL and v == "ExplicitError": outs.append((kind, st2, v, o2))
                    else: outs.append((OK, st2, items, o1))          # GreedyRange swallows every other exception and restores the offset
            frontier = nxt
        return outs
    def p_Select(s, node, st, off, cctx, ctx):
        outs = []; pending = [st]
        for sc in node["subcons"]:
            nxt = []
            for st0 in pending:
                for kind, st2, v, o2 in s.parse(sc, st0, off, cctx, ctx):
                    if kind == OK: outs.append((OK, st2, v, o2))
                    elif kind == FAIL and v == "ExplicitError": outs.append((kind, st2, v, o2))
                    else: nxt.append(st2)                            # Select swallows every other exception and tries the next alternative
            pending = nxt
        return outs + [(FAIL, st0, "SelectError", off) for st0 in pending]
    def p_Transformed(s, node, st, off, cctx, ctx):
        k = node["decodeamount"]
        if not isinstance(k, int): raise Unsupported("Transformed amount")
        if not s.need(st, off, k): return [(FAIL, st, "StreamError", off)]
        bs = s.inp[off:off + k]; bv = byte_bv(bs[0]) if k == 1 else z3.Concat(*[byte_bv(b) for b in bs])
        sub = node["subcon"]
        if sub["cls"] != "Struct": raise Unsupported("Transformed over non-Struct")
        cont = Container(); pos = 8 * k
        for sc in sub["subcons"]:
            leaf = sc; mapping = None
            while leaf["cls"] in ("Renamed", "Enum"):
                if leaf["cls"] == "Enum": mapping = leaf["decmapping"]
                leaf = leaf["subcon"]
            if leaf["cls"] == "BitsInteger": ln = leaf["length"]
            elif leaf["cls"] == "Padded": ln = leaf["length"]
            else: raise Unsupported(f"bit field {leaf['cls']}")
            val = z3.simplify(z3.Extract(pos - 1, pos - ln, bv)); pos -= ln
            v = val.as_long() if z3.is_bv_value(val) else SBV(val)
            if mapping is not None: v = EnumVal(v, mapping)
            if sc.get("name"): cont[sc["name"]] = v
        return [(OK, st, cont, off + k)]
    def p_StringEncoded(s, node, st, off, cctx, ctx):
        if node.get("encoding", "").lower() not in ("ascii",): raise Unsupported("string encoding")
        outs = []
        for kind, st1, v, o1 in s.parse(node["subcon"], st, off, cctx, ctx):
            if kind != OK: outs.append((kind, st1, v, o1)); continue
            sym = [b for b in v if not isinstance(b, int)]
            if any(isinstance(b, int) and b >= 0x80 for b in v): outs.append((FAIL, st1, "StringError", o1)); continue
            ok = z3.And(*[z3.ULT(b, 0x80) for b in sym]) if sym else z3.BoolVal(True)
            for st2, b in s.eng.split(st1, SBool(ok) if sym else True, check=True):
                outs.append((OK, st2, PStr(v), o1) if b else (FAIL, st2, "StringError", o1))
        return outs
    def p_Prefixed(s, node, st, off, cctx, ctx):
        outs = []
        for kind, st1, ln, o1 in s.parse(node["lengthfield"], st, off, cctx, ctx):
            if kind != OK: outs.append((kind, st1, ln, o1)); continue
            if not isinstance(ln, int): raise Unsupported("symbolic string length in this layout")
            if o1 + ln > len(s.inp): outs.append((FAIL, st1, "StreamError", o1)); continue
            if node["subcon"]["cls"] != "GreedyBytes": raise Unsupported("Prefixed over non-GreedyBytes")
            outs.append((OK, st1, list(s.inp[o1:o1 + ln]), o1 + ln))
        return outs
    def p_FixedSized(s, node, st, off, cctx, ctx):
        ln = s.ev(node["length"], cctx) if isinstance(node["length"], dict) else node["length"]
        if not isinstance(ln, int): raise Unsupported("symbolic FixedSized length in this layout")
        if ln < 0: return [(FAIL, st, "PaddingError", off)]
        if off + ln > len(s.inp): return [(FAIL, st, "StreamError", off)]
        sub = node["subcon"]
        data = list(s.inp[off:off + ln])
        if sub["cls"] == "NullStripped":
            if sub["subcon"]["cls"] != "GreedyBytes": raise Unsupported("NullStripped over non-GreedyBytes")
            # one path per feasible number of trailing NUL octets (decided against the path condition; nothing is assumed about symbolic octets)
            # (at most two symbolic NUL octets are followed: the paths multiply over the strings of a list)
            outs = []; work = [(st, data, 0)]
            while work:
                st_, d, k = work.pop()
                while d and isinstance(d[-1], int) and d[-1] == 0: d = d[:-1]
                if not d or isinstance(d[-1], int): outs.append((OK, st_, d, off + ln)); continue
                for st2, b in s.eng.split(st_, SBool(d[-1] != 0), check=True):
                    if b: outs.append((OK, st2, list(d), off + ln))
                    elif k >= 2: raise Unsupported("more than two trailing NUL octets possible in a NUL-stripped string")
                    else: work.append((st2, d[:-1], k + 1))
            return outs
        if sub["cls"] == "GreedyBytes": return [(OK, st, data, off + ln)]
        raise Unsupported(f"FixedSized over {sub['cls']}")

def lambda_finder(eng, modules):
    """-> lambdas_of(file, line, args) over the real source of the given modules"""
    index = {}
    for m in modules:
        path = os.path.realpath(eng.paths[m])
        for n in ast.walk(eng.trees[m]):
            if isinstance(n, (ast.Lambda, ast.FunctionDef)): index.setdefault((path, n.lineno, tuple(a.arg for a in n.args.args)), []).append((n, m))
    by_base = {}
    for (path, line, args), v in index.items(): by_base.setdefault((os.path.basename(path), line, args), []).extend(v)
    def find(file, line, args):
        c = index.get((os.path.realpath(file), line, tuple(args))) or by_base.get((os.path.basename(file), line, tuple(args)))
        if not c or len(c) != 1: raise Unsupported(f"lambda {file}:{line}{tuple(args)} not found uniquely in the source")
        return c[0]
    return find
