import sys, os, json, importlib, argparse
sys.path.insert(0, os.path.dirname(os.path.dirname(os.path.abspath(__file__))))
from pyvc import run

def main():
    ap = argparse.ArgumentParser()
    ap.add_argument("pid"); ap.add_argument("--tier", default=os.environ.get("VERIF_TIER", "quick")); ap.add_argument("--replay")
    a = ap.parse_args()
    pid = a.pid.upper()
    if a.replay:
        doc = json.load(open(a.replay)); print(json.dumps(doc, indent=1)[:4000])
        sys.exit(0)
    try:
        mod = importlib.import_module(f"props.{pid.lower()}")
        code = run.run_property(pid, mod.build, tier=a.tier, fallback=getattr(mod, "fallback", None))
    except SystemExit: raise
    except BaseException:
        import traceback; traceback.print_exc()
        print(f"CHECKER-FAILURE property={pid} (exit 3; this is not a verdict about the code)")
        code = 3
    sys.exit(code)
main()
