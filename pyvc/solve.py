"""Discharge obligations: z3 (Python API, forked worker pool) with a bounded refutation pass and an optional
cvc5 / second-solver cross-check through SMT-LIB text.

Verdict per obligation
  proved     `unsat` on the unbounded VC
  refuted    `sat` on the VC, or `sat` on its bounded form (all spec functions transparent, lemma axioms dropped,
             sequence lengths <= K) -- a concrete model; the witness extractor of the obligation turns it into an input
  undecided  anything else (unknown / timeout)
"""
from __future__ import annotations
import multiprocessing as mp, os, subprocess, tempfile, time, traceback
import z3

_G = {}

def _subst(eng, exprs, defs):
    return [z3.substitute_funs(e, *defs) for e in exprs] if defs else list(exprs)

def _consts_of(exprs):
    seen = set(); out = {}
    def walk(e):
        if e.get_id() in seen: return
        seen.add(e.get_id())
        if z3.is_quantifier(e): walk(e.body()); return
        if z3.is_app(e):
            if e.num_args() == 0 and e.decl().kind() == z3.Z3_OP_UNINTERPRETED: out[str(e)] = e
            for c in e.children(): walk(c)
    for e in exprs: walk(e)
    return out

def vc_exprs(eng, ob, mode="prove"):
    """-> list of z3 assertions whose unsatisfiability is the obligation"""
    hyps = list(ob.hyps); goal = ob.goal
    if mode == "refute":
        defs = list(eng.refute_defs) + list(eng.reveal_defs)
        for d in (eng.refute_defs, eng.reveal_defs):
            if d: hyps = _subst(eng, hyps, d); goal = _subst(eng, [goal], d)[0]
        return hyps + [z3.Not(goal)]
    if ob.reveal:
        for d in (eng.refute_defs, eng.reveal_defs):
            if d: hyps = _subst(eng, hyps, d); goal = _subst(eng, [goal], d)[0]
    # revealed (bit-level) obligations are solved without quantified lemma axioms: a quantifier in the context makes pure
    # bit-vector queries undecided (DESIGN appendix F, lesson 2)
    ax = list(eng.prelude_axioms) if (ob.use_axioms and not ob.reveal) else []
    goal, sks = skolemize_goal(goal)
    inst = instantiate_at(hyps, sks) if sks else []
    if ob.use_axioms and not ob.reveal:
        for f in getattr(eng, "instantiators", []): inst += f(hyps + [goal])      # lemmas are called, not only triggered
    return ax + hyps + inst + [z3.Not(goal)]

def skolemize_goal(goal):
    """And(.., ForAll k. P(k), ..)  ->  And(.., P(sk), ..) with fresh sk (universal generalisation); returns (goal', [sk...])"""
    sks = []
    def sk(g):
        if z3.is_quantifier(g) and g.is_forall():
            cs = [z3.FreshConst(g.var_sort(i), "sk") for i in range(g.num_vars())]
            sks.extend(cs)
            return sk(z3.substitute_vars(g.body(), *reversed(cs)))
        if z3.is_and(g): return z3.And(*[sk(c) for c in g.children()])
        if z3.is_implies(g): return z3.Implies(g.arg(0), sk(g.arg(1)))
        return g
    return sk(goal), sks

def instantiate_at(hyps, sks):
    """explicit instances of single-variable quantified hypotheses at the goal's skolem constants (and their neighbours).
    Instances are consequences of the hypotheses, so this only helps the solver; the quantified hypotheses stay in place."""
    out = []
    def quants(h):
        if z3.is_quantifier(h) and h.is_forall() and h.num_vars() == 1: yield h
        elif z3.is_and(h):
            for c in h.children(): yield from quants(c)
    for h in hyps:
        for q in quants(h):
            for c in sks:
                if c.sort() != q.var_sort(0): continue
                terms = [c] + ([c - 1, c + 1] if z3.is_int(c) else [])
                for t in terms: out.append(z3.substitute_vars(q.body(), t))
    return out

_BV_OK = None
def generalize_qfbv(e):
    """replace every maximal sub-term that is not a pure bit-vector / boolean operator by a fresh constant of its sort.
    The result is a QF_BV formula G with  valid(G) => valid(e)  (generalisation only loses facts)."""
    cache = {}
    bvkinds = {z3.Z3_OP_BNOT, z3.Z3_OP_BAND, z3.Z3_OP_BOR, z3.Z3_OP_BXOR, z3.Z3_OP_BADD, z3.Z3_OP_BSUB, z3.Z3_OP_BMUL, z3.Z3_OP_BNEG, z3.Z3_OP_BSHL, z3.Z3_OP_BLSHR, z3.Z3_OP_BASHR,
               z3.Z3_OP_CONCAT, z3.Z3_OP_EXTRACT, z3.Z3_OP_ZERO_EXT, z3.Z3_OP_SIGN_EXT, z3.Z3_OP_ULT, z3.Z3_OP_ULEQ, z3.Z3_OP_UGT, z3.Z3_OP_UGEQ,
               z3.Z3_OP_SLT, z3.Z3_OP_SLEQ, z3.Z3_OP_SGT, z3.Z3_OP_SGEQ, z3.Z3_OP_BNUM, z3.Z3_OP_ITE, z3.Z3_OP_EQ, z3.Z3_OP_DISTINCT,
               z3.Z3_OP_AND, z3.Z3_OP_OR, z3.Z3_OP_NOT, z3.Z3_OP_IMPLIES, z3.Z3_OP_XOR, z3.Z3_OP_TRUE, z3.Z3_OP_FALSE, z3.Z3_OP_IFF if hasattr(z3, "Z3_OP_IFF") else z3.Z3_OP_EQ}
    def ok_sort(x): return z3.is_bv(x) or z3.is_bool(x)
    def go(x):
        k = x.get_id()
        if k in cache: return cache[k]
        r = None
        if z3.is_app(x) and ok_sort(x):
            kind = x.decl().kind()
            if x.num_args() == 0 and kind == z3.Z3_OP_UNINTERPRETED: r = x
            elif kind in bvkinds and all(ok_sort(c) for c in x.children()):
                ch = [go(c) for c in x.children()]
                r = x.decl()(*ch) if ch else x
        if r is None:
            if not ok_sort(x): raise ValueError("non bit-vector sort at top")
            r = z3.FreshConst(x.sort(), "gen")
        cache[k] = r
        return r
    return go(e)

def _witness(eng, ob, model):
    w = {}
    fn = ob.meta.get("witness")
    try:
        if fn is not None: w = fn(model) or {}
    except Exception as ex:      # witness extraction must never turn into a verdict
        w = {"witness_error": repr(ex)}
    try:
        consts = _consts_of(ob.hyps + [ob.goal])
        vals = {}
        for name, c in list(consts.items())[:60]:
            if z3.is_array(c) or z3.is_seq(c) and not z3.is_string(c): continue
            vals[name] = str(model.eval(c, model_completion=True))
        w["model_consts"] = vals
    except Exception as ex:
        w["model_consts_error"] = repr(ex)
    return w

def solve_one(i):
    eng, obls, opts = _G["eng"], _G["obls"], _G["opts"]
    ob = obls[i]
    budget = opts["budget_ms"](ob)
    res = {"i": i, "result": "undecided", "secs": 0.0, "backend": "z3-" + z3.get_version_string(), "witness": None, "detail": ""}
    t0 = time.time()
    try:
        first = min(budget, opts.get("first_ms", 2500))
        opaque = bool(eng.reveal_defs or eng.refute_defs)
        if ob.reveal:
            # bit-level fast path: goal alone, non-bit-vector sub-terms generalised to fresh constants, QF_BV tactic
            try:
                goal = vc_exprs(eng, ob)[-1]            # Not(goal), revealed
                g = generalize_qfbv(goal)
                sol = z3.SolverFor("QF_BV"); sol.set("timeout", int(budget)); sol.add(g)
                if sol.check() == z3.unsat:
                    res.update(result="proved", backend=res["backend"] + " (QF_BV, goal generalised)", secs=round(time.time() - t0, 3)); return res
            except (ValueError, z3.Z3Exception):
                pass
        # quantifier-free attempt: quantified hypotheses and lemma axioms replaced by their explicit instances at the goal's
        # skolem constants (fewer hypotheses: `unsat` is still a proof); avoids the seed-sensitive quantifier engine
        if not ob.reveal:
            try:
                full = vc_exprs(eng, ob)
                flat = []
                for e in full:
                    stack = [e]
                    while stack:
                        x = stack.pop()
                        if z3.is_and(x): stack.extend(x.children())
                        else: flat.append(x)
                lite = [e for e in flat if not _has_quantifier(e)]; full = flat
                from pyvc.engine import _light
                # (A) recursive spec functions abstracted to uninterpreted ones (weaker facts; no unfolding)  (B) with their definitions
                t_qf = max(1500, int(budget) // 4)
                attempts = [("quantifier-free instances, spec functions uninterpreted", [x for x in (_light(e) for e in lite) if x is not None], t_qf)]
                if len(lite) < len(full): attempts.append(("quantifier-free instances", lite, t_qf))
                for label, exprs_, tmo_ in attempts:
                    sol = z3.Solver(); sol.set("timeout", int(min(budget, tmo_))); sol.add(*exprs_)
                    if sol.check() == z3.unsat:
                        res.update(result="proved", backend=res["backend"] + f" ({label})", secs=round(time.time() - t0, 3)); return res
            except z3.Z3Exception:
                pass
        relaxed = None
        for phase, tmo in (("quick", first), ("refute", None), ("full", budget)):
            if phase == "refute":
                if not opts.get("refute", True): continue
                try: r = _refute(eng, ob, opts)
                except z3.Z3Exception as ex:
                    res["detail"] += f" [z3 exception in refutation pass: {str(ex)[:80]}]"; r = None
                if r is not None:
                    res.update(result="refuted", witness=r[0], detail=f"bounded refutation pass: sat with sequence lengths <= {r[1]}, spec functions transparent, lemma axioms dropped")
                    if isinstance(r[0], dict) and r[0].get("relaxed_candidate") and budget > first:
                        # only a candidate (hypotheses were dropped to find it): the full attempt still gets its turn, so that a loaded machine
                        # (short first attempts timing out) cannot turn a provable obligation into a candidate refutation
                        relaxed = dict(res); continue
                    break
                continue
            if phase == "full" and budget <= first: break
            exprs = vc_exprs(eng, ob)
            seeds = (0,) if phase == "quick" else (1, 2, 3)
            for seed in seeds:       # z3's instantiation heuristics are seed-sensitive on recursive definitions: retry with other seeds
                sol = z3.Solver(); sol.set("timeout", int(tmo if phase == "quick" else max(1000, tmo // len(seeds)))); sol.set("random_seed", seed)
                sol.add(*exprs)
                try: r = sol.check()
                except z3.Z3Exception as ex:       # an internal solver error is an 'unknown', never a verdict
                    res["detail"] += f" [z3 exception: {str(ex)[:80]}]"; r = z3.unknown
                if r != z3.unknown: break
            if r == z3.unsat:
                res.update(result="proved", witness=None, detail=""); relaxed = None; break
            if r == z3.sat:
                if not opaque:
                    res.update(result="refuted", witness=_witness(eng, ob, sol.model()), detail="sat on the unbounded VC"); break
                res["detail"] = "sat with opaque spec symbols (candidate only; not a counterexample)"
                if phase == "full" or not opts.get("refute", True): break
                continue
            res["detail"] = f"unknown ({sol.reason_unknown()}) at {tmo} ms"
        if relaxed is not None and res["result"] != "proved":
            res.update(result="refuted", witness=relaxed["witness"], detail=relaxed["detail"])
    except Exception:
        res.update(result="error", detail=traceback.format_exc()[-1500:])
    res["secs"] = round(time.time() - t0, 3)
    return res

def _refute(eng, ob, opts):
    exprs = vc_exprs(eng, ob, "refute")
    consts = _consts_of(exprs)
    lens = [v for v in eng.len_vars if str(v) in consts]
    extra_bound = ob.meta.get("refute_bound")
    for K in opts.get("refute_K", (2, 5, 9)):
        sol = z3.Solver(); sol.set("timeout", int(opts.get("refute_ms", 4000)))
        sol.add(*exprs)
        for lv in lens: sol.add(lv >= 0, lv <= K)
        if extra_bound is not None: sol.add(*extra_bound(K))
        r = sol.check()
        if r == z3.sat: return _witness(eng, ob, sol.model()), K
        if r == z3.unsat and not lens and extra_bound is None: return None
    # relaxed candidate search: no length bound, hypotheses that mention recursive / opaque spec functions dropped.
    # A model of the relaxed VC is only a *candidate*: it counts only if the replay on the real code confirms it
    # (the replay builds its pre-state through the public API, which re-establishes the dropped state invariants).
    if ob.meta.get("replay") and not ob.meta.get("no_relaxed"):
        hyps = [h for h in exprs[:-1] if not _mentions_spec_fn(h)]
        sol = z3.Solver(); sol.set("timeout", int(opts.get("refute_ms", 4000)))
        sol.add(*hyps); sol.add(exprs[-1])
        if sol.check() == z3.sat:
            w = _witness(eng, ob, sol.model()); w["relaxed_candidate"] = True
            return w, "unbounded (relaxed candidate)"
    return None

def _has_quantifier(e):
    seen = set(); stack = [e]
    while stack:
        x = stack.pop()
        if x.get_id() in seen: continue
        seen.add(x.get_id())
        if z3.is_quantifier(x): return True
        if z3.is_app(x): stack.extend(x.children())
    return False

def _mentions_spec_fn(e):
    seen = set(); stack = [e]
    while stack:
        x = stack.pop()
        if x.get_id() in seen: continue
        seen.add(x.get_id())
        if z3.is_quantifier(x): stack.append(x.body()); continue
        if z3.is_app(x):
            k = x.decl().kind()
            if k == z3.Z3_OP_RECURSIVE or (k == z3.Z3_OP_UNINTERPRETED and x.num_args() > 0): return True
            stack.extend(x.children())
    return False

def _quiet_worker():
    """solver workers report through the pool only: the C++ side of z3 occasionally prints internal diagnostics (e.g. 'ASSERTION VIOLATION ... theory_bv.cpp',
    which the Python side turns into a Z3Exception that is handled as `unknown`); they must not end up in the check's output"""
    try:
        dn = os.open(os.devnull, os.O_WRONLY); os.dup2(dn, 1); os.dup2(dn, 2); os.close(dn)
    except OSError:
        pass

def discharge(eng, obls, budget_ms=None, workers=None, refute=True, first_ms=2500, refute_ms=4000, refute_K=(2, 5, 9), verbose=False):
    """fills result/secs/backend/model(witness)/detail of every obligation; forked pool (z3 objects are inherited, results are plain dicts)"""
    if budget_ms is None: budget_ms = lambda ob: 10000
    elif not callable(budget_ms):
        b = budget_ms; budget_ms = lambda ob: b
    _G.update(eng=eng, obls=obls, opts={"budget_ms": budget_ms, "refute": refute, "first_ms": first_ms, "refute_ms": refute_ms, "refute_K": refute_K})
    n = len(obls)
    if n == 0: return obls
    workers = min(workers or int(os.environ.get("VERIF_JOBS", "0")) or (os.cpu_count() or 4), n)
    t0 = time.time()
    if workers <= 1:
        results = [solve_one(i) for i in range(n)]
    else:
        ctx = mp.get_context("fork")
        with ctx.Pool(workers, initializer=_quiet_worker) as pool:
            results = list(pool.imap_unordered(solve_one, range(n), chunksize=1))
    for r in results:
        ob = obls[r["i"]]
        ob.result, ob.secs, ob.backend, ob.model, ob.detail = r["result"], r["secs"], r["backend"], r["witness"], r["detail"]
        if verbose and ob.result != "proved": print(f"  {ob.result:9s} {ob.secs:6.2f}s  {ob.oid}  {ob.detail[:100]}")
    return obls

# ----------------------------------------------------------------------------- SMT-LIB export / second solver
def to_smt2(eng, ob, logic=None):
    sol = z3.Solver()
    sol.add(*vc_exprs(eng, ob))
    txt = sol.to_smt2()
    return txt

SOLVER_CMDS = {
    "z3-4.8.12": ["/usr/bin/z3", "-smt2"],
    "cvc5-1.0.3": ["/usr/bin/cvc5", "--strings-exp", "--full-saturate-quant", "--lang=smt2"],
}
def cross_check(eng, ob, solver="z3-4.8.12", timeout_s=20):
    """run the same VC through another solver binary; returns 'unsat' | 'sat' | 'unknown' | 'error:<..>'"""
    txt = to_smt2(eng, ob)
    with tempfile.NamedTemporaryFile("w", suffix=".smt2", delete=False, dir=os.environ.get("VERIF_OUT", None)) as f:
        f.write(txt); path = f.name
    try:
        cmd = SOLVER_CMDS[solver] + ([f"-T:{timeout_s}"] if solver.startswith("z3") else [f"--tlimit={timeout_s*1000}"]) + [path]
        p = subprocess.run(cmd, capture_output=True, text=True, timeout=timeout_s + 10)
        out = (p.stdout or "").strip().splitlines()
        ans = out[0].strip() if out else ""
        if ans in ("unsat", "sat", "unknown"): return ans
        return "error:" + (p.stdout + p.stderr)[:200]
    except subprocess.TimeoutExpired:
        return "unknown"
    finally:
        os.unlink(path)

# ----------------------------------------------------------------------------- groups built and discharged in child processes
def freeze(ob):
    """picklable summary of a discharged obligation (z3 terms replaced by text)"""
    from pyvc.engine import Obligation
    meta = {k: v for k, v in ob.meta.items() if isinstance(v, (str, int, float, bool, type(None))) or (isinstance(v, (list, tuple)) and all(isinstance(x, str) for x in v))}
    o = Obligation(ob.oid, [None] * len(ob.hyps), str(ob.goal)[:300], ob.line, ob.reveal, ob.kind, ob.func, ob.use_axioms, ob.expect_refuted, meta)
    o.result, o.secs, o.backend, o.model, o.detail = ob.result, ob.secs, ob.backend, ob.model, ob.detail
    return o

def _group_child(conn, fn, args, budget_ms, workers):
    _quiet_worker()
    try:
        eng, obls, info = fn(*args)
        discharge(eng, obls, budget_ms=budget_ms, workers=workers)
        if os.environ.get("VERIF_CROSS"):
            info = dict(info or {}); info["cross_check"] = cross_check_many(eng, obls, max_n=int(os.environ.get("VERIF_CROSS_N", "200")), workers=max(2, workers))
        conn.send(("ok", [freeze(o) for o in obls], info, dict(eng.stats), sorted(eng.derived)))
    except BaseException as ex:
        from pyvc.engine import Unsupported
        conn.send(("unsupported" if isinstance(ex, Unsupported) else "error", f"{type(ex).__name__}: {ex}\n" + traceback.format_exc()[-1500:], None, {}, []))
    finally:
        conn.close()

def run_groups(tasks, budget_ms=12000, workers_each=None):
    """tasks: list of (name, fn, args); fn(*args) -> (engine, obligations, info).  Each group is built AND discharged in its own forked
    process (the z3 objects never cross a process boundary); returns [(name, status, frozen-obligations | message, info, stats, derived)]"""
    ctx = mp.get_context("fork")
    ncpu = os.cpu_count() or 4
    # at most `par` groups at a time, each with ncpu // par solver workers: the machine is not oversubscribed however many groups a check has
    # (oversubscription turns the short first solver attempts into time-outs and makes verdicts depend on the load)
    par = max(1, min(len(tasks), int(os.environ.get("VERIF_GROUPS", "4"))))
    workers_each = workers_each or max(2, ncpu // par)
    pending = list(enumerate(tasks)); running = {}; results = {}
    while pending or running:
        while pending and len(running) < par:
            idx, (name, fn, args) = pending.pop(0)
            pc, cc = ctx.Pipe(duplex=False)
            p = ctx.Process(target=_group_child, args=(cc, fn, args, budget_ms, workers_each)); p.daemon = False; p.start(); cc.close()
            running[idx] = (name, p, pc)
        ready = mp.connection.wait([pc for (_n, _p, pc) in running.values()], timeout=1.0)
        for idx in [i for i, (_n, _p, pc) in running.items() if pc in ready]:
            name, p, pc = running.pop(idx)
            try: msg = pc.recv()
            except EOFError: msg = ("error", "child process died without a result", None, {}, [])
            p.join(); results[idx] = (name,) + tuple(msg)
    return [results[i] for i in range(len(tasks))]


def cross_check_many(eng, obls, max_n=300, seed=0, solver="z3-4.8.12", timeout_s=15, workers=8):
    """thorough tier: proved obligations are re-checked by an independent solver binary through SMT-LIB text.
    -> {checked, agreed, no_answer, disagreed: [ids]}; a `sat` from the second solver on a proved obligation is a disagreement (checker failure)"""
    import random, concurrent.futures as cf
    cand = [o for o in obls if o.result == "proved" and not o.expect_refuted and o.hyps is not None and not (o.hyps and o.hyps[0] is None)]
    rnd = random.Random(seed); rnd.shuffle(cand); cand = cand[:max_n]
    texts = []
    for o in cand:
        try:
            sol = z3.Solver(); sol.add(*vc_exprs(eng, o)); texts.append((o, sol.to_smt2()))
        except z3.Z3Exception: pass
    outdir = tempfile.mkdtemp(prefix="amshan_cross_")
    def run(item):
        i, (o, txt) = item; path = os.path.join(outdir, f"{i}.smt2"); open(path, "w").write(txt)
        try:
            cmd = SOLVER_CMDS[solver] + ([f"-T:{timeout_s}"] if solver.startswith("z3") else [f"--tlimit={timeout_s*1000}"]) + [path]
            p = subprocess.run(cmd, capture_output=True, text=True, timeout=timeout_s + 10)
            ans = ((p.stdout or "").strip().splitlines() or [""])[0].strip()
            return o.oid, ans if ans in ("unsat", "sat", "unknown") else "error"
        except subprocess.TimeoutExpired: return o.oid, "unknown"
        finally:
            try: os.unlink(path)
            except OSError: pass
    res = {"solver": solver, "checked": 0, "agreed": 0, "no_answer": 0, "disagreed": []}
    with cf.ThreadPoolExecutor(max_workers=workers) as ex:
        for oid, ans in ex.map(run, enumerate(texts)):
            res["checked"] += 1
            if ans == "unsat": res["agreed"] += 1
            elif ans == "sat": res["disagreed"].append(oid)
            else: res["no_answer"] += 1
    try: os.rmdir(outdir)
    except OSError: pass
    return res
